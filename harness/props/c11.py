"""C11 — equality, hash, copy, deepcopy and pickle are mutually coherent.

Proof obligations: Props/C11.v (model Struct/EqHash.v, proofs Struct/EqHashProofs.v).
Tie to the code: correspondence, inside Coq, of the model's inst_eq / inst_str / copy functions with
the real ==, str(), hash(), copy.copy, copy.deepcopy and the pickle round trip on generated classes
and groups of instances (equal spelling, permuted containers, numerically equal values of another
Python type, near misses).  Violation search: the clauses of the statement evaluated directly on the
implementation (reflexive/symmetric/transitive, field-wise agreement, eq => equal hash and collapse
in set/dict, copies equal with equal hash, copies independent under mutation histories and
validated like a regularly constructed instance).

Independence of copies is additionally checked on the OBJECT GRAPH (harness/c11graph.py): no mutable object
may be reachable from both an instance and its deep / unpickled copy (wrapper -> owner edges included); a
shared object is reported only after an actual change of it through its own public interface, reached from
one instance, was observed to change the other.  Inputs: every generated instance, and a deterministic
lattice of value shapes (chains of tuple / list / deque / dict / set / frozenset ending in a nested Structure
or in numbers, held by a typed field, an Anything field, an undeclared attribute).  The observed graphs are
also emitted as Gallina literals: inside Coq the model's deepcopy (Struct/CopyHeap.v, under the copy policy
re-read from the source, Gen/CopySites.v) must yield the same value and share the same mutable objects as
the observed copy, and the separation clause is evaluated on the observed graph (Check/C11heapchk.v)."""
import collections
import copy
import decimal
import enum
import math
import os
import pickle
import random
import sys
import types

from harness import core
from harness import coqemit as E
from harness import fieldgen as G
from harness import structgen as S
from harness import c11graph as CG

DYN = "harness_c11_dyn"


# ------------------------------------------------------------------ reification (iteration order kept)

def reify_val(v, depth=0):
    """Like coqemit.reify, but a set keeps its ITERATION order (that is what __str__ shows)."""
    if depth > 40:
        return ("other", "deep", "")
    rec = lambda x: reify_val(x, depth + 1)
    if v is None:
        return ("none",)
    if isinstance(v, bool):
        return ("bool", v)
    if isinstance(v, enum.Enum):
        return ("enum", type(v).__name__, v.name, rec(v.value))
    if isinstance(v, int):
        return ("int", int(v))
    if isinstance(v, float):
        if math.isfinite(v):
            return ("flt",) + E.float_me(v)
        return ("other", "float", repr(v))
    if isinstance(v, decimal.Decimal):
        if v.is_finite():
            return ("dec",) + E.dec_me(v)
        return ("other", "Decimal", str(v))
    if isinstance(v, str):
        return ("str", v)
    sa = S.struct_attrs(v)
    if sa is not None:
        return ("struct", type(v).__name__, [(k, rec(x)) for k, x in sa])
    if isinstance(v, collections.deque):
        return ("deque", [rec(x) for x in v])
    if isinstance(v, list):
        return ("list", [rec(x) for x in list.__iter__(v)])
    if isinstance(v, tuple):
        return ("tuple", [rec(x) for x in v])
    if isinstance(v, (set, frozenset)):
        return ("set", isinstance(v, frozenset), [rec(x) for x in v])
    if isinstance(v, dict):
        return ("dict", [(rec(k), rec(x)) for k, x in dict.items(v)])
    if type(v).__name__ == "Undefined" or getattr(v, "__name__", "") == "Undefined":
        return ("other", "Undefined", "<class 'typedpy.commons.Undefined'>")
    return ("other", type(v).__name__, "")


def inst_state(x):
    """Observable state of an instance: ("inst", cls, [(name, value)] sorted, nones|None, live)."""
    d = x.__dict__
    attrs = [(k, reify_val(d[k])) for k in sorted(d) if k not in S.INTERNAL]
    nones = sorted(d["_none_fields"]) if "_none_fields" in d else None
    return ("inst", type(x).__name__, attrs, nones, bool(d.get("_instantiated", False)))


def unordered(r):
    """Reified value with set members in a canonical order (a copy of a set may iterate differently)."""
    t = r[0]
    if t in ("list", "tuple", "deque"):
        return (t, [unordered(x) for x in r[1]])
    if t == "set":
        return (t, r[1], sorted((unordered(x) for x in r[2]), key=repr))
    if t == "dict":
        return (t, [(unordered(k), unordered(v)) for k, v in r[1]])
    if t == "struct":
        return (t, r[1], [(k, unordered(v)) for k, v in r[2]])
    return r


def public_state(x):
    st = inst_state(x)
    return (st[1], [(k, unordered(v)) for k, v in st[2]], st[3] or [])


def has_other(r):
    t = r[0]
    if t == "other":
        return True
    if t in ("list", "tuple", "deque"):
        return any(has_other(x) for x in r[1])
    if t == "set":
        return any(has_other(x) for x in r[2])
    if t == "dict":
        return any(has_other(k) or has_other(v) for k, v in r[1])
    if t == "struct":
        return any(has_other(v) for _, v in r[2])
    return False


def norm_str(s):
    """The class name of the deque wrapper is not what the property is about."""
    return s.replace("_DequeStruct(", "deque(")


# ------------------------------------------------------------------ classes

def fresh_module():
    mod = sys.modules.get(DYN)
    if mod is None:
        mod = types.ModuleType(DYN)
        sys.modules[DYN] = mod
    return mod


def make_ctx(asts):
    """Realise the class ASTs (exec of generated source) and make them picklable by reference."""
    ctx = S.Context(extra=asts)
    mod = fresh_module()
    for name, cls in ctx.classes.items():
        cls.__module__ = DYN
        cls.__qualname__ = name
        setattr(mod, name, cls)
    return ctx


def gen_class(rnd, name, idx):
    """Class AST for C11: typed containers are frequent (their order is what str/hash see)."""
    immutable = rnd.random() < 0.2
    c = S.gen_class(rnd, name, ctx_names=["Inner", "Sub", "Other"], container_bias=0.55,
                    immutable=immutable, max_depth=2)
    # fields for the None / numeric spellings the statement names
    extra = []
    r = rnd.random()
    if r < 0.35:
        extra.append({"name": "n_", "field": {"t": "num", "k": "Number", "s": "Any"}})
    if rnd.random() < 0.25:
        extra.append({"name": "y_", "field": {"t": "any"}})
    if rnd.random() < 0.15:
        extra.append({"name": "z_", "field": {"t": "none"}})
    if rnd.random() < 0.3:
        extra.append({"name": "s_", "field": {"t": "set", "imm": rnd.random() < 0.3,
                                              "item": rnd.choice([{"t": "num", "k": "Integer", "s": "Any"}, {"t": "str"}]),
                                              "sz": [None, None]}})
    if rnd.random() < 0.3:
        extra.append({"name": "m_", "field": {"t": "mapkv", "kf": {"t": "str"},
                                              "vf": {"t": "num", "k": "Number", "s": "Any"}, "sz": [None, None]}})
    if rnd.random() < 0.4:
        # a typed declaration whose values nest mutable objects inside immutable / other containers
        chain, leaf = rnd.choice(RICH_TYPED)
        extra.append({"name": "t_", "field": CG.shape_field(chain, leaf)})
    c["fields"] += extra
    if extra and c.get("required") is None and rnd.random() < 0.7:
        c["required"] = sorted(rnd.sample([f["name"] for f in c["fields"]], rnd.randint(0, 2)))
    if rnd.random() < 0.25:
        c["undefined"] = True
    if not immutable and rnd.random() < 0.25:
        # inherited (and possibly redeclared) fields: __eq__ / __getstate__ must see the fields of every base
        c["base"] = rnd.choice(["Inner", "Sub", "Other"])
    return c


def all_fields_view(c, ctx):
    """The class AST with the fields and required names of the whole inheritance chain (for generating
    arguments); the AST itself (with its base) is what replays and class sources use."""
    if not c.get("base"):
        return c
    v = dict(c)
    v["fields"] = ctx.all_fields(c["name"])
    v["required"] = ctx.resolved(c["name"])["required"]
    return v


RICH_SHAPES = [sh for sh in CG.shapes(2) if sh[0]]


def _has_raw(f):
    if f.get("t") == "raw":
        return True
    return any(_has_raw(g) for key in ("item", "kf", "vf") for g in [f.get(key)] if isinstance(g, dict)) or \
        any(_has_raw(g) for key in ("items", "fs") for g in (f.get(key) or []))


# typed declarations that can be emitted as a model classdef (the subscript form Tuple[Inner] cannot)
RICH_TYPED = [sh for sh in RICH_SHAPES if not _has_raw(CG.shape_field(*sh))]


def rich_value(rnd):
    """A nested value with mutable objects inside (for Anything fields and undeclared attributes)."""
    chain, leaf = rnd.choice(RICH_SHAPES)
    return CG.shape_value(chain, leaf, rnd.randint(0, 3))


def enrich(rnd, c, kw):
    """Values of Anything fields replaced (half of the time) by nested values holding mutable objects."""
    anys = {fd["name"] for fd in c["fields"] if fd["field"]["t"] == "any"}
    return [(k, rich_value(rnd) if (k in anys and rnd.random() < 0.5) else v) for k, v in kw]


# ------------------------------------------------------------------ variants of a kwargs list

def permute(r, rnd):
    """Same entries, other insertion order, at every depth."""
    t = r[0]
    if t in ("list", "tuple", "deque"):
        return (t, [permute(x, rnd) for x in r[1]])
    if t == "set":
        items = [permute(x, rnd) for x in r[2]]
        items.reverse()
        return ("set", r[1], items)
    if t == "dict":
        pairs = [(k, permute(v, rnd)) for k, v in r[1]]
        if len(pairs) > 2 and rnd.random() < 0.5:
            rnd.shuffle(pairs)
        else:
            pairs.reverse()
        return ("dict", pairs)
    return r


def respell(r, rnd, p=0.7):
    """Numerically equal values of another Python type."""
    t = r[0]
    if t == "int" and rnd.random() < p:
        z = r[1]
        opts = []
        if abs(z) < 2 ** 53:
            opts += ["flt", "flt"]
        if z in (0, 1):
            opts += ["bool", "bool"]
        opts.append("dec")
        o = rnd.choice(opts)
        if o == "flt":
            return E.reify(float(z))
        if o == "bool":
            return ("bool", bool(z))
        return E.reify(decimal.Decimal(z))
    if t == "bool" and rnd.random() < p * 0.5:
        return ("int", int(r[1]))
    if t == "flt" and rnd.random() < p:
        x = G.unreify(r)
        if x == int(x):
            return ("int", int(x))
        d = decimal.Decimal(x)
        return E.reify(d) if rnd.random() < 0.3 and len(d.as_tuple().digits) <= 20 else r
    if t in ("list", "tuple", "deque"):
        return (t, [respell(x, rnd, p) for x in r[1]])
    if t == "set":
        return ("set", r[1], [respell(x, rnd, p) for x in r[2]])
    if t == "dict":
        return ("dict", [(respell(k, rnd, p * 0.5), respell(v, rnd, p)) for k, v in r[1]])
    return r


def try_build(cls, kw, ctx):
    """A VALID instance: accepted by the constructor, and its stored values are accepted again
    (an accepted instance whose stored normal form violates its own declaration is C01's subject)."""
    try:
        x = cls(**S.realize_kwargs(kw, ctx))
        cls(**{k: copy.deepcopy(v) for k, v in x.__dict__.items() if k not in S.INTERNAL})
        return x
    except Exception:  # noqa
        return None


def attrwise(cls, ctx, kw, kw2):
    """kw with as many entries as possible replaced by their variant in kw2 (each kept only when
    the constructor still accepts)."""
    cur = list(kw)
    for i, (k, v) in enumerate(kw2):
        if v != cur[i][1]:
            trial = cur[:i] + [(k, v)] + cur[i + 1:]
            if try_build(cls, trial, ctx) is not None:
                cur = trial
    return cur


def gen_group(rnd, c, ctx):
    """[(label, kwargs)] — a base instance and variants; all accepted by the constructor."""
    cls = ctx.classes[c["name"]]
    for _ in range(10):
        made = S.make_valid_instance(rnd, c, ctx)
        if made is None:
            continue
        kw = enrich(rnd, c, made[0])
        if any(has_other(v) for _, v in kw) or try_build(cls, kw, ctx) is None:
            continue
        break
    else:
        return []
    out = [("base", kw), ("same", kw)]
    pk = [(k, permute(v, rnd)) for k, v in kw]
    if pk != kw:
        pk = attrwise(cls, ctx, kw, pk)
        if pk != kw:
            out.append(("permuted", pk))
    nk = attrwise(cls, ctx, kw, [(k, respell(v, rnd)) for k, v in kw])
    if nk != kw:
        out.append(("respelled", nk))
        pn = attrwise(cls, ctx, nk, [(k, permute(v, rnd)) for k, v in nk])
        if pn != nk and rnd.random() < 0.6:
            out.append(("permuted+respelled", pn))
    # near misses / None handling
    req = c.get("required")
    names = [fd["name"] for fd in c["fields"]]
    optional = [n for n in names if req is not None and n not in req]
    for _ in range(2):
        if not kw:
            break
        i = rnd.randrange(len(kw))
        fd = [f for f in c["fields"] if f["name"] == kw[i][0]]
        if not fd:
            continue
        try:
            v = G.gen_valid(rnd, fd[0]["field"], ctx.instances)
        except Exception:  # noqa
            continue
        if has_other(v):
            continue
        dk = kw[:i] + [(kw[i][0], v)] + kw[i + 1:]
        if try_build(cls, dk, ctx) is not None:
            out.append(("changed", dk))
    present = [k for k, _ in kw]
    if optional:
        n = rnd.choice(optional)
        if n in present:
            dk = [(k, v) for k, v in kw if k != n]
            if try_build(cls, dk, ctx) is not None:
                out.append(("dropped", dk))
            nk2 = [(k, (("none",) if k == n else v)) for k, v in kw]
            if try_build(cls, nk2, ctx) is not None:
                out.append(("none-set", nk2))
        else:
            nk2 = kw + [(n, ("none",))]
            if try_build(cls, nk2, ctx) is not None:
                out.append(("none-set", nk2))
    if c.get("additional") and rnd.random() < 0.6:
        ek = kw + [("extra_1", rnd.choice([("int", 3), ("str", "x"), ("list", [("int", 1), ("int", 2)]),
                                           rich_value(rnd), rich_value(rnd)]))]
        if try_build(cls, ek, ctx) is not None:
            out.append(("extra", ek))
            out.append(("extra-same", ek))
    return out


# ------------------------------------------------------------------ diagnosis of eq-but-different-str

def diff_causes(a, b, path=""):
    """Why two reified values that compare equal are printed differently: set of cause tags."""
    ta, tb = a[0], b[0]
    numeric = ("bool", "int", "flt", "dec")
    if ta in numeric and tb in numeric:
        if ta != tb:
            names = {"bool": "bool", "int": "int", "flt": "float", "dec": "decimal"}
            return {"%s-vs-%s" % tuple(sorted([names[ta], names[tb]], key=["bool", "int", "float", "decimal"].index))}
        return set() if a == b else {"unexplained:number"}
    if ta != tb:
        return {"unexplained:type:%s/%s" % (ta, tb)}
    if ta in ("list", "tuple", "deque"):
        if len(a[1]) != len(b[1]):
            return {"unexplained:length"}
        out = set()
        for x, y in zip(a[1], b[1]):
            out |= diff_causes(x, y)
        return out
    if ta == "set":
        out = set()
        if a[1] != b[1]:
            out.add("set-vs-frozenset")
        if len(a[2]) != len(b[2]):
            return {"unexplained:length"}
        ka = [G.py_key(x) for x in a[2]]
        kb = [G.py_key(x) for x in b[2]]
        if sorted(map(repr, ka)) != sorted(map(repr, kb)):
            return {"unexplained:set-members"}
        if ka != kb:
            out.add("set-insertion-order")
        byk = {repr(G.py_key(y)): y for y in b[2]}
        for x in a[2]:
            out |= diff_causes(x, byk[repr(G.py_key(x))])
        return out
    if ta == "dict":
        if len(a[1]) != len(b[1]):
            return {"unexplained:length"}
        ka = [G.py_key(k) for k, _ in a[1]]
        kb = [G.py_key(k) for k, _ in b[1]]
        if sorted(map(repr, ka)) != sorted(map(repr, kb)):
            return {"unexplained:dict-keys"}
        out = set()
        if ka != kb:
            out.add("map-insertion-order")
        byk = {repr(G.py_key(k)): (k, v) for k, v in b[1]}
        for k, v in a[1]:
            k2, v2 = byk[repr(G.py_key(k))]
            out |= diff_causes(k, k2) | diff_causes(v, v2)
        return out
    if ta == "struct":
        if a[1] != b[1]:
            return {"unexplained:class"}
        return attrs_causes(a[2], b[2])
    return set() if a == b else {"unexplained:%s" % ta}


def attrs_causes(aa, bb):
    da, db = dict(aa), dict(bb)
    out = set()
    for k in sorted(set(da) | set(db)):
        if k not in da or k not in db:
            v = da.get(k, db.get(k))
            out.add("none-vs-absent" if v == ("none",) else "unexplained:attr-missing")
        else:
            out |= diff_causes(da[k], db[k])
    return out


# ------------------------------------------------------------------ spec clauses on the implementation

def safe_eq(a, b):
    try:
        return bool(a == b)
    except Exception as ex:  # noqa
        return ("raise", E.exn_name(ex))


def fieldwise_equal(a, b):
    """Field-wise equality of the values read back (declared fields through the descriptor, other
    attributes through __dict__)."""
    if type(a) is not type(b):
        return False
    fields = list(type(a).get_all_fields_by_name().keys())
    for f in fields:
        if not (getattr(a, f) == getattr(b, f)):
            return False
    for k in set(a.__dict__) | set(b.__dict__):
        if k in S.INTERNAL or k in fields:
            continue
        if not (a.__dict__.get(k) == b.__dict__.get(k)):
            return False
    return True


def check_group(insts, labels):
    """Clauses on a list of instances of one class.  Returns (fails, eq matrix, strs, hashes).
    fails: list of (key, what, detail)."""
    n = len(insts)
    fails = []
    eq = [[safe_eq(insts[i], insts[j]) for j in range(n)] for i in range(n)]
    strs = [str(x) for x in insts]
    hs = [hash(x) for x in insts]
    states = [inst_state(x) for x in insts]
    for i in range(n):
        if eq[i][i] is not True:
            fails.append(("eq/not-reflexive", "x == x is %r for %s" % (eq[i][i], strs[i]), {"i": i}))
        if insts[i] != insts[i]:
            fails.append(("eq/ne-reflexive", "x != x holds for %s" % strs[i], {"i": i}))
    for i in range(n):
        for j in range(n):
            if eq[i][j] != eq[j][i]:
                fails.append(("eq/not-symmetric", "a == b is %r but b == a is %r: %s / %s" % (
                    eq[i][j], eq[j][i], strs[i], strs[j]), {"i": i, "j": j}))
            if (insts[i] != insts[j]) == (eq[i][j] is True):
                fails.append(("eq/ne-inconsistent", "a != b is not the negation of a == b: %s / %s" % (strs[i], strs[j]),
                              {"i": i, "j": j}))
            fw = fieldwise_equal(insts[i], insts[j])
            if fw != (eq[i][j] is True):
                fails.append(("eq/fieldwise-disagrees",
                              "a == b is %r but the field-wise comparison of the values read back is %r: %s / %s" % (
                                  eq[i][j], fw, strs[i], strs[j]), {"i": i, "j": j}))
            if eq[i][j] is True and i < j:
                collapse = len({insts[i], insts[j]}) == 1 and len({insts[i]: 0, insts[j]: 1}) == 1
                if hs[i] != hs[j] or not collapse:
                    causes = attrs_causes(states[i][2], states[j][2])
                    if (states[i][3] or []) != (states[j][3] or []):
                        causes.add("unexplained:none-fields")
                    if not causes:
                        causes = {"identical-spelling"}
                    for cse in sorted(causes):
                        fails.append(("eq-hash/" + cse,
                                      "a == b but hash(a) != hash(b) (no collapse in set/dict): %s / %s" % (strs[i], strs[j]),
                                      {"i": i, "j": j}))
    for i in range(n):
        for j in range(n):
            for k in range(n):
                if eq[i][j] is True and eq[j][k] is True and eq[i][k] is not True:
                    fails.append(("eq/not-transitive", "a == b, b == c, but a == c is %r: %s / %s / %s" % (
                        eq[i][k], strs[i], strs[j], strs[k]), {"i": i, "j": j, "k": k}))
    return fails, eq, strs, hs


COPIES = ("copy", "deepcopy", "pickle")


def make_copy(kind, x):
    if kind == "copy":
        return copy.copy(x)
    if kind == "deepcopy":
        return copy.deepcopy(x)
    return pickle.loads(pickle.dumps(x))


def deepcopy_validating(x):
    """Structure.__deepcopy__ without the _skip_validation flag: the copy, or None if it raises."""
    try:
        cls = type(x)
        result = cls.__new__(cls)
        memo = {id(x): result}
        for k, v in x.__dict__.items():
            setattr(result, k, copy.deepcopy(v, memo))
        return result
    except Exception:  # noqa
        return None


def diag_deepcopy_state(x, y, c):
    """Why a deep copy stores other values than the original: an artefact of _skip_validation (the
    validating variant of the same copy keeps the values) in an AnyOf declaration, or something else."""
    sx, sy = public_state(x), public_state(y)
    dx, dy = dict(sx[1]), dict(sy[1])
    diff = [k for k in set(dx) | set(dy) if dx.get(k) != dy.get(k)]
    v = deepcopy_validating(x)
    if v is not None and public_state(v) == sx:
        kinds = set()
        for fd in c["fields"]:
            if fd["name"] in diff:
                kinds |= kinds_in(fd["field"], ("anyof",))
        return "skip-validation:" + ("+".join(sorted(kinds)) if kinds else "none")
    return "other"


def kinds_in(f, wanted):
    out = set()
    if f["t"] in wanted:
        out.add(f["t"])
    for key in ("item", "kf", "vf"):
        if isinstance(f.get(key), dict):
            out |= kinds_in(f[key], wanted)
    for key in ("items", "fs"):
        for g in f.get(key) or []:
            out |= kinds_in(g, wanted)
    return out


def repaired(y, x):
    """An unpickled copy with the two internal attributes put back by hand (what __getstate__ / __setstate__ do
    themselves since the repair of C11-unpickled-lost-internal-state): used only to ATTRIBUTE a divergence of an
    unpickled copy to the loss of that state, never to hide it."""
    y.__dict__.setdefault("_none_fields", set(x.__dict__.get("_none_fields", ())))
    y.__dict__["_instantiated"] = True
    return y


def check_copy(kind, x, c):
    """copy / deepcopy / pickle round trip: equal, equal hash, same class.  Returns (fails, y|None)."""
    fails = []
    try:
        y = make_copy(kind, x)
    except Exception as ex:  # noqa
        if kind == "pickle":
            return [], None      # "for picklable field types"
        # which declaration refuses its own (valid) value when it is copied
        msg = str(ex)
        fname = msg.split(":")[0].strip()
        base = fname.rsplit("_", 1)[0] if fname.rsplit("_", 1)[-1].isdigit() else fname
        decl = [fd["field"] for fd in c["fields"] if fd["name"] in (fname, base)]
        tag = "%s:other" % (decl[0]["t"] if decl else "unknown-field")
        if kind == "deepcopy" and deepcopy_validating(x) is not None:
            # the same copy succeeds when the attributes are re-set WITH validation: the failure is an
            # artefact of _skip_validation, under which NotField/OneOf options accept anything
            kinds = sorted(kinds_in(decl[0], ("not", "oneof"))) if decl else []
            tag = "skip-validation:" + ("+".join(kinds) if kinds else "none")
        return [("copy/%s/raises:%s" % (kind, tag),
                 "%s of a valid instance raised %s: %s" % (kind, type(ex).__name__, ex), {})], None
    if type(y) is not type(x):
        fails.append(("copy/%s/class-differs" % kind, "%r vs %r" % (type(y), type(x)), {}))
        return fails, y
    if kind == "deepcopy" and y is not x and public_state(y) != public_state(x):
        fails.append(("copy/deepcopy/state-differs:" + diag_deepcopy_state(x, y, c),
                      "the deep copy stores other values than the original: %s -> %s" % (x, y), {}))
        return fails, y
    e1, e2 = safe_eq(y, x), safe_eq(x, y)
    if e1 is not True or e2 is not True:
        key = "copy/%s/not-equal" % kind
        if kind == "pickle":
            sx, sy = inst_state(x), inst_state(y)
            lost = [k for k, _ in sx[2] if k not in dict(sy[2])]
            fields = set(type(x).get_all_fields_by_name().keys())
            if lost and all(k not in fields for k in lost):
                key = "pickle/extra-attrs-lost"
            elif public_state(x)[1] == public_state(y)[1] and sx[3] and not sy[3]:
                key = "pickle/lost-internal-state/none-fields-unequal"
        fails.append((key, "%s(x) == x is %r, x == %s(x) is %r: %s -> %s" % (kind, e1, kind, e2, x, y), {}))
    elif hash(y) != hash(x):
        causes = attrs_causes(inst_state(x)[2], inst_state(y)[2]) or {"identical-spelling"}
        for cse in sorted(causes):
            fails.append(("copy/%s/hash-differs:%s" % (kind, cse), "equal copy with another hash: %s -> %s" % (x, y), {}))
    return fails, y


# ------------------------------------------------------------------ mutation histories

LIST_OPS = ["append", "extend", "insert", "setitem", "pop", "remove", "clear"]
DEQUE_OPS = ["append", "appendleft", "extend", "pop", "popleft", "clear", "setitem"]
DICT_OPS = ["setitem", "update", "pop", "delitem", "clear"]


def item_field(f, pos=0):
    t = f["t"]
    if t == "seqeach":
        return f["item"]
    if t == "seqpos":
        return f["items"][pos] if pos < len(f["items"]) else None
    return None


def gen_item(rnd, g, ctx, valid):
    for _ in range(8):
        if g is None:
            v = G.gen_hashable(rnd)
        else:
            v = G.gen_valid(rnd, g, ctx.instances)
            if not valid:
                v = G.corrupt(rnd, g, v, ctx.instances)
        if not has_other(v):
            return v
    return ("int", 1)


def has_nested_mutable(r, depth=0):
    """A mutable object strictly inside the (reified) value: list/dict/set/deque/Structure."""
    t = r[0]
    if depth > 0 and (t in ("list", "dict", "deque", "struct") or (t == "set" and not r[1])):
        return True
    if t in ("list", "tuple", "deque"):
        return any(has_nested_mutable(x, depth + 1) for x in r[1])
    if t == "set":
        return any(has_nested_mutable(x, depth + 1) for x in r[2])
    if t == "dict":
        return any(has_nested_mutable(v, depth + 1) for _, v in r[1])
    return False


def first_nested(v, depth=0):
    """The first mutable object strictly inside a stored value (base-type iteration: no wrapper
    accessor, no defensive copy in between)."""
    from typedpy import Structure
    if depth > 0 and isinstance(v, (list, dict, set, collections.deque, Structure)):
        return v
    if isinstance(v, Structure):
        return None
    if isinstance(v, list):
        items = list(list.__iter__(v))
    elif isinstance(v, dict):
        items = list(dict.values(v))
    elif isinstance(v, (tuple, set, frozenset, collections.deque)):
        items = list(v)
    else:
        return None
    for x in items:
        got = first_nested(x, depth + 1)
        if got is not None:
            return got
    return None


def mutate_nested(obj):
    """In-place change of a nested object through its base type's own method."""
    from typedpy import Structure
    if isinstance(obj, Structure):
        setattr(obj, "a", 12345)
    elif isinstance(obj, collections.deque):
        collections.deque.append(obj, 99)
    elif isinstance(obj, list):
        list.append(obj, 99)
    elif isinstance(obj, dict):
        dict.__setitem__(obj, "zz9", 99)
    else:
        set.add(obj, 99)


def gen_history(rnd, c, ctx, kw, length):
    """[op]: op = ["set", name, value] | ["wrap", name, method, [args]] (values reified)."""
    ops = []
    fields = {fd["name"]: fd["field"] for fd in ctx.all_fields(c["name"])}
    present = dict(kw)
    nested = [k for k, v in kw if has_nested_mutable(v)]
    for _ in range(length):
        if nested and rnd.random() < 0.3:
            ops.append(["nested", rnd.choice(nested)])
            continue
        name = rnd.choice(list(fields))
        f = fields[name]
        valid = rnd.random() < 0.6
        wrapk = {"seqeach": f.get("k"), "seqpos": f.get("k"), "seqany": f.get("k"), "mapkv": "dict", "mapany": "dict"}.get(f["t"])
        if wrapk and name in present and rnd.random() < 0.7:
            if wrapk == "dict":
                m = rnd.choice(DICT_OPS)
                cur = present[name][1] if present[name][0] == "dict" else []
                if f["t"] == "mapkv":
                    k = gen_item(rnd, f["kf"], ctx, valid or rnd.random() < 0.5)
                    v = gen_item(rnd, f["vf"], ctx, valid)
                else:
                    k, v = G.gen_hashable(rnd), ("int", 1)
                if m in ("pop", "delitem"):
                    args = [cur[0][0]] if cur and rnd.random() < 0.8 else [k]
                elif m == "clear":
                    args = []
                elif m == "update":
                    args = [("dict", [(k, v)])]
                else:
                    args = [k, v]
                if any(not G.is_hashable(a) for a in args[:1]) and m != "update":
                    continue
            else:
                m = rnd.choice(LIST_OPS if wrapk == "list" else DEQUE_OPS)
                cur = present[name][1] if present[name][0] in ("list", "deque") else []
                pos = len(cur) if m in ("append", "extend") else 0
                v = gen_item(rnd, item_field(f, pos), ctx, valid)
                if m in ("append", "appendleft"):
                    args = [v]
                elif m == "extend":
                    args = [("list", [v])]
                elif m == "insert":
                    args = [("int", 0), v]
                elif m == "setitem":
                    args = [("int", 0), v]
                elif m == "remove":
                    args = [cur[0] if cur else v]
                else:
                    args = []
            ops.append(["wrap", name, m, args])
        else:
            try:
                v = G.gen_valid(rnd, f, ctx.instances)
                if not valid:
                    v = G.corrupt(rnd, f, v, ctx.instances)
            except Exception:  # noqa
                continue
            if has_other(v):
                continue
            ops.append(["set", name, v])
    return ops


def apply_op(x, op, ctx):
    """Outcome class of one operation: "ok" or the exception class name."""
    try:
        if op[0] == "set":
            setattr(x, op[1], G.unreify(op[2], ctx.classes))
        elif op[0] == "nested":
            obj = first_nested(x.__dict__.get(op[1]))
            if obj is None:
                return "absent"
            mutate_nested(obj)
        else:
            w = x.__dict__.get(op[1])
            if w is None:
                return "absent"
            args = [G.unreify(a, ctx.classes) for a in op[3]]
            m = {"setitem": "__setitem__", "delitem": "__delitem__"}.get(op[2], op[2])
            getattr(w, m)(*args)
        return "ok"
    except Exception as ex:  # noqa
        return E.exn_name(ex)


def same_outcome(a, b):
    te_ve = ("TypeError", "ValueError", "InvalidStructureErr")
    return a == b or (a in te_ve and b in te_ve)


def run_history(kind, cls, kw, ops, ctx, repair=False):
    """x: regular instance; y: its copy; r: a second regular instance with the same values (the
    reference the copy must behave like).  Ops are applied to y and r in lockstep, x is watched.
    Then ops are applied to x and y is watched.  Returns list of (symptom, what, op index)."""
    x = cls(**S.realize_kwargs(kw, ctx))
    r = cls(**S.realize_kwargs(kw, ctx))
    try:
        y = make_copy(kind, x)
    except Exception:  # noqa  (reported by the copy clause)
        return []
    if repair:
        repaired(y, x)
    aliased = y is x
    out = []
    snap_x = public_state(x)
    if public_state(y) != public_state(r):
        return [("initial-state-differs", "the %s is %r, a regular instance with the same values is %r" % (
            kind, public_state(y), public_state(r)), 0)]
    for i, op in enumerate(ops):
        oy = apply_op(y, op, ctx)
        orr = apply_op(r, op, ctx)
        if not aliased and public_state(x) != snap_x:
            out.append(("original-changed", "op %r on the %s changed the original: %r -> %r" % (
                op, kind, snap_x, public_state(x)), i))
            return out
        if not same_outcome(oy, orr):
            out.append(("outcome-differs", "op %r on the %s gives %s, on a regular instance with the same values %s" % (
                op, kind, oy, orr), i))
            return out
        if public_state(y) != public_state(r):
            out.append(("state-differs", "after op %r the %s is %r, a regular instance with the same values is %r" % (
                op, kind, public_state(y), public_state(r)), i))
            return out
    if aliased:
        return out
    snap_y = public_state(y)
    for i, op in enumerate(ops):
        apply_op(x, op, ctx)
        if public_state(y) != snap_y:
            out.append(("copy-changed", "op %r on the original changed its %s: %r -> %r" % (
                op, kind, snap_y, public_state(y)), i))
            return out
    return out


def history_fails(kind, c, cls, kw, ops, ctx):
    """Keyed failures of one history.  A divergence of an unpickled copy that disappears once the
    two internal attributes dropped by __getstate__ are restored is keyed by that root cause."""
    try:
        res = run_history(kind, cls, kw, ops, ctx)
    except Exception as ex:  # noqa
        if kind == "pickle" and isinstance(ex, (pickle.PicklingError, TypeError, AttributeError)) and not _picklable(cls, kw, ctx):
            return []
        return [("independence/%s/harness-raises:%s" % (kind, type(ex).__name__), repr(ex), {"ops": ops})]
    fails = []
    for symptom, what, i in res:
        key = "independence/%s/%s" % (kind, symptom)
        op = ops[i]
        if kind == "deepcopy" and symptom == "initial-state-differs":
            x0 = cls(**S.realize_kwargs(kw, ctx))
            key = "copy/deepcopy/state-differs:" + diag_deepcopy_state(x0, copy.deepcopy(x0), c)
        if kind == "pickle" and symptom in ("outcome-differs", "state-differs", "initial-state-differs"):
            try:
                again = run_history(kind, cls, kw, ops[:i + 1], ctx, repair=True)
            except Exception:  # noqa
                again = [("x", "", 0)]
            if not again:
                opk = "setattr" if op[0] == "set" else "wrapper-op"
                if symptom == "initial-state-differs":
                    tag = "none-fields-unequal"
                elif " gives AttributeError," in what:
                    tag = "none-fields-attributeerror"
                elif " gives ok," in what and getattr(cls, "_immutable", False):
                    tag = "immutable-%s-accepted" % opk
                elif " gives ok," in what and c_has_hook(c, ctx):
                    tag = "validate-hook-skipped"
                else:
                    tag = "other:" + symptom
                key = "pickle/lost-internal-state/" + tag
        fails.append((key, what, {"ops": ops[:i + 1], "copy": kind}))
    return fails


def c_has_hook(c, ctx):
    return ctx.hook_of(c["name"]) is not None


def _picklable(cls, kw, ctx):
    try:
        pickle.dumps(cls(**S.realize_kwargs(kw, ctx)))
        return True
    except Exception:  # noqa
        return False


# ------------------------------------------------------------------ emission

def atoms(r, acc):
    t = r[0]
    if t in ("int", "flt", "dec"):
        acc["num"].add(r)
    elif t == "str":
        acc["str"].add(r[1])
    elif t == "enum":
        acc["enum"].add((r[1], r[2]))
        atoms(r[3], acc)
    elif t in ("list", "tuple", "deque"):
        for x in r[1]:
            atoms(x, acc)
    elif t == "set":
        for x in r[2]:
            atoms(x, acc)
    elif t == "dict":
        for k, v in r[1]:
            atoms(k, acc)
            atoms(v, acc)
    elif t == "struct":
        for _, v in r[2]:
            atoms(v, acc)
    return acc


def emit_oracles(states):
    acc = {"num": set(), "str": set(), "enum": set()}
    for st in states:
        for _, v in st[2]:
            atoms(v, acc)
    nums = ["(%s, %s)" % (G.emit_num(r), E.pstr(str(G.unreify(r)))) for r in sorted(acc["num"], key=repr)]
    strs = ["(%s, %s)" % (E.pstr(s), E.pstr(repr(s))) for s in sorted(acc["str"])]
    ens = ["((%s, %s), %s)" % (E.pstr(c), E.pstr(n), E.pstr(repr(G.ENUMS[c][n].value))) for c, n in sorted(acc["enum"])]
    return "{| o_num := %s; o_str := %s; o_enum := %s |}" % (E.lst(nums), E.lst(strs), E.lst(ens))


def emit_inst(st):
    nones = "None" if st[3] is None else "(Some %s)" % E.lst([E.pstr(k) for k in st[3]])
    return "{| i_cls := %s; i_attrs := %s; i_nones := %s; i_live := %s |}" % (
        E.pstr(st[1]), E.lst(["(%s, %s)" % (E.pstr(k), E.pval(v)) for k, v in st[2]]), nones, E.blit(st[4]))


HEADER = """From Coq Require Import ZArith NArith String List Bool. Import ListNotations.
From TP Require Import Check.C11chk Check.C11heapchk.
Local Open Scope string_scope.
"""

P_FUNCS = ("p_eq_mismatch", "p_str_mismatch", "p_hash_mismatch", "p_predicted_incoherent", "p_canonical",
           "p_spec_fail_canonical", "p_dom")
C_FUNCS = ("c_mismatch_gen", "c_predicted_lossy")     # pickle: under the __getstate__ policy read from the source


def eval_retry(shards, tag, header):
    """core.eval_cases; a shard whose coqc died without a Coq error (killed by the OOM killer / timeout of an
    overloaded machine) is evaluated once more on its own."""
    res = core.eval_cases(shards, tag, header)
    for i, (rc, so, se) in enumerate(res):
        if rc != 0 and "Error" not in (so + se):
            res[i] = core.eval_cases([shards[i]], tag + "r%d" % i, header)[0]
    return res


def evaluate(groups, ctx, tag="c11"):
    """groups: list of dict(cname, undef, states[], pairs[(i,j,eq,heq)], strs[], copies[(kind,i,state)]).
    Returns (pair index lists by function, copy index lists, flat pair list, flat copy list)."""
    shards, cur, npairs = [], [], 0
    layout = []
    for g in groups:
        if npairs + len(g["pairs"]) > 270 and cur:
            shards.append(cur)
            cur, npairs = [], 0
        cur.append(g)
        npairs += len(g["pairs"])
    if cur:
        shards.append(cur)
    texts = []
    for sh in shards:
        body, pc, cc = [], [], []
        pl, cl = [], []
        for gi, g in enumerate(sh):
            body.append("Definition cls_%d : classdef := %s." % (gi, ctx.emit_classdef(g["cname"])))
            body.append("Definition or_%d : oracles := %s." % (gi, emit_oracles(g["states"])))
            for k, st in enumerate(g["states"]):
                body.append("Definition x_%d_%d : inst := %s." % (gi, k, emit_inst(st)))
            for (i, j, eq, heq) in g["pairs"]:
                pc.append("{| pc_or := or_%d; pc_cls := cls_%d; pc_undef := %s; pc_a := x_%d_%d; pc_b := x_%d_%d; "
                          "pc_eq := %s; pc_sa := %s; pc_sb := %s; pc_heq := %s |}" % (
                              gi, gi, E.blit(g["undef"]), gi, i, gi, j, E.blit(eq), E.pstr(norm_str(g["strs"][i])),
                              E.pstr(norm_str(g["strs"][j])), E.blit(heq)))
                pl.append((g, i, j))
            for (kind, i, st) in g["copies"]:
                cc.append("{| cc_cls := cls_%d; cc_kind := %s; cc_x := x_%d_%d; cc_obs := %s |}" % (
                    gi, {"copy": "KCopy", "deepcopy": "KDeep", "pickle": "KPickle"}[kind], gi, i, emit_inst(st)))
                cl.append((g, kind, i))
        body.append("Definition pcases : list pcase := %s." % E.lst(["\n " + x for x in pc]))
        body.append("Definition ccases : list ccase := %s." % E.lst(["\n " + x for x in cc]))
        for fn in P_FUNCS:
            body.append("Eval vm_compute in (indices_where %s pcases 0)." % fn)
        for fn in C_FUNCS:
            body.append("Eval vm_compute in (indices_where %s ccases 0)." % fn)
        texts.append(("\n".join(body) + "\n", pl, cl))
    res = eval_retry([t for t, _, _ in texts], tag, HEADER)
    pout = {fn: [] for fn in P_FUNCS}
    cout = {fn: [] for fn in C_FUNCS}
    pflat, cflat = [], []
    for si, ((rc, so, se), (_, pl, cl)) in enumerate(zip(res, texts)):
        vals = core.parse_eval(so)
        if rc != 0 or len(vals) != len(P_FUNCS) + len(C_FUNCS):
            raise RuntimeError("case shard %d failed to evaluate: %s" % (si, (so + se)[-1500:]))
        for fn, v in zip(P_FUNCS, vals):
            pout[fn] += [len(pflat) + i for i in core.parse_nat_list(v)]
        for fn, v in zip(C_FUNCS, vals[len(P_FUNCS):]):
            cout[fn] += [len(cflat) + i for i in core.parse_nat_list(v)]
        pflat += pl
        cflat += cl
    return pout, cout, pflat, cflat



# ------------------------------------------------------------------ object graphs: what a copy shares with its original

HEADER_H = """From Coq Require Import ZArith NArith String List Bool. Import ListNotations.
From TP Require Import Check.C11heapchk.
Local Open Scope string_scope.
"""
H_FUNCS = ("h_dom", "h_mismatch", "h_spec_fail", "h_predicted_shared")
GRAPH_KINDS = ("deepcopy", "pickle", "copy")


def sharing_python(c, ctx, kw, kind):
    return python_src(c, ctx, [kw], "y = %s\n# every mutable object reachable from y must be unreachable from x0\n" % {
        "copy": "copy.copy(x0)", "deepcopy": "copy.deepcopy(x0)", "pickle": "pickle.loads(pickle.dumps(x0))"}[kind])


def sharing_check(rep, stream, c, ctx, kw, hcases, shape_key):
    """The separation clause on one instance, for each kind of copy; observed graphs are queued for Coq."""
    cls = ctx.classes[c["name"]]
    build = lambda: cls(**S.realize_kwargs(kw, ctx))
    for kind in GRAPH_KINDS:
        if kind == "copy":
            # shallow copies share their attribute values by design: outside the independence claim; the graph is
            # kept for the correspondence with the model's copy_shallow
            try:
                x = build()
                y = copy.copy(x)
            except Exception:  # noqa
                continue
            if y is x:
                continue
            fails, stats, gt = [], [], CG.graph_of(x, y)
            rep.stat(stream, "copy:" + ("shares-mutable" if CG.shared_mutable(*gt) else "shares-nothing-mutable"))
        else:
            try:
                fails, stats, gt = CG.sharing_fails(build, kind, public_state)
            except (pickle.PicklingError, TypeError, AttributeError):
                if kind == "pickle":
                    rep.stat(stream, "pickle:unpicklable")
                    continue
                raise
            rep.count(stream, 1, (kind, shape_key, bool(fails)))
            for st in stats:
                rep.stat(stream, kind + ":" + st)
            for key, what in fails:
                rep.stat(stream, kind + ":" + key)
                rep.finding("C11/independence/%s/%s" % (kind, key), what,
                            {"class": c, "kwargs": [kw], "scenario": "sharing", "copy": kind,
                             "python": sharing_python(c, ctx, kw, kind)})
        if gt is not None:
            if gt[2][0] != "ref":
                rep.stat(stream, "immutable-instance(a value, no graph)")
            elif CG.has_opaque(gt[0], reify_val):
                rep.stat(stream, "graph-outside-model-domain")
            else:
                hcases.append({"kind": kind, "gt": gt, "class": c, "kw": kw, "flagged": bool(fails),
                               "unobservable": any(s.startswith("shared-but-no-observable-effect") for s in stats)})


def deep_lockstep_check(rep, stream, c, ctx, kw, shape_key):
    """Lock-step changes of EVERY mutable object reachable from the copy (any depth) against a regularly
    constructed instance.  The unpickled copy is taken as the library hands it out; when it diverges and the
    divergence disappears once `_none_fields` / `_instantiated` are put back by hand, the failure is keyed by that
    root cause (the repaired defect C11-unpickled-lost-internal-state, should it return)."""
    cls = ctx.classes[c["name"]]
    build = lambda: cls(**S.realize_kwargs(kw, ctx))
    for kind in ("deepcopy", "pickle"):
        lost_internal = False
        try:
            res = CG.deep_lockstep(build, kind, public_state, same_outcome, None)
            if res and kind == "pickle":
                try:
                    lost_internal = not CG.deep_lockstep(build, kind, public_state, same_outcome, repaired)
                except Exception:  # noqa
                    lost_internal = False
        except (pickle.PicklingError, TypeError, AttributeError) as ex:
            if kind == "pickle" and not _picklable(cls, kw, ctx):
                continue
            res = [("harness-raises:" + type(ex).__name__, "inst", [], repr(ex))]
        except Exception as ex:  # noqa
            res = [("harness-raises:" + type(ex).__name__, "inst", [], repr(ex))]
        rep.count(stream, 1, (kind, "deep", shape_key, bool(res)))
        rep.stat(stream, kind + ":deep-lockstep:" + ("diverges" if res else "ok"))
        for sym, k, path, what in res:
            key = "independence/%s/deep:%s:%s" % (kind, sym, k)
            if lost_internal:
                key = "pickle/lost-internal-state/deep:%s:%s" % (sym, k)
            if kind == "pickle" and sym == "initial-state-differs":
                x = build()
                lost = [a for a, _ in inst_state(x)[2] if a not in dict(inst_state(CG.make_copy(kind, x))[2])]
                fields = set(cls.get_all_fields_by_name().keys())
                if lost and all(a not in fields for a in lost):
                    key = "pickle/extra-attrs-lost"
            if kind == "deepcopy" and sym == "initial-state-differs":
                x0 = build()
                key = "copy/deepcopy/state-differs:" + diag_deepcopy_state(x0, copy.deepcopy(x0), c)
            rep.finding("C11/" + key, what, {"class": c, "kwargs": [kw], "scenario": "deep-lockstep", "copy": kind,
                                             "python": sharing_python(c, ctx, kw, kind)})


def lattice_stream(rep, tier, hcases):
    """Deterministic enumeration: every chain (length <= 3, thorough 4) of tuple / list / deque / dict value /
    set / frozenset ending in a nested mutable Structure or in numbers, held by a typed field, an Anything
    field, an undeclared attribute."""
    depth = 3 if tier == "quick" else 4
    n = 0
    for chain, leaf in CG.shapes(depth):
        for holder, c, kw in CG.lattice_classes(chain, leaf):
            try:
                ctx = make_ctx([c])
                cls = ctx.classes[c["name"]]
                cls(**S.realize_kwargs(kw, ctx))
            except Exception:  # noqa  (e.g. a typed Set of unhashable items)
                rep.stat("sharing-lattice", "declaration-or-value-rejected:" + holder)
                continue
            rep.stat("sharing-lattice", "holder:" + holder)
            rep.stat("sharing-lattice", "depth:%d/leaf:%s" % (len(chain), leaf))
            # the Coq side of the deepest level is sampled (every 3rd case): the Python clause sees all
            n += 1
            keep = [] if (len(chain) >= 4 and n % 3) else hcases
            sharing_check(rep, "sharing-lattice", c, ctx, kw, keep, (holder, chain, leaf))
            deep_lockstep_check(rep, "sharing-lattice", c, ctx, kw, (holder, chain, leaf))


def evaluate_heaps(hcases, tag="c11h"):
    """-> ({fn: [indices]}, policy facts dict)."""
    shards = []
    per = 170
    for i in range(0, len(hcases), per):
        body = ["Definition hcases : list hcase := %s." % E.lst(
            ["\n " + CG.emit_hcase(h["kind"], h["gt"], reify_val) for h in hcases[i:i + per]])]
        for fn in H_FUNCS:
            body.append("Eval vm_compute in (indices_where %s hcases 0)." % fn)
        shards.append("\n".join(body) + "\n")
    shards.append("Eval vm_compute in policy_readable.\nEval vm_compute in policy_is_safe.\n"
                  "Eval vm_compute in policy_unsafe_types.\nEval vm_compute in copy_sites.\n"
                  "Eval vm_compute in state_policy_is_safe.\nEval vm_compute in state_sites.\n"
                  "Eval vm_compute in copy_is_dict_update.\n")
    res = eval_retry(shards, tag, HEADER_H)
    out = {fn: [] for fn in H_FUNCS}
    for si, (rc, so, se) in enumerate(res[:-1]):
        vals = core.parse_eval(so)
        if rc != 0 or len(vals) != len(H_FUNCS):
            raise RuntimeError("graph shard %d failed to evaluate: %s" % (si, (so + se)[-1500:]))
        for fn, v in zip(H_FUNCS, vals):
            out[fn] += [si * per + i for i in core.parse_nat_list(v)]
    rc, so, se = res[-1]
    vals = core.parse_eval(so)
    if rc != 0 or len(vals) != 7:
        raise RuntimeError("policy facts failed to evaluate: %s" % (so + se)[-1500:])
    pol = {"readable": vals[0].strip() == "true", "safe": vals[1].strip() == "true",
           "unsafe_types": [t for t in vals[2].replace("[", " ").replace("]", " ").replace(";", " ").split() if t.startswith("T")],
           "policy": vals[3], "state_safe": vals[4].strip() == "true", "state_policy": vals[5],
           "copy_dict_update": vals[6].strip() == "true"}
    return out, pol


def graph_obligations(rep, hcases):
    """Correspondence of the model's copy with the observed graphs, the separation clause evaluated in Coq,
    and the facts about the copy policy read from the source."""
    hout, pol = evaluate_heaps(hcases)
    s = rep.cov["streams"].setdefault("graphs", {"evaluations": 0})
    s["evaluations"] = len(hcases)
    s["theorem_hypotheses_hold(closed, immutable-opaque)"] = len(hout["h_dom"])
    s["model_predicts_shared_mutable"] = len(hout["h_predicted_shared"])
    s["observed_shared_mutable"] = len(hout["h_spec_fail"])
    s["copy_policy_from_source"] = pol["policy"]
    by_kind = {}
    for h in hcases:
        by_kind[h["kind"]] = by_kind.get(h["kind"], 0) + 1
    s["dist"] = {"kind:" + k: v for k, v in by_kind.items()}
    concrete = any(not v["no_input"] for v in rep.violations)
    rep.obligation("tables:copy-policy-readable", pol["readable"], pol["policy"][:250])
    rep.obligation("tables:copy-policy-safe", pol["safe"],
                   "re-used types that can hold mutable objects: %s" % (pol["unsafe_types"] or "none"))
    rep.obligation("tables:getstate-policy-keeps-every-stored-field", pol["state_safe"], pol["state_policy"][:200])
    rep.obligation("tables:copy-is-dict-update", pol["copy_dict_update"], "")
    s["getstate_policy_from_source"] = pol["state_policy"]
    if not pol["state_safe"] and not concrete:
        rep.broken("tables:getstate-policy",
                   "Structure.__getstate__ no longer reads as `every field of the inheritance chain that is present in __dict__, "
                   "with its stored value` (Gen/CopySites.v: %s); no unequal unpickled copy was found on any generated input" % pol["state_policy"],
                   {"policy": pol["state_policy"]})
    if not pol["readable"] and not concrete:
        rep.broken("tables:copy-policy-readable",
                   "harness/genmods/copy_sites.py no longer recognises the shape of Structure.__deepcopy__ or of a wrapper's "
                   "__deepcopy__ (Gen/CopySites.v has UnknownPol): the model cannot follow the code; no shared mutable object "
                   "was found on any lattice or generated input", {"policy": pol["policy"]})
    elif not pol["safe"] and not concrete:
        rep.broken("tables:copy-policy-safe",
                   "the copy routines re-use values of %s (C11_unsafe_policy_witness applies to the MODEL); the witness shapes "
                   "are part of the lattice, and no shared mutable object was observed on the implementation" % pol["unsafe_types"],
                   {"policy": pol["policy"]})
    if len(hout["h_dom"]) < 0.9 * max(1, len(hcases)):
        rep.broken("correspondence:graph-domain", "%d of %d observed graphs fall outside the model's domain: inconclusive" % (
            len(hcases) - len(hout["h_dom"]), len(hcases)))
    bad = hout["h_mismatch"]
    if bad and os.environ.get("C11_DEBUG"):
        for b in bad[:8]:
            h = hcases[b]
            print("DEBUG graph", h["kind"], S.class_src(h["class"]), h["kw"], CG.emit_hcase(h["kind"], h["gt"], reify_val), sep="\n   ")
    rep.obligation("correspondence:copy-graphs(value, shared mutable objects)", not bad,
                   "%d observed graphs, %d mismatches" % (len(hcases), len(bad)))
    if bad and not concrete:
        h = hcases[bad[0]]
        rep.broken("correspondence:copy-graphs",
                   "the model's %s (under the policy read from the source) and the real one differ in value or in the mutable "
                   "objects shared with the original on %d observed graphs; no clause of C11 failed on any explored input" % (
                       h["kind"], len(bad)),
                   {"class": h["class"], "kwargs": [h["kw"]], "scenario": "sharing", "copy": h["kind"]})
    # the separation clause evaluated in Coq on the observed graph must agree with the evaluation done in Python
    disagree = [i for i in hout["h_spec_fail"] if not (hcases[i]["flagged"] or hcases[i]["unobservable"])]
    rep.obligation("spec-on-observed:C11_deepcopy_separated", not [i for i in hout["h_spec_fail"] if hcases[i]["flagged"]],
                   "%d observed deep / unpickled copies, %d share a mutable object with the original (%d of them with no "
                   "observable effect)" % (sum(1 for h in hcases if h["kind"] != "copy"), len(hout["h_spec_fail"]),
                                           sum(1 for i in hout["h_spec_fail"] if hcases[i]["unobservable"] and not hcases[i]["flagged"])))
    if disagree:
        h = hcases[disagree[0]]
        rep.broken("evaluators:separation", "separatedb (Coq) reports sharing on %d observed graphs on which the Python walk "
                   "found none" % len(disagree), {"class": h["class"], "kwargs": [h["kw"]], "scenario": "sharing", "copy": h["kind"]})
    return pol

# ------------------------------------------------------------------ replay

def python_src(c, ctx, kws, note=""):
    src = G.IMPORTS + "import copy, pickle\n" + "".join(S.class_src(a) + "\n" for a in ctx.asts[:3]) + S.class_src(c) + "\n"
    for i, kw in enumerate(kws):
        src += "x%d = %s(%s)\n" % (i, c["name"], ", ".join("%s=%s" % (k, G.py_src(v)) for k, v in kw))
    return src + note


def replay(obj):
    """Re-run the stored scenario on the implementation alone."""
    c = obj["class"]
    ctx = make_ctx([c])
    cls = ctx.classes[c["name"]]
    kws = [[(k, _tuplify(v)) for k, v in kw] for kw in obj["kwargs"]]
    want = obj["finding_key"].split("/", 1)[1]
    fails = []
    if obj.get("scenario") == "group":
        insts = [cls(**S.realize_kwargs(kw, ctx)) for kw in kws]
        fails, _, strs, hs = check_group(insts, [])
        for s, h in zip(strs, hs):
            print("instance :", s, " hash", h)
    elif obj.get("scenario") == "sharing":
        build = lambda: cls(**S.realize_kwargs(kws[0], ctx))
        print("class    :", S.class_src(c))
        print("instance :", build(), "\ncopy     :", obj["copy"])
        got, stats, _ = CG.sharing_fails(build, obj["copy"], public_state)
        fails = [("independence/%s/%s" % (obj["copy"], k), w, {}) for k, w in got]
        for st in stats:
            print("graph    :", st)
        print("required : no mutable object reachable from both the original and its", obj["copy"])
    elif obj.get("scenario") == "deep-lockstep":
        build = lambda: cls(**S.realize_kwargs(kws[0], ctx))
        print("class    :", S.class_src(c))
        print("instance :", build(), "\ncopy     :", obj["copy"])
        rr = core.Report("C11", "quick")
        rr.known = []
        deep_lockstep_check(rr, "replay", c, ctx, kws[0], ())
        fails = [(v["key"].split("/", 1)[1], v["what"], {}) for v in rr.violations]
        print("required : every mutable object reachable from the", obj["copy"], "behaves like the one at the same place of a "
              "regularly constructed instance, and the original does not change")
    elif obj.get("scenario") == "copy":
        x = cls(**S.realize_kwargs(kws[0], ctx))
        fails, y = check_copy(obj["copy"], x, c)
        print("original :", x, "\ncopy     :", y)
    else:
        ops = [_tuplify(o) for o in obj["ops"]]
        ops = [list(o) if o[0] in ("set", "nested") else [o[0], o[1], o[2], list(o[3])] for o in ops]
        fails = history_fails(obj["copy"], c, cls, kws[0], ops, ctx)
        print("class    :", S.class_src(c))
        print("kwargs   :", kws[0], "\nhistory  :", ops, "on the", obj["copy"])
    hit = [f for f in fails if f[0] == want]
    for k, w, _ in fails:
        print("FAILS    :", k, "-", w)
    if not hit:
        print("the recorded clause (%s) holds on this input now" % want)
    return 1 if hit else 0


def _tuplify(v):
    if isinstance(v, list):
        if v and isinstance(v[0], str) and v[0] in ("none", "bool", "int", "flt", "dec", "str", "list", "tuple", "deque",
                                                     "set", "dict", "enum", "struct", "other"):
            t = v[0]
            if t in ("list", "tuple", "deque"):
                return (t, [_tuplify(x) for x in v[1]])
            if t == "set":
                return (t, v[1], [_tuplify(x) for x in v[2]])
            if t == "dict":
                return (t, [(_tuplify(k), _tuplify(x)) for k, x in v[1]])
            if t == "struct":
                return (t, v[1], [(k, _tuplify(x)) for k, x in v[2]])
            if t == "enum":
                return (t, v[1], v[2], _tuplify(v[3]))
            return tuple(v)
        return [_tuplify(x) for x in v]
    return v


# ------------------------------------------------------------------ run

def _tick(label, t=[None]):
    if os.environ.get("C11_TIMING"):
        import time
        now = time.time()
        if t[0] is not None:
            print("TIMING %-28s %.1fs" % (label, now - t[0]))
        t[0] = now


def run(rep, tier):
    _tick("start")
    rnd = random.Random(core.seed() * 1000003 + 11)
    nclasses = 110 if tier == "quick" else 900
    nhist = 2 if tier == "quick" else 5
    proofs_ok, model_ok = core.standard_proof_obligations(rep, "C11", ["theories/Check/C11chk.vo",
                                                                                   "theories/Check/C11heapchk.vo"])
    rep.assumptions += [
        "str() of numbers, repr() of str and of enum values are oracles (Section variables), instantiated per case from CPython",
        "str.__hash__ is uninterpreted (Section variable str_hash): hash agreement is decided through equality of the string form",
        "model values are finite data without nan/inf and arbitrary objects; Decimal exponent spelling (1.0 vs 1) is not represented",
        "nested Structure values compare by py_eq (no explicit None attribute inside nested instances)",
        "object graphs: an ImmutableStructure is a value (what is behind it cannot change: C04); the scratch Structure() a "
        "nested wrapper is bound to is not part of the graph; CPython's deepcopy of built-in containers is modelled "
        "(new object, children copied, an unchanged tuple returned itself), sharing preserved by the memo INSIDE one "
        "instance is not (tree copy)",
        "client operations in C11_separated_frames: allocation, in-place replacement of the children of a mutable object "
        "the client can reach, keeping a reference - every list/dict/set/deque/wrapper method and setattr/delattr is a "
        "sequence of these",
    ]
    _tick("proof obligations")
    hcases = []
    lattice_stream(rep, tier, hcases)
    _tick("lattice")
    asts = [gen_class(rnd, "K%d" % i, i) for i in range(nclasses)]
    # realise one by one first so that a rejected declaration does not poison the rest
    keep = []
    probe = S.Context()
    for c in asts:
        ns = dict(probe.ns)
        try:
            exec(S.class_src(c), ns)
            keep.append(c)
        except Exception:  # noqa
            rep.stat("classes", "declaration-rejected")
    ctx = make_ctx(keep)
    groups = []
    for c in keep:
        cls = ctx.classes[c["name"]]
        kws = gen_group(rnd, all_fields_view(c, ctx), ctx)
        if not kws:
            rep.stat("classes", "no-valid-instance")
            continue
        if c.get("base"):
            rep.stat("classes", "inherits:" + c["base"])
        labels = [l for l, _ in kws]
        insts = [cls(**S.realize_kwargs(kw, ctx)) for _, kw in kws]
        fails, eq, strs, hs = check_group(insts, labels)
        states = [inst_state(x) for x in insts]
        replay_base = {"class": c, "kwargs": [kw for _, kw in kws], "labels": labels}
        for key, what, det in fails:
            sel = sorted(set(det.values()))
            rep.finding("C11/" + key, what, dict(replay_base, scenario="group", kwargs=[kws[i][1] for i in sel],
                                                 python=python_src(c, ctx, [kws[i][1] for i in sel])))
        n = len(insts)
        pairs = []
        for i in range(n):
            for j in range(n):
                if isinstance(eq[i][j], bool):
                    pairs.append((i, j, eq[i][j], hs[i] == hs[j]))
                    shape = (labels[i], labels[j], eq[i][j], hs[i] == hs[j], tuple(sorted(f["field"]["t"] for f in c["fields"])))
                    rep.count("pairs", 1, shape if i != j else None)
                    rep.stat("pairs", "eq:%s/hash-eq:%s" % (eq[i][j], hs[i] == hs[j]))
        for l in labels:
            rep.stat("instances", "variant:" + l)
        rep.stat("classes", "immutable" if c.get("immutable") else "mutable")
        if c.get("undefined"):
            rep.stat("classes", "undefined-enabled")
        # copies
        copies = []
        flagged = set()
        for i in sorted(set([0] + [k for k, l in enumerate(labels) if l in ("none-set", "extra", "permuted")])):
            for kind in COPIES:
                cf, y = check_copy(kind, insts[i], c)
                if y is None and not cf:
                    rep.stat("copies", "unpicklable")
                    continue
                rep.count("copies", 1, (kind, labels[i], bool(cf)))
                rep.stat("copies", kind + (":fails" if cf else ":ok"))
                for key, what, det in cf:
                    flagged.add((kind, i))
                    rep.finding("C11/" + key, what, dict(replay_base, scenario="copy", copy=kind, kwargs=[kws[i][1]],
                                                         python=python_src(c, ctx, [kws[i][1]], "y = %s\nprint(y == x0, hash(y) == hash(x0))\n" % {
                                                             "copy": "copy.copy(x0)", "deepcopy": "copy.deepcopy(x0)",
                                                             "pickle": "pickle.loads(pickle.dumps(x0))"}[kind])))
                if y is not None:
                    copies.append((kind, i, inst_state(y)))
        # what the copies share with the original (object graph)
        for i in sorted(set([0] + [k for k, l in enumerate(labels) if l in ("extra", "permuted", "changed")][:2])):
            sharing_check(rep, "sharing-generated", c, ctx, kws[i][1], hcases,
                          (labels[i], tuple(sorted(f["field"]["t"] for f in c["fields"]))))
            deep_lockstep_check(rep, "sharing-generated", c, ctx, kws[i][1],
                                (labels[i], tuple(sorted(f["field"]["t"] for f in c["fields"]))))
        # mutation histories on the copies
        for kind in ("deepcopy", "pickle", "copy"):
            for _ in range(nhist if kind != "copy" else 1):
                ops = gen_history(rnd, c, ctx, kws[0][1], rnd.randint(2, 6))
                if not ops:
                    continue
                if kind == "copy":
                    # shallow copies share their wrappers with the original: outside the independence claim; recorded
                    try:
                        res = run_history(kind, cls, kws[0][1], ops, ctx)
                        rep.stat("histories", "shallow-copy:" + (res[0][0] if res else "independent-on-this-history"))
                    except Exception:  # noqa
                        rep.stat("histories", "shallow-copy:raises")
                    continue
                hf = history_fails(kind, c, cls, kws[0][1], ops, ctx)
                rep.count("histories", 1, (kind, tuple(o[0] + ":" + (o[2] if o[0] == "wrap" else "") for o in ops), bool(hf)))
                rep.stat("histories", kind + (":diverges" if hf else ":ok"))
                for o in ops:
                    rep.stat("histories", "op:" + (o[2] if o[0] == "wrap" else {"set": "setattr", "nested": "nested-in-place"}[o[0]]))
                for key, what, det in hf:
                    rep.finding("C11/" + key, what, dict(replay_base, scenario="history", copy=kind, ops=det.get("ops"),
                                                         kwargs=[kws[0][1]], python=python_src(c, ctx, [kws[0][1]])))
        groups.append({"cname": c["name"], "undef": bool(c.get("undefined")), "states": states, "pairs": pairs,
                       "strs": strs, "copies": copies, "ast": c, "kws": kws, "flagged": flagged})
    if groups:
        g = groups[0]
        rep.sample({"class": S.class_src(g["ast"]), "instances": g["strs"][:4]})
        g = groups[-1]
        rep.sample({"class": S.class_src(g["ast"]), "instances": g["strs"][:4]})
    if len(groups) < nclasses * 0.5:
        rep.broken("generator:classes", "only %d of %d generated classes yielded a valid instance: inconclusive" % (len(groups), nclasses))
    _tick("generated classes")
    if model_ok and groups:
        try:
            pout, cout, pflat, cflat = evaluate(groups, ctx)
            _tick("coq pairs/copies")
        except RuntimeError as ex:
            rep.broken("correspondence:coq-eval", str(ex))
            pout = None
        if pout is not None:
            s = rep.cov["streams"].setdefault("pairs", {"evaluations": 0})
            s["in_model_domain"] = len(pout["p_dom"])
            s["theorem_hypotheses_hold(canonical)"] = len(pout["p_canonical"])
            s["model_predicts_eq_with_other_hash"] = len(pout["p_predicted_incoherent"])
            rep.cov["streams"].setdefault("copies", {"evaluations": 0})["model_predicts_lossy_pickle"] = len(cout["c_predicted_lossy"])
            if len(pout["p_dom"]) < 0.8 * max(1, len(pflat)):
                rep.broken("correspondence:domain", "%d of %d pairs fall outside the model's domain: inconclusive" % (
                    len(pflat) - len(pout["p_dom"]), len(pflat)))
            for name, fn, what in (("inst_eq", "p_eq_mismatch", "model inst_eq vs real =="),
                                   ("inst_str", "p_str_mismatch", "model inst_str vs real str()"),
                                   ("hash", "p_hash_mismatch", "model (equal strings) vs real hash equality")):
                bad = pout[fn]
                if bad and os.environ.get("C11_DEBUG"):
                    for b in bad[:6]:
                        g, i, j = pflat[b]
                        print("DEBUG", name, S.class_src(g["ast"]), g["kws"][i], g["kws"][j], g["strs"][i], g["strs"][j],
                              g["states"][i], g["states"][j], sep="\n   ")
                rep.obligation("correspondence:" + name, not bad, "%d pairs, %d mismatches" % (len(pflat), len(bad)))
                if bad and not any(not v["no_input"] for v in rep.violations):
                    g, i, j = pflat[bad[0]]
                    rep.broken("correspondence:" + name,
                               "%s differ on %d generated pairs; no clause of C11 failed on any explored input" % (what, len(bad)),
                               {"class": g["ast"], "kwargs": [g["kws"][i][1], g["kws"][j][1]], "scenario": "group",
                                "observed": {"eq": [p for p in g["pairs"] if p[0] == i and p[1] == j], "str": [g["strs"][i], g["strs"][j]]},
                                "python": python_src(g["ast"], ctx, [g["kws"][i][1], g["kws"][j][1]])})
            # spec on observed behaviour under the hypotheses of C11_hash_char
            for idx in pout["p_spec_fail_canonical"]:
                g, i, j = pflat[idx]
                rep.finding("C11/eq-hash/canonical-pair", "canonical instances are equal but hash differently: %s / %s" % (
                    g["strs"][i], g["strs"][j]), {"class": g["ast"], "kwargs": [g["kws"][i][1], g["kws"][j][1]], "scenario": "group"})
            rep.obligation("spec-on-observed:C11_hash_char", not pout["p_spec_fail_canonical"],
                           "%d canonical pairs, %d observed equal with different hash" % (
                               len(pout["p_canonical"]), len(pout["p_spec_fail_canonical"])))
            allbad = cout["c_mismatch_gen"]
            # a copy on which a clause of the property fails (reported above) is not a modelling error
            bad = [b for b in allbad if (cflat[b][1], cflat[b][2]) not in cflat[b][0]["flagged"]]
            rep.obligation("correspondence:copy/deepcopy/pickle", not bad,
                           "%d copies, %d mismatches (%d more on copies already reported as violating a clause)" % (
                               len(cflat), len(bad), len(allbad) - len(bad)))
            if bad and not any(not v["no_input"] for v in rep.violations):
                g, kind, i = cflat[bad[0]]
                rep.broken("correspondence:copy/deepcopy/pickle",
                           "the model's %s and the real one yield different states on %d cases" % (kind, len(bad)),
                           {"class": g["ast"], "kwargs": [g["kws"][i][1]], "scenario": "copy", "copy": kind,
                            "python": python_src(g["ast"], ctx, [g["kws"][i][1]])})
    if model_ok and hcases:
        try:
            graph_obligations(rep, hcases)
            _tick("coq graphs")
        except RuntimeError as ex:
            rep.broken("correspondence:coq-eval-graphs", str(ex))
    if not proofs_ok:
        from harness.props.c17 import broken_build
        broken_build(rep)
    return rep.finish(
        rule="per generated class (1-9 fields, typed containers frequent, some immutable / undefined-enabled / additional "
             "properties / __validate__ hooks): a group of valid instances = base, same spelling, permuted container contents, "
             "numerically equal values of another type, changed / dropped / None-set / extra attributes; every ordered pair is "
             "a case; copies (copy, deepcopy, pickle) of selected instances; mutation histories (setattr + wrapper mutators, "
             "valid and invalid arguments) on deep / unpickled copies in lockstep with a regular instance; Anything fields and "
             "undeclared attributes hold nested values with mutable objects inside half of the time, a quarter of the classes "
             "inherit from Inner/Sub/Other; object graphs (by id()) of selected instances and of their copy/deepcopy/pickle copies: "
             "no mutable object reachable from both (confirmed by an actual change through the shared object's interface), "
             "lock-step changes of every reachable mutable object against a regular instance, graphs emitted to Coq; the same on a "
             "deterministic lattice of value shapes (chains up to length 3, thorough 4, of tuple/list/deque/dict/set/frozenset "
             "ending in a nested Structure or numbers, held by a typed field / an Anything field / an undeclared attribute); "
             "distinct = distinct (variant labels, eq, hash-eq, field kinds) resp. (copy kind, holder, shape, outcome); identical "
             "pairs (i = i) are not counted as non-trivial")
