"""C17 — versioned conversion composes, reaches the latest version, leaves input intact.

Proof obligations: Props/C17.v (theorems over all histories, documents, split points).
Tie to the code: differential correspondence of the model's convert_dict (Ser/Versioned.v,
evaluated inside Coq by vm_compute) against typedpy's convert_dict on generated histories.
Violation search: the statement's clauses evaluated on the implementation's observed behaviour."""
import copy
import random

from harness import core
from harness import coqemit as E

KEYS = ["a", "b", "c", "name", "old", "sub", "items", "k", "n", "x", "y"]
PATHS = ["a", "b", "old.name", "sub.x", "items.x", "missing", "a.b.c", "sub", "items", "old", "name", "x.y"]


def FUNCS():
    return {
        0: lambda *a: a[0],
        1: lambda *a: list(a),
        2: lambda *a: (a[0] + 1) if type(a[0]) is int else None,
        3: lambda *a: len(a),
        4: _raiser,
    }


def _raiser(*a):
    raise ValueError("always")


# ------------------------------------------------------------------ generators (model AST, JSON-able)

def gen_scalar(rnd):
    return rnd.choice([None, True, False, 0, 1, -3, 7, 2 ** 40, 0.5, -2.25, "", "s", "joe", "a.b"])


def gen_flat(rnd, depth=0):
    d = {}
    for k in rnd.sample(KEYS, rnd.randint(0, 4)):
        r = rnd.random()
        if r < 0.6 or depth >= 2:
            d[k] = gen_scalar(rnd)
        elif r < 0.8:
            d[k] = gen_flat(rnd, depth + 1)
        else:
            d[k] = [gen_flat(rnd, depth + 1) for _ in range(rnd.randint(0, 3))]
    return d


def gen_doc(rnd, nmaps):
    d = {}
    r = rnd.random()
    latest = nmaps + 1
    if r < 0.80:
        d["version"] = rnd.randint(1, latest)
    elif r < 0.88:
        d["version"] = latest + rnd.randint(1, 2)       # beyond the latest
    elif r < 0.92:
        d["version"] = rnd.choice([0, -1, True])         # outside the documented range
    # else: absent
    body = gen_flat(rnd)
    body.pop("version", None)
    if rnd.random() < 0.5:
        items = list(body.items())
        pos = rnd.randint(0, len(items))
        items[pos:pos] = list(d.items())
        return dict(items)
    d.update(body)
    return d


def gen_mval(rnd, depth, allow_version):
    r = rnd.random()
    if r < 0.22:
        return ["const", rnd.choice([gen_scalar(rnd), [1, 2], {"z": 1}])]
    if r < 0.44:
        return ["key", rnd.choice(PATHS)]
    if r < 0.60:
        return ["deleted"]
    if r < 0.80:
        nargs = rnd.choice([0, 0, 1, 2, 3])
        fid = rnd.choice([0, 1, 2, 3, 3, 2, 1, 0, 4]) if rnd.random() < 0.3 else rnd.choice([0, 1, 2, 3])
        return ["func", fid, rnd.sample(KEYS, nargs)]
    if r < 0.85:
        return ["ignored"]
    return ["const", gen_scalar(rnd)]


def gen_mapping(rnd, depth=0, touch_version=False):
    m = []
    keys = rnd.sample(KEYS, rnd.randint(0, 4))
    for k in keys:
        if depth < 2 and rnd.random() < 0.25:
            m.append([k + "._mapper", ["sub", gen_mapping(rnd, depth + 1)]])
        else:
            m.append([k, gen_mval(rnd, depth, False)])
    if touch_version:
        m.insert(rnd.randint(0, len(m)), ["version", rnd.choice([["const", 1], ["deleted"], ["key", "a"],
                                                                  ["func", 2, []]])])
    return m


def gen_case(rnd):
    n = rnd.choice([0, 1, 1, 2, 2, 3, 3, 4, 5])
    touch = rnd.random() < 0.06
    maps = [gen_mapping(rnd, 0, touch and rnd.random() < 0.5) for _ in range(n)]
    doc = gen_doc(rnd, n)
    # make nested-mapper targets well formed: dict / list of dicts / None / absent
    for m in maps:
        for k, v in m:
            if k.endswith("._mapper"):
                f = k[: -len("._mapper")]
                if f in doc and not _wf_nested(doc[f]):
                    doc[f] = gen_flat(rnd, 1) if rnd.random() < 0.5 else [gen_flat(rnd, 1) for _ in range(2)]
    return doc, maps


def _wf_nested(v):
    return v is None or isinstance(v, dict) or (isinstance(v, list) and all(isinstance(x, dict) for x in v))


def wf_all_nested(doc, maps):
    """Generator-side over-approximation of the model's domain: every value a nested mapper
    can reach is a dict, a list of dicts or None (the theorems hold regardless; the
    correspondence is only claimed on this domain)."""
    return True


# ------------------------------------------------------------------ realisation

def realize_mapping(m, funcs):
    from typedpy import Constant, Deleted, FunctionCall
    out = {}
    for k, v in m:
        t = v[0]
        if t == "const":
            out[k] = Constant(copy.deepcopy(v[1]))
        elif t == "sub":
            out[k] = realize_mapping(v[1], funcs)
        elif t == "func":
            out[k] = FunctionCall(func=funcs[v[1]], args=list(v[2])) if v[2] else FunctionCall(func=funcs[v[1]])
        elif t == "key":
            out[k] = v[1]
        elif t == "deleted":
            out[k] = Deleted
        else:
            out[k] = 12345
    return out


def describe_mapping(m):
    """Structural snapshot of a realised mapping object (to detect modification)."""
    from typedpy import Constant, Deleted, FunctionCall
    out = []
    for k, v in m.items():
        if isinstance(v, Constant):
            out.append((k, "const", copy.deepcopy(v())))
        elif isinstance(v, dict):
            out.append((k, "sub", describe_mapping(v)))
        elif isinstance(v, FunctionCall):
            out.append((k, "func", id(v.func), list(v.args) if v.args is not None else None))
        elif v is Deleted:
            out.append((k, "deleted"))
        else:
            out.append((k, "val", copy.deepcopy(v)))
    return out


# ------------------------------------------------------------------ emission

def emit_mval(v):
    t = v[0]
    if t == "const":
        return "(MConst %s)" % E.pval(E.reify(v[1]))
    if t == "sub":
        return "(MSub %s)" % emit_mapping(v[1])
    if t == "func":
        return "(MFunc %s %s)" % (E.nlit(v[1]), E.lst([E.pstr(a) for a in v[2]]))
    if t == "key":
        return "(MKey %s)" % E.pstr(v[1])
    if t == "deleted":
        return "MDeleted"
    return "MIgnored"


def emit_mapping(m):
    return E.lst(["(%s, %s)" % (E.pstr(k), emit_mval(v)) for k, v in m])


HEADER = """From Coq Require Import ZArith NArith String List. Import ListNotations.
From TP Require Import Check.C17chk Ser.VersionedProofs.
Local Open Scope string_scope.
Definition hyps (c : case) : bool :=
  let '(d, maps, obs) := c in forallb keeps_version maps.
"""


def run_impl(doc, maps_ast):
    from typedpy.serialization.versioned_mapping import convert_dict
    funcs = FUNCS()
    maps = [realize_mapping(m, funcs) for m in maps_ast]
    d = copy.deepcopy(doc)
    try:
        return ("ok", convert_dict(d, maps)), d, maps
    except Exception as e:  # noqa
        return ("raise", E.exn_name(e)), d, maps


def keeps_version(maps_ast):
    for m in maps_ast:
        for k, _ in m:
            if k == "version" or k == "version._mapper":
                return False
    return True


def spec_check(doc, maps_ast, rep, where):
    """Evaluate the statement's clauses on the implementation.  Returns list of (key, what)."""
    from typedpy.serialization.versioned_mapping import convert_dict
    fails = []
    funcs = FUNCS()
    maps = [realize_mapping(m, funcs) for m in maps_ast]
    snap_maps = [describe_mapping(m) for m in maps]
    d = copy.deepcopy(doc)
    n = len(maps)
    try:
        once = convert_dict(d, maps)
    except Exception as e:  # noqa
        once = e
    # inputs intact (whatever happened)
    if d != doc or repr(d) != repr(doc):
        fails.append(("input-doc-modified", f"convert_dict modified its input document: {doc!r} -> {d!r}"))
    if [describe_mapping(m) for m in maps] != snap_maps:
        fails.append(("mapping-modified", "convert_dict modified a mapping object"))
    if isinstance(once, Exception):
        return fails
    v = doc.get("version")
    in_range = type(v) is int and 1 <= v <= n + 1
    if not (keeps_version(maps_ast) and type(v) is int and v >= 1):
        return fails
    # result must not alias the input
    if once is d:
        fails.append(("returns-input-object", "convert_dict returned the caller's dict object itself"))
    if in_range and once.get("version") != n + 1:
        fails.append(("version", f"result version {once.get('version')!r} != len(mappings)+1 = {n + 1}"))
    if v >= n + 1 and once != doc:
        fails.append(("latest-not-identity", f"document at latest version changed: {doc!r} -> {once!r}"))
    # composition through every prefix
    for k in range(0, n + 1):
        try:
            d1 = convert_dict(copy.deepcopy(doc), maps[:k])
            two = convert_dict(d1, maps)
        except Exception as e:  # noqa
            fails.append(("compose-raises", f"two-stage conversion through prefix {k} raised {type(e).__name__}: {e}"))
            continue
        if two != once or repr(two) != repr(once):
            fails.append(("compose", f"two-stage conversion through prefix {k} differs: {two!r} vs {once!r}"))
            break
    if in_range:
        try:
            again = convert_dict(copy.deepcopy(once), maps)
            if again != once:
                fails.append(("latest-not-identity", f"converted document is not a fixpoint: {once!r} -> {again!r}"))
        except Exception as e:  # noqa
            fails.append(("latest-raises", f"re-converting the converted document raised {e!r}"))
    return fails


def versioned_class_check(doc, maps_ast):
    """Deserializing from any older version equals deserializing the converted document;
    a new instance carries the latest version."""
    from typedpy import Versioned, Anything, Deserializer
    from typedpy.serialization.versioned_mapping import convert_dict
    fails = []
    funcs = FUNCS()
    maps = [realize_mapping(m, funcs) for m in maps_ast]
    n = len(maps)
    v = doc.get("version")
    if not (keeps_version(maps_ast) and type(v) is int and 1 <= v <= n + 1):
        return fails, False
    try:
        latest = convert_dict(copy.deepcopy(doc), maps)
    except Exception:  # noqa
        return fails, False
    names = [k for k in latest if k != "version" and k.isidentifier() and not k.startswith("_")]
    if set(latest) - set(names) - {"version"}:
        return fails, False
    ns = {"Versioned": Versioned, "Anything": Anything, "maps": maps}
    src = "class V(Versioned):\n    _versions_mapping = maps\n    _required = []\n"
    for k in names:
        src += f"    {k} = Anything\n"
    exec(src, ns)
    V = ns["V"]
    try:
        a = Deserializer(V).deserialize(copy.deepcopy(doc))
    except Exception as e:  # noqa
        a = ("raise", type(e).__name__)
    try:
        b = Deserializer(V).deserialize(copy.deepcopy(latest))
    except Exception as e:  # noqa
        b = ("raise", type(e).__name__)
    if isinstance(a, tuple) or isinstance(b, tuple):
        if a != b:
            fails.append(("deser-version", f"deserializing version {v} gives {a!r} but the converted document gives {b!r}"))
    else:
        if a != b:
            fails.append(("deser-version", f"deserializing version {v} differs from deserializing the converted document: {a} vs {b}"))
        if a.version != n + 1:
            fails.append(("deser-version", f"deserialized instance has version {a.version}, latest is {n + 1}"))
    # new instance
    try:
        x = V(**{k: latest[k] for k in names})
        if x.version != n + 1:
            fails.append(("new-instance-version", f"new instance has version {x.version}, latest is {n + 1}"))
        y = V(version=1, **{k: latest[k] for k in names})
        if y.version != n + 1:
            fails.append(("new-instance-version", f"new instance built with version=1 has version {y.version}"))
    except Exception as e:  # noqa
        fails.append(("new-instance-raises", f"constructing the latest-version instance raised {type(e).__name__}: {e}"))
    return fails, True


def python_src(doc, maps_ast):
    return ("from typedpy import Constant, Deleted, FunctionCall\n"
            "from typedpy.serialization.versioned_mapping import convert_dict\n"
            f"# mappings (model AST): {maps_ast!r}\n# document: {doc!r}\n")


def replay(obj):
    doc, maps = obj["doc"], obj["maps"]
    fails = spec_check(doc, maps, None, "replay")
    f2, _ = versioned_class_check(doc, maps)
    out, _, _ = run_impl(doc, maps)
    print("document :", doc)
    print("mappings :", maps)
    print("observed :", out)
    for k, w in fails + f2:
        print("FAILS    :", k, "-", w)
    if not fails + f2:
        print("no clause of C17 fails on this input now")
    return 1 if fails + f2 else 0


def run(rep, tier):
    rnd = random.Random(core.seed() * 1000003 + 17)
    ncases = 600 if tier == "quick" else 8000
    proofs_ok, model_ok = core.standard_proof_obligations(rep, "C17", ["theories/Check/C17chk.vo", "theories/Ser/VersionedProofs.vo"])
    rep.assumptions += [
        "FunctionCall functions are pure (Section variable fn in the theorems; the harness uses a fixed family of 5)",
        "theorems assume no top-level mapping entry names the key 'version' (keeps_version) and 1 <= version",
        "correspondence domain: values reached by nested '._mapper' entries are dicts, lists of dicts or None",
    ]
    cases = []
    corpus = core_corpus("C17")
    for c in corpus:
        cases.append((c["doc"], c["maps"]))
    while len(cases) < ncases:
        cases.append(gen_case(rnd))
    # run the implementation, evaluate the spec on it
    observed = []
    nvers = 0
    for doc, maps in cases:
        out, _, _ = run_impl(doc, maps)
        observed.append(out)
        kind = "raise" if out[0] == "raise" else "ok"
        rep.stat("convert_dict", "outcome:" + (out[1] if kind == "raise" else "ok"))
        rep.stat("convert_dict", "history_len:%d" % len(maps))
        shape = (len(maps), doc.get("version") if isinstance(doc.get("version"), int) else "x",
                 tuple(sorted({v[0] for m in maps for _, v in m})), kind)
        rep.count("convert_dict", 1, shape if maps else None)
        for key, what in spec_check(doc, maps, rep, "gen"):
            rep.finding("C17/" + key, what, {"doc": doc, "maps": maps, "python": python_src(doc, maps)})
        f2, ran = versioned_class_check(doc, maps)
        if ran:
            nvers += 1
            rep.count("versioned-class", 1)
        for key, what in f2:
            rep.finding("C17/" + key, what, {"doc": doc, "maps": maps, "python": python_src(doc, maps)})
    rep.sample({"document": cases[len(corpus)][0], "mappings": cases[len(corpus)][1],
                "observed": repr(observed[len(corpus)])})
    rep.sample({"document": cases[-1][0], "mappings": cases[-1][1], "observed": repr(observed[-1])})
    # correspondence in Coq
    if model_ok:
        shards = []
        per = 400
        for s in range(0, len(cases), per):
            items = []
            for (doc, maps), out in zip(cases[s:s + per], observed[s:s + per]):
                o = ("ok", E.reify(out[1])) if out[0] == "ok" else out
                items.append("(%s, %s, %s)" % (E.dictlit(E.reify(doc)), E.lst([emit_mapping(m) for m in maps]),
                                               E.outcome(o)))
            body = "Definition cases : list case := %s.\n" % E.lst(["\n " + i for i in items])
            body += "Eval vm_compute in (indices_where mismatch cases 0).\n"
            body += "Eval vm_compute in (length (filter hyps cases)).\n"
            body += "Eval vm_compute in (length (filter unmodelled cases)).\n"
            shards.append(body)
        res = core.eval_cases(shards, "c17", HEADER)
        mism = []
        nhyp = 0
        nunm = 0
        bad_shard = None
        for si, (rc, out, err) in enumerate(res):
            vals = core.parse_eval(out)
            if rc != 0 or len(vals) != 3:
                bad_shard = (si, (out + err)[-1500:])
                continue
            mism += [si * per + i for i in core.parse_nat_list(vals[0])]
            nhyp += core.parse_nat_list(vals[1])[0]
            nunm += core.parse_nat_list(vals[2])[0]
        rep.obligation("correspondence:convert_dict", not mism and bad_shard is None,
                       f"{len(cases)} cases, {len(mism)} mismatches")
        rep.cov["streams"]["convert_dict"]["theorem_hypotheses_hold"] = nhyp
        rep.cov["streams"]["convert_dict"]["outside_model_domain_skipped"] = nunm
        if nunm * 10 > len(cases):
            rep.broken("correspondence:convert_dict/domain", f"{nunm} of {len(cases)} cases fall outside the model's domain: inconclusive")
        if bad_shard is not None:
            rep.broken("correspondence:convert_dict/coq-eval", f"case shard {bad_shard[0]} failed to evaluate: {bad_shard[1]}")
        if mism and not rep.violations:
            i = mism[0]
            rep.broken("correspondence:convert_dict",
                       f"model (Ser/Versioned.v) and typedpy.convert_dict differ on {len(mism)} generated cases; "
                       "no clause of C17 failed on any explored input",
                       {"doc": cases[i][0], "maps": cases[i][1], "observed": repr(observed[i]),
                        "python": python_src(*cases[i])})
        elif mism:
            rep.obligation("correspondence:convert_dict:explained-by-violation", True,
                           "mismatching cases accompany a concrete violation reported above")
    if not proofs_ok:
        broken_build(rep)
    return rep.finish(
        rule="cases = (document, version history) drawn from a seeded grammar over Constant/Deleted/key moves/"
             "nested ._mapper (incl. lists)/FunctionCall, all start versions; non-trivial = history non-empty; "
             "distinct = distinct (history length, start version, mapping constructor set, outcome kind)")


def core_corpus(pid):
    import glob, json, os
    out = []
    for p in sorted(glob.glob(os.path.join(core.VERIF, "corpus", pid, "*.json"))):
        try:
            out.append(json.load(open(p)))
        except Exception:  # noqa
            pass
    return out


def broken_build(rep):
    """Proofs did not build: report, unless a concrete violation was already found."""
    if any(not v["no_input"] for v in rep.violations):
        return
    failed = getattr(rep, "build_failed", None)
    if failed:
        rep.broken("build:" + failed, getattr(rep, "build_log", "")[-2500:])
