"""C17 — versioned conversion composes, reaches the latest version, leaves input intact.

Proof obligations: Props/C17.v (theorems over all histories, documents, split points).
Tie to the code: differential correspondence of the model's convert_dict (Ser/Versioned.v,
evaluated inside Coq by vm_compute) against typedpy's convert_dict on generated histories.
Violation search: the statement's clauses evaluated on the implementation's observed behaviour.

Streams: convert_dict (corpus + lattice + random histories; clauses of the first sentence, incl. "the user
functions of exactly the pending mappings run, once each, in order" through tracer FunctionCalls);
versioned-class (every latest key an Anything field, default options); versioned-deser / -lattice
(harness/c17deser.py: subset-of-keys classes x 9 entry points x keep_undefined x direct_trusted_mapping x
camel_case_convert, old document vs its conversion, 8 ways of building a new instance); deser-state
(model of deserialize_structure_internal, Ser/VersionedDeser.v at the tables generated from the source this run,
against the observed public state of the instance, inside Coq).

False alarms met while strengthening (model/harness repaired, check not loosened):
  * a mapping that moves a float under "version" (outside the theorems' hypotheses, but inside the correspondence
    domain): Python computes 0.5 + 1, the model raised TypeError -> bump_version now adds exactly on floats;
  * a document whose "version" is 2**40: `skipn (Z.to_nat ...)` ran coqc out of memory (shard "failed to evaluate")
    -> py_slice_from returns [] when the index is beyond the list; the generator no longer invents a "version"."""
import copy
import random

from harness import core
from harness import coqemit as E
from harness import c17deser as D

KEYS = ["a", "b", "c", "name", "old", "sub", "items", "k", "n", "x", "y"]
PATHS = ["a", "b", "old.name", "sub.x", "items.x", "missing", "a.b.c", "sub", "items", "old", "name", "x.y"]


TRACE_KEY = "tr"          # not in KEYS / PATHS: no other entry of a generated mapping touches it


class _Funcs(dict):
    """The fixed family of FunctionCall functions.  Ids >= 100 are tracers: identity on the value, and
    they log (id - 100) in `self.log` -- the order in which the mappings of a history were applied."""

    def __init__(self):
        super().__init__({
            0: lambda *a: a[0],
            1: lambda *a: list(a),
            2: lambda *a: (a[0] + 1) if type(a[0]) is int else None,
            3: lambda *a: len(a),
            4: _raiser,
        })
        self.log = []

    def __missing__(self, fid):
        if fid < 100:
            raise KeyError(fid)

        def tracer(*a, _i=fid - 100):
            self.log.append(_i)
            return a[0]
        self[fid] = tracer
        return tracer


def FUNCS():
    return _Funcs()


def _raiser(*a):
    raise ValueError("always")


# ------------------------------------------------------------------ generators (model AST, JSON-able)

def gen_scalar(rnd):
    return rnd.choice([None, True, False, 0, 1, -3, 7, 2 ** 40, 0.5, -2.25, "", "s", "joe", "a.b"])


def gen_flat(rnd, depth=0):
    d = {}
    for k in rnd.sample(KEYS, rnd.randint(0, 4)):
        r = rnd.random()
        if r < 0.6 or depth >= 2:
            d[k] = gen_scalar(rnd)
        elif r < 0.8:
            d[k] = gen_flat(rnd, depth + 1)
        else:
            d[k] = [gen_flat(rnd, depth + 1) for _ in range(rnd.randint(0, 3))]
    return d


def gen_doc(rnd, nmaps):
    d = {}
    r = rnd.random()
    latest = nmaps + 1
    if r < 0.30:
        d["version"] = 1                                  # the oldest: every mapping applies
    elif r < 0.80:
        d["version"] = rnd.randint(1, latest)
    elif r < 0.88:
        d["version"] = latest + rnd.randint(1, 2)       # beyond the latest
    elif r < 0.92:
        d["version"] = rnd.choice([0, -1, True])         # outside the documented range
    # else: absent
    body = gen_flat(rnd)
    body.pop("version", None)
    if rnd.random() < 0.5:
        items = list(body.items())
        pos = rnd.randint(0, len(items))
        items[pos:pos] = list(d.items())
        return dict(items)
    d.update(body)
    return d


def gen_mval(rnd, depth, allow_version):
    r = rnd.random()
    if r < 0.22:
        return ["const", rnd.choice([gen_scalar(rnd), [1, 2], {"z": 1}])]
    if r < 0.44:
        return ["key", rnd.choice(PATHS)]
    if r < 0.60:
        return ["deleted"]
    if r < 0.80:
        nargs = rnd.choice([0, 0, 1, 2, 3])
        fid = rnd.choice([0, 1, 2, 3, 3, 2, 1, 0, 4]) if rnd.random() < 0.3 else rnd.choice([0, 1, 2, 3])
        return ["func", fid, rnd.sample(KEYS, nargs)]
    if r < 0.85:
        return ["ignored"]
    return ["const", gen_scalar(rnd)]


def gen_mapping(rnd, depth=0, touch_version=False):
    m = []
    keys = rnd.sample(KEYS, rnd.randint(0, 4))
    for k in keys:
        if depth < 2 and rnd.random() < 0.25:
            m.append([k + "._mapper", ["sub", gen_mapping(rnd, depth + 1)]])
        else:
            m.append([k, gen_mval(rnd, depth, False)])
    if touch_version:
        m.insert(rnd.randint(0, len(m)), ["version", rnd.choice([["const", 1], ["deleted"], ["key", "a"],
                                                                  ["func", 2, []]])])
    return m


def gen_case(rnd):
    n = rnd.choice([0, 1, 1, 2, 2, 3, 3, 4, 5])
    touch = rnd.random() < 0.06
    maps = [gen_mapping(rnd, 0, touch and rnd.random() < 0.5) for _ in range(n)]
    doc = gen_doc(rnd, n)
    if n and rnd.random() < 0.3:
        # traced history: every top-level mapping carries a tracer FunctionCall (identity on its own key)
        for i, m in enumerate(maps):
            m.insert(rnd.randint(0, len(m)), [TRACE_KEY, ["func", 100 + i, []]])
    fit_doc(rnd, doc, maps)
    # nested-mapper targets are well formed: dict / list of dicts / None / absent
    for m in maps:
        for k, v in m:
            if k.endswith("._mapper"):
                f = k[: -len("._mapper")]
                if f in doc and not _wf_nested(doc[f]):
                    doc[f] = gen_flat(rnd, 1) if rnd.random() < 0.5 else [gen_flat(rnd, 1) for _ in range(2)]
    return doc, maps


def _put_path(rnd, doc, path):
    """Make deep_get(doc, path) find something: nested dicts along the dotted path (a list of sub-documents
    at the first level now and then)."""
    parts = path.split(".")
    if len(parts) == 1:
        doc.setdefault(parts[0], gen_scalar(rnd))
        return
    cur = doc.get(parts[0])
    if isinstance(cur, list) and cur and all(isinstance(x, dict) for x in cur):
        targets = cur
    elif isinstance(cur, dict):
        targets = [cur]
    else:
        if rnd.random() < 0.2:
            targets = [{}, {}]
            doc[parts[0]] = targets
        else:
            targets = [{}]
            doc[parts[0]] = targets[0]
    for t in targets:
        for q in parts[1:-1]:
            nxt = t.get(q)
            if not isinstance(nxt, dict):
                nxt = {}
                t[q] = nxt
            t = nxt
        t.setdefault(parts[-1], gen_scalar(rnd))


def fit_doc(rnd, doc, maps):
    """Make the document plausible AT ITS START VERSION: what the mappings that will be applied read, move,
    delete or restructure is (mostly) there.  Keys that an earlier pending mapping creates are left alone."""
    v = doc.get("version")
    start = v - 1 if type(v) is int and v >= 1 else 0
    created = set()
    for m in maps[start:]:
        for k, val in m:
            t = val[0]
            if k.endswith("._mapper"):
                f = k[: -len("._mapper")]
                if f in created:
                    continue
                if f in doc and not _wf_nested(doc[f]):
                    doc[f] = gen_flat(rnd, 1) if rnd.random() < 0.5 else [gen_flat(rnd, 1) for _ in range(2)]
                elif f not in doc and rnd.random() < 0.7:
                    doc[f] = gen_flat(rnd, 1) if rnd.random() < 0.6 else [gen_flat(rnd, 1) for _ in range(2)]
                # what the nested mapping reads is there as well
                subs = doc.get(f)
                for sub in (subs if isinstance(subs, list) else [subs]):
                    if isinstance(sub, dict) and t == "sub":
                        fit_doc(rnd, sub, [val[1]])
                continue
            if k == "version":
                continue
            if t == "deleted" and k not in created and rnd.random() < 0.75:
                doc.setdefault(k, gen_scalar(rnd))
            elif t == "key" and val[1].split(".")[0] not in created and rnd.random() < 0.75:
                _put_path(rnd, doc, val[1])
            elif t == "func" and rnd.random() < 0.6:
                for a in (val[2] or [k]):
                    if a not in created and a != TRACE_KEY:
                        doc.setdefault(a, gen_scalar(rnd))
        for k, val in m:
            if not k.endswith("._mapper") and val[0] in ("const", "key", "func"):
                created.add(k)


def _wf_nested(v):
    return v is None or isinstance(v, dict) or (isinstance(v, list) and all(isinstance(x, dict) for x in v))


def wf_all_nested(doc, maps):
    """Generator-side over-approximation of the model's domain: every value a nested mapper
    can reach is a dict, a list of dicts or None (the theorems hold regardless; the
    correspondence is only claimed on this domain)."""
    return True


# ------------------------------------------------------------------ realisation

def realize_mapping(m, funcs):
    from typedpy import Constant, Deleted, FunctionCall
    out = {}
    for k, v in m:
        t = v[0]
        if t == "const":
            out[k] = Constant(copy.deepcopy(v[1]))
        elif t == "sub":
            out[k] = realize_mapping(v[1], funcs)
        elif t == "func":
            out[k] = FunctionCall(func=funcs[v[1]], args=list(v[2])) if v[2] else FunctionCall(func=funcs[v[1]])
        elif t == "key":
            out[k] = v[1]
        elif t == "deleted":
            out[k] = Deleted
        else:
            out[k] = 12345
    return out


def describe_mapping(m):
    """Structural snapshot of a realised mapping object (to detect modification)."""
    from typedpy import Constant, Deleted, FunctionCall
    out = []
    for k, v in m.items():
        if isinstance(v, Constant):
            out.append((k, "const", copy.deepcopy(v())))
        elif isinstance(v, dict):
            out.append((k, "sub", describe_mapping(v)))
        elif isinstance(v, FunctionCall):
            out.append((k, "func", id(v.func), list(v.args) if v.args is not None else None))
        elif v is Deleted:
            out.append((k, "deleted"))
        else:
            out.append((k, "val", copy.deepcopy(v)))
    return out


# ------------------------------------------------------------------ emission

def emit_mval(v):
    t = v[0]
    if t == "const":
        return "(MConst %s)" % E.pval(E.reify(v[1]))
    if t == "sub":
        return "(MSub %s)" % emit_mapping(v[1])
    if t == "func":
        return "(MFunc %s %s)" % (E.nlit(v[1]), E.lst([E.pstr(a) for a in v[2]]))
    if t == "key":
        return "(MKey %s)" % E.pstr(v[1])
    if t == "deleted":
        return "MDeleted"
    return "MIgnored"


def emit_mapping(m):
    return E.lst(["(%s, %s)" % (E.pstr(k), emit_mval(v)) for k, v in m])


HEADER = """From Coq Require Import ZArith NArith String List. Import ListNotations.
From TP Require Import Check.C17chk Ser.VersionedProofs.
Local Open Scope string_scope.
Definition hyps (c : case) : bool :=
  let '(d, maps, obs) := c in forallb keeps_version maps.
"""


def run_impl(doc, maps_ast):
    from typedpy.serialization.versioned_mapping import convert_dict
    funcs = FUNCS()
    maps = [realize_mapping(m, funcs) for m in maps_ast]
    d = copy.deepcopy(doc)
    try:
        return ("ok", convert_dict(d, maps)), d, maps
    except Exception as e:  # noqa
        return ("raise", E.exn_name(e)), d, maps


def keeps_version(maps_ast):
    for m in maps_ast:
        for k, _ in m:
            if k == "version" or k == "version._mapper":
                return False
    return True


def spec_check(doc, maps_ast, rep, where):
    """Evaluate the statement's clauses on the implementation.  Returns list of (key, what)."""
    from typedpy.serialization.versioned_mapping import convert_dict
    fails = []
    funcs = FUNCS()
    maps = [realize_mapping(m, funcs) for m in maps_ast]
    snap_maps = [describe_mapping(m) for m in maps]
    d = copy.deepcopy(doc)
    n = len(maps)
    try:
        once = convert_dict(d, maps)
    except Exception as e:  # noqa
        once = e
    # inputs intact (whatever happened)
    if d != doc or repr(d) != repr(doc):
        fails.append(("input-doc-modified", f"convert_dict modified its input document: {doc!r} -> {d!r}"))
    if [describe_mapping(m) for m in maps] != snap_maps:
        fails.append(("mapping-modified", "convert_dict modified a mapping object"))
    v = doc.get("version")
    in_range = type(v) is int and 1 <= v <= n + 1
    traced = [i for i, m in enumerate(maps_ast) if any(k == TRACE_KEY and val[0] == "func" and val[1] == 100 + i
                                                       for k, val in m)]
    if traced and type(v) is int and v >= 1 and keeps_version(maps_ast):
        # "applies exactly the mappings from d's version onward, in order": the user functions of the
        # mappings run once each, those of mapping v-1, v, ... in this order, none of an earlier mapping
        want = [i for i in traced if i >= v - 1]
        got = list(funcs.log)
        if isinstance(once, Exception):
            want = want[:len(got)] if got == want[:len(got)] else want      # a later step raised: a prefix
        if got != want:
            fails.append(("applied-mappings", f"a version-{v} document under {n} mappings: the functions of mappings "
                                              f"{got} ran (0-based, in this order); exactly {want} must"))
    if isinstance(once, Exception):
        return fails
    if not (keeps_version(maps_ast) and type(v) is int and v >= 1):
        return fails
    # result must not alias the input
    if once is d:
        fails.append(("returns-input-object", "convert_dict returned the caller's dict object itself"))
    if in_range and once.get("version") != n + 1:
        fails.append(("version", f"result version {once.get('version')!r} != len(mappings)+1 = {n + 1}"))
    if v >= n + 1 and once != doc:
        fails.append(("latest-not-identity", f"document at latest version changed: {doc!r} -> {once!r}"))
    # composition through every prefix
    for k in range(0, n + 1):
        try:
            d1 = convert_dict(copy.deepcopy(doc), maps[:k])
            two = convert_dict(d1, maps)
        except Exception as e:  # noqa
            fails.append(("compose-raises", f"two-stage conversion through prefix {k} raised {type(e).__name__}: {e}"))
            continue
        if two != once or repr(two) != repr(once):
            fails.append(("compose", f"two-stage conversion through prefix {k} differs: {two!r} vs {once!r}"))
            break
    if in_range:
        try:
            again = convert_dict(copy.deepcopy(once), maps)
            if again != once:
                fails.append(("latest-not-identity", f"converted document is not a fixpoint: {once!r} -> {again!r}"))
        except Exception as e:  # noqa
            fails.append(("latest-raises", f"re-converting the converted document raised {e!r}"))
    return fails


def versioned_class_check(doc, maps_ast):
    """Deserializing from any older version equals deserializing the converted document;
    a new instance carries the latest version."""
    from typedpy import Versioned, Anything, Deserializer
    from typedpy.serialization.versioned_mapping import convert_dict
    fails = []
    funcs = FUNCS()
    maps = [realize_mapping(m, funcs) for m in maps_ast]
    n = len(maps)
    v = doc.get("version")
    if not (keeps_version(maps_ast) and type(v) is int and 1 <= v <= n + 1):
        return fails, False
    try:
        latest = convert_dict(copy.deepcopy(doc), maps)
    except Exception:  # noqa
        return fails, False
    names = [k for k in latest if k != "version" and k.isidentifier() and not k.startswith("_")]
    if set(latest) - set(names) - {"version"}:
        return fails, False
    ns = {"Versioned": Versioned, "Anything": Anything, "maps": maps}
    src = "class V(Versioned):\n    _versions_mapping = maps\n    _required = []\n"
    for k in names:
        src += f"    {k} = Anything\n"
    exec(src, ns)
    V = ns["V"]
    try:
        a = Deserializer(V).deserialize(copy.deepcopy(doc))
    except Exception as e:  # noqa
        a = ("raise", type(e).__name__)
    try:
        b = Deserializer(V).deserialize(copy.deepcopy(latest))
    except Exception as e:  # noqa
        b = ("raise", type(e).__name__)
    if isinstance(a, tuple) or isinstance(b, tuple):
        if a != b:
            fails.append(("deser-version", f"deserializing version {v} gives {a!r} but the converted document gives {b!r}"))
    else:
        if a != b:
            fails.append(("deser-version", f"deserializing version {v} differs from deserializing the converted document: {a} vs {b}"))
        if a.version != n + 1:
            fails.append(("deser-version", f"deserialized instance has version {a.version}, latest is {n + 1}"))
    # new instance
    try:
        x = V(**{k: latest[k] for k in names})
        if x.version != n + 1:
            fails.append(("new-instance-version", f"new instance has version {x.version}, latest is {n + 1}"))
        y = V(version=1, **{k: latest[k] for k in names})
        if y.version != n + 1:
            fails.append(("new-instance-version", f"new instance built with version=1 has version {y.version}"))
    except Exception as e:  # noqa
        fails.append(("new-instance-raises", f"constructing the latest-version instance raised {type(e).__name__}: {e}"))
    return fails, True


def python_src(doc, maps_ast, spec=None):
    out = ("from typedpy import Constant, Deleted, FunctionCall\n"
           "from typedpy.serialization.versioned_mapping import convert_dict\n"
           f"# mappings (model AST): {maps_ast!r}\n# document: {doc!r}\n")
    if spec is not None:
        out += f"# Versioned class (see harness/c17deser.py build_classes): {spec!r}\n"
    return out


def replay(obj):
    doc, maps = obj["doc"], obj["maps"]
    fails = spec_check(doc, maps, None, "replay")
    f2, _ = versioned_class_check(doc, maps)
    f3 = []
    if obj.get("spec") is not None:
        combos = [tuple(obj["combo"])] if obj.get("combo") else None
        f3, _ = D.check(doc, maps, obj["spec"], combos=combos)
        f3 = [(k, w) for k, w, _ in f3]
        try:
            print("class    :\n" + D.build_classes(obj["spec"], [])["src"])
        except Exception:  # noqa
            pass
    out, _, _ = run_impl(doc, maps)
    print("document :", doc)
    print("mappings :", maps)
    print("observed :", out)
    for k, w in fails + f2 + f3:
        print("FAILS    :", k, "-", w)
    if not fails + f2 + f3:
        print("no clause of C17 fails on this input now")
    return 1 if fails + f2 + f3 else 0


# ------------------------------------------------------------------ deterministic lattice

LATTICE_DOC = {"a": 1, "old": {"name": "joe"}, "sub": {"x": 1}, "items": [{"x": 1}, {"x": 2}], "k": "s"}
LATTICE_STEPS = [
    ("const", [["c", ["const", 7]]]),
    ("const-over", [["sub", ["const", {"z": 1}]]]),
    ("move-deep+deleted", [["name", ["key", "old.name"]], ["old", ["deleted"]]]),
    ("rename", [["b", ["key", "a"]], ["a", ["deleted"]]]),
    ("deleted", [["k", ["deleted"]]]),
    ("func", [["a", ["func", 2, []]]]),
    ("func-args", [["n", ["func", 3, ["a", "k"]]]]),
    ("nested", [["sub._mapper", ["sub", [["y", ["key", "x"]], ["x", ["deleted"]]]]]]),
    ("nested-list", [["items._mapper", ["sub", [["x", ["func", 2, []]]]]]]),
    ("empty", []),
]


def lattice_cases(tier):
    """Every single step kind and every ORDERED PAIR of step kinds (triples in the thorough tier) over one
    fixed document, at every start version (quick: pairs only from version 1); the document of start
    version j is the version-1 document taken through the first j-1 mappings."""
    from typedpy.serialization.versioned_mapping import convert_dict
    hist = [[x] for x in LATTICE_STEPS] + [[x, y] for x in LATTICE_STEPS for y in LATTICE_STEPS]
    if tier != "quick":
        hist += [[x, y, z] for x in LATTICE_STEPS[2:5] for y in LATTICE_STEPS for z in LATTICE_STEPS[:6]]
    out = []
    for h in hist:
        maps = [copy.deepcopy(m) for _, m in h]
        n = len(maps)
        versions = range(1, n + 2) if (tier != "quick" or n == 1) else [1]
        for v in versions:
            doc = dict({"version": 1}, **copy.deepcopy(LATTICE_DOC))
            if v > 1:
                try:
                    doc = convert_dict(doc, [realize_mapping(m, FUNCS()) for m in maps[:v - 1]])
                except Exception:  # noqa
                    doc = dict(doc, version=v)
                if doc.get("version") != v:
                    doc = dict(doc, version=v)
            out.append((doc, maps, "+".join(k for k, _ in h)))
    return out


# ------------------------------------------------------------------ emission of the deser-state stream



SCALAR_KINDS = ("Integer", "String", "Float", "Boolean")


def trusted_eligible(spec):
    """Every declared field is a scalar typedpy field (the class's own `version` is a PositiveInt): the class is
    one that _structure_simplicity_level accepts for direct_trusted_mapping."""
    return all(kind in SCALAR_KINDS for _, kind in spec["fields"])


def emit_dcase(ep, spec, ku, trusted, ignore_invalid, dname, mname, oname):
    cls = "{| vc_fields := %s; vc_required := %s; vc_additional := %s; vc_trusted_eligible := %s |}" % (
        E.lst([E.pstr(k) for k, _ in spec["fields"]]), E.lst([E.pstr(k) for k in spec["required"]]),
        E.opt(spec["additional"], E.blit), E.blit(trusted_eligible(spec)))
    opts = ("{| o_keep_undefined := %s; o_trusted := %s; o_additional_default := true; "
            "o_ignore_invalid_additional := %s |}" % (E.opt(ku, E.blit), E.blit(trusted), E.blit(ignore_invalid)))
    return "(%s, %s, %s, %s, %s, %s)" % (
        "EDeserializer" if ep == "Deserializer" else "EDeserializeStructure", cls, opts, dname, mname, oname)


def observe_state(classes, ep, ku, trusted, ignore_invalid, doc):
    """Public state of the instance built from `doc` (declared fields and extra attributes)."""
    from typedpy.structures import TypedPyDefaults
    saved = TypedPyDefaults.ignore_invalid_additional_properties_in_deserialization
    TypedPyDefaults.ignore_invalid_additional_properties_in_deserialization = ignore_invalid
    try:
        r, _ = D.run_one(classes, (ep, ku, trusted, False), copy.deepcopy(doc))
    finally:
        TypedPyDefaults.ignore_invalid_additional_properties_in_deserialization = saved
    if r[0] == "raise":
        return r
    x = r[1]
    return ("ok", ("struct", "V", [(k, E.reify(v)) for k, v in x.__dict__.items() if not k.startswith("_")]))


def coq_shards(cases, observed, dcases, per=220):
    """One Coq file per `per` cases: the document and history of a case are defined once and shared by its
    convert_dict case and its deser-state cases; identical observed states are defined once.
    -> (shard texts, [per-shard list of dcase meta indices])"""
    shards, dindex = [], []
    for s0 in range(0, len(cases), per):
        defs, citems, ditems, didx = [], [], [], []
        for ci in range(s0, min(s0 + per, len(cases))):
            doc, maps, _ = cases[ci]
            out = observed[ci]
            defs.append("Definition d%d : dict := %s." % (ci, E.dictlit(E.reify(doc))))
            defs.append("Definition m%d : list mapping := %s." % (ci, E.lst([emit_mapping(m) for m in maps])))
            o = ("ok", E.reify(out[1])) if out[0] == "ok" else out
            citems.append("(d%d, m%d, %s)" % (ci, ci, E.outcome(o)))
            seen = {}
            for di in dcases.get(ci, []):
                _, spec_any, ep, ku, tr, ign, ob = DMETA[di]
                txt = E.outcome(ob)
                if txt not in seen:
                    seen[txt] = "o%d_%d" % (ci, len(seen))
                    defs.append("Definition %s : res pyval := %s." % (seen[txt], txt))
                ditems.append(emit_dcase(ep, spec_any, ku, tr, ign, "d%d" % ci, "m%d" % ci, seen[txt]))
                didx.append(di)
        body = "\n".join(defs) + "\n"
        body += "Definition cases : list case := %s.\n" % E.lst(["\n " + i for i in citems])
        body += "Definition dcases : list dcase := %s.\n" % E.lst(["\n " + i for i in ditems])
        body += "Eval vm_compute in (indices_where mismatch cases 0).\n"
        body += "Eval vm_compute in (length (filter hyps cases)).\n"
        body += "Eval vm_compute in (length (filter unmodelled cases)).\n"
        body += "Eval vm_compute in (indices_where dmismatch dcases 0).\n"
        body += "Eval vm_compute in (length (filter dunmodelled dcases)).\n"
        shards.append(body)
        dindex.append(didx)
    return shards, dindex


DMETA = []


_JOB_CASES = None


def _deser_job(job):
    import collections
    ci, stream, spec, is_lat = job
    doc, maps, _ = _JOB_CASES[ci]
    st = collections.Counter()
    fails, ran = D.check(doc, maps, spec, combos=D.LATTICE_COMBOS if is_lat else D.ALL_COMBOS,
                         stats=lambda k: st.update([k]))
    return fails, ran, dict(st)


def run_deser_jobs(cases, jobs):
    global _JOB_CASES
    _JOB_CASES = cases
    nproc = max(1, min(8, core.NPROC // 2))
    if nproc == 1 or len(jobs) < 16:
        return [_deser_job(j) for j in jobs]
    import multiprocessing
    try:
        with multiprocessing.get_context("fork").Pool(nproc) as pool:
            return pool.map(_deser_job, jobs, chunksize=8)
    except Exception:  # noqa  -- no worker processes available: same jobs, in this process
        return [_deser_job(j) for j in jobs]


def run(rep, tier):
    rnd = random.Random(core.seed() * 1000003 + 17)
    ncases = 500 if tier == "quick" else 4000
    proofs_ok, model_ok = core.standard_proof_obligations(
        rep, "C17", ["theories/Check/C17chk.vo", "theories/Ser/VersionedProofs.vo"])
    rep.assumptions += [
        "FunctionCall functions are pure (Section variable fn in the theorems; the harness uses a fixed family of 5 "
        "plus identity tracers that log on the side)",
        "theorems assume no top-level mapping entry names the key 'version' (keeps_version) and 1 <= version",
        "correspondence domain: values reached by nested '._mapper' entries are dicts, lists of dicts or None",
        "deserialize_structure_internal is modelled for classes whose declared fields are all Anything, without "
        "mappers/constants, through Deserializer.deserialize and deserialize_structure; typed fields, nested/Array/Map "
        "entry points, direct_trusted_mapping and camel_case_convert are decided on the implementation only",
    ]
    # generated facts of this run (also compiled into Gen/VersionedShape.v and checked by gen_*_ok lemmas)
    try:
        from harness.genmods import versioned_shape
        facts = versioned_shape.facts()
        for k in ("cd_note", "init_note", "pre_note"):
            if facts[k]:
                rep.stat("generated-shape", facts[k][:120])
        for r, sr, _ in facts["sites"]:
            rep.stat("generated-shape", f"site:{r}:{sr}")
    except Exception as e:  # noqa
        rep.stat("generated-shape", "plug-in failed: %r" % (e,))
    cases = []
    corpus = core_corpus("C17")
    for c in corpus:
        cases.append((c["doc"], c["maps"], c.get("spec")))
    lat = lattice_cases(tier)
    for doc, maps, _ in lat:
        cases.append((doc, maps, "lattice"))
    nfixed = len(cases)
    while len(cases) < nfixed + ncases:
        doc, maps = gen_case(rnd)
        cases.append((doc, maps, None))
    # ---- run the implementation, evaluate the spec on it
    observed = []
    del DMETA[:]
    dcases = {}
    jobs = []
    for ci, (doc, maps, tagspec) in enumerate(cases):
        out, _, _ = run_impl(doc, maps)
        observed.append(out)
        kind = "raise" if out[0] == "raise" else "ok"
        rep.stat("convert_dict", "outcome:" + (out[1] if kind == "raise" else "ok"))
        rep.stat("convert_dict", "history_len:%d" % len(maps))
        shape = (len(maps), doc.get("version") if isinstance(doc.get("version"), int) else "x",
                 tuple(sorted({v[0] for m in maps for _, v in m})), kind)
        rep.count("convert_dict", 1, shape if maps else None)
        if any(k == TRACE_KEY for m in maps for k, _ in m):
            rep.stat("convert_dict", "traced-history")
        for key, what in spec_check(doc, maps, rep, "gen"):
            rep.finding("C17/" + key, what, {"doc": doc, "maps": maps, "python": python_src(doc, maps)})
        f2, ran = versioned_class_check(doc, maps)
        if ran:
            rep.count("versioned-class", 1)
        for key, what in f2:
            rep.finding("C17/" + key, what, {"doc": doc, "maps": maps, "python": python_src(doc, maps)})
        # ---- deserialization of a Versioned class: subset-of-keys classes x entry points x options
        if out[0] != "ok" or not ran:
            continue
        latest = out[1]
        if tagspec == "lattice":
            specs = D.lattice_specs(doc, latest)
            stream = "versioned-deser-lattice"
        elif isinstance(tagspec, dict):
            specs, stream = [tagspec], "versioned-deser"
        else:
            specs, stream = [D.gen_spec(rnd, doc, latest)], "versioned-deser"
        for spec in specs:
            jobs.append((ci, stream, spec, tagspec == "lattice"))
        # ---- deser-state correspondence cases (model of deserialize_structure_internal: Anything fields, or
        #      all-scalar typed fields = eligible for the trusted branch)
        if stream == "versioned-deser" and model_ok:
            sp = specs[0]
            spec_any = sp if (sp["fields"] and trusted_eligible(sp)) else \
                dict(sp, fields=[[k, "any"] for k, _ in sp["fields"]])
            spec_any = {k: v for k, v in spec_any.items() if k != "defaults"}
            try:
                classes = D.build_classes(spec_any, [realize_mapping(m, FUNCS()) for m in maps])
            except Exception:  # noqa
                classes = None
            if classes is not None:
                ign = rnd.random() >= 0.2
                elig = trusted_eligible(spec_any)
                trs = (False, True) if (elig or rnd.random() < 0.25) else (False,)
                for ep in ("Deserializer", "deserialize_structure"):
                    for ku in D.KEEP:
                        for tr in trs:
                            o = observe_state(classes, ep, ku, tr, ign, doc)
                            rep.stat("deser-state", "outcome:" + (o[0] if o[0] == "ok" else "raise:" + o[1]))
                            if tr and elig:
                                rep.stat("deser-state", "trusted-branch")
                            dcases.setdefault(ci, []).append(len(DMETA))
                            DMETA.append((ci, spec_any, ep, ku, tr, ign, o))
                            rep.count("deser-state", 1, (ep, ku, tr and elig, ign, spec_any["additional"], o[0],
                                                         len(spec_any["fields"]), len(maps)))
    # ---- the deserialization clauses (independent per job: run in worker processes, reported in order)
    for (ci, stream, spec, is_lat), (fails, ran3, stats) in zip(jobs, run_deser_jobs(cases, jobs)):
        doc, maps, _ = cases[ci]
        latest = observed[ci][1]
        combos = D.LATTICE_COMBOS if is_lat else D.ALL_COMBOS
        for k, nst in stats.items():
            rep.stat(stream, k, nst)
        if not ran3:
            continue
        fnames = {k for k, _ in spec["fields"]}
        undefined_latest = [k for k in latest if k != "version" and k not in fnames]
        removed = [k for k in doc if k != "version" and k not in latest]
        older = doc.get("version", 0) <= len(maps)
        rep.stat(stream, "doc:" + ("older-version" if older else "latest-version"))
        if older and removed:
            rep.stat(stream, "history-removes-keys")
        if older and removed and any(k not in fnames for k in removed):
            rep.stat(stream, "history-removes-non-field-keys")
        if undefined_latest:
            rep.stat(stream, "latest-has-non-field-keys")
        rep.stat(stream, "additional:%r" % (spec["additional"],))
        rep.count(stream, len(combos),
                  (len(maps), doc.get("version"), len(spec["fields"]), bool(undefined_latest), bool(removed),
                   spec["additional"]) if older else None)
        for key, what, combo in fails:
            rep.finding("C17/" + key, what, {"doc": doc, "maps": maps, "spec": spec,
                                             "combo": list(combo) if combo else None,
                                             "python": python_src(doc, maps, spec)})
    first = nfixed if nfixed < len(cases) else 0
    rep.sample({"document": cases[first][0], "mappings": cases[first][1], "observed": repr(observed[first])})
    rep.sample({"document": cases[-1][0], "mappings": cases[-1][1], "observed": repr(observed[-1])})
    # ---- correspondence in Coq
    if model_ok:
        per = 220
        shards, dindex = coq_shards(cases, observed, dcases, per)
        res = core.eval_cases(shards, "c17", HEADER)
        mism, dm, nhyp, nunm, dun, bad = [], [], 0, 0, 0, None
        for si, (rc, out, err) in enumerate(res):
            vals = core.parse_eval(out)
            if rc != 0 or len(vals) != 5:
                bad = (si, (out + err)[-1500:])
                continue
            mism += [si * per + i for i in core.parse_nat_list(vals[0])]
            nhyp += core.parse_nat_list(vals[1])[0]
            nunm += core.parse_nat_list(vals[2])[0]
            dm += [dindex[si][i] for i in core.parse_nat_list(vals[3])]
            dun += core.parse_nat_list(vals[4])[0]
        rep.obligation("correspondence:convert_dict", not mism and bad is None,
                       f"{len(cases)} cases, {len(mism)} mismatches")
        rep.obligation("correspondence:deser-state", not dm and bad is None,
                       f"{len(DMETA)} cases, {len(dm)} mismatches")
        rep.cov["streams"]["convert_dict"]["theorem_hypotheses_hold"] = nhyp
        rep.cov["streams"]["convert_dict"]["outside_model_domain_skipped"] = nunm
        if DMETA:
            rep.cov["streams"]["deser-state"]["outside_model_domain_skipped"] = dun
        if bad is not None:
            rep.broken("correspondence/coq-eval", f"case shard {bad[0]} failed to evaluate: {bad[1]}")
        if nunm * 10 > len(cases):
            rep.broken("correspondence:convert_dict/domain",
                       f"{nunm} of {len(cases)} cases fall outside the model's domain: inconclusive")
        if mism and not rep.violations:
            i = mism[0]
            rep.broken("correspondence:convert_dict",
                       f"model (Ser/Versioned.v) and typedpy.convert_dict differ on {len(mism)} generated cases; "
                       "no clause of C17 failed on any explored input",
                       {"doc": cases[i][0], "maps": cases[i][1], "observed": repr(observed[i]),
                        "python": python_src(cases[i][0], cases[i][1])})
        elif mism:
            rep.obligation("correspondence:convert_dict:explained-by-violation", True,
                           "mismatching cases accompany a concrete violation reported above")
        if dm and not rep.violations:
            ci, spec_any, ep, ku, tr, ign, o = DMETA[dm[0]]
            rep.broken("correspondence:deser-state",
                       f"model (Ser/VersionedDeser.v) and typedpy's deserialization of a Versioned class differ on "
                       f"{len(dm)} generated cases; no clause of C17 failed on any explored input",
                       {"doc": cases[ci][0], "maps": cases[ci][1], "spec": spec_any,
                        "entry_point": ep, "keep_undefined": ku, "direct_trusted_mapping": tr,
                        "ignore_invalid_additional": ign,
                        "observed": repr(o), "python": python_src(cases[ci][0], cases[ci][1], spec_any)})
        elif dm:
            rep.obligation("correspondence:deser-state:explained-by-violation", True,
                           "mismatching cases accompany a concrete violation reported above")
    if not proofs_ok:
        broken_build(rep)
    return rep.finish(
        rule="cases = corpus + deterministic lattice (every single / ordered pair of mapping-entry kinds over one "
             "document, start versions) + (document, version history) drawn from a seeded grammar over Constant/"
             "Deleted/key moves/nested ._mapper (incl. lists)/FunctionCall (30% with per-mapping tracers), all start "
             "versions; for each, a Versioned class over a random subset of the latest keys (typed or Anything, "
             "_additional_properties unset/True/False) deserialized through 5 entry points x keep_undefined x "
             "direct_trusted_mapping x camel_case_convert; non-trivial = history non-empty (deser: older-version "
             "document); distinct = distinct (history length, start version, constructor set / class shape, outcome)")


def core_corpus(pid):
    import glob, json, os
    out = []
    for p in sorted(glob.glob(os.path.join(core.VERIF, "corpus", pid, "*.json"))):
        try:
            out.append(json.load(open(p)))
        except Exception:  # noqa
            pass
    return out


def broken_build(rep):
    """Proofs did not build: report, unless a concrete violation was already found."""
    if any(not v["no_input"] for v in rep.violations):
        return
    failed = getattr(rep, "build_failed", None)
    if failed:
        rep.broken("build:" + failed, getattr(rep, "build_log", "")[-2500:])
