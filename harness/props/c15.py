"""C15 — a class behaves per its own definition, whatever else was defined or used.

Proof obligations: Props/C15.v (memo-table transparency for every history of lookups, independence
of a class' behaviour from every collision-free history, registry-collision witness, counter hidden).
Tie to the code:
  * Gen/Globals.v — the key kind of every process-wide cache/registry of typedpy, recognised on the AST
    (harness/gen.py), re-read by the kernel on every run;
  * correspondence — generated class sets and event histories run on the real typedpy in ONE process
    (harness/c15_worker.py) and the behaviour fingerprint of every class compared with the fingerprint
    of the same class defined ALONE in a fresh interpreter; the model's verdict (Global/History.v,
    evaluated in Coq by vm_compute on the abstracted history) must agree with what was observed.
Violation search: the fingerprint comparison itself is the property's clause evaluated on the
implementation; a difference is a concrete violation, shrunk to a minimal history and replayable."""
import copy
import hashlib
import json
import os
import random
import subprocess
import sys

from harness import core
from harness import coqemit as E
from harness import c15_worker as W

CLASS_NAMES = ["Foo", "Foo", "Bar", "Item", "Foo", "Bar"]
UTYPE_NAMES = ["Point", "Point", "Money", "Point"]
ENUM_NAMES = ["Color", "Color", "Kind"]
FIELD_NAMES = ["a", "b_c", "my_val", "xs", "p", "e", "r", "q", "n_items", "d"]
SIMPLE_FT = ["int", "pint", "str", "sstr", "bool", "float", "arr_int", "set_str", "map_si", "fac", "fac2", "facb",
             "anyof", "opt_int", "sref", "sref2"]
USE_KINDS = ["construct", "ser", "deser", "schema", "trusted"]


# ------------------------------------------------------------------------------ generators

def gen_prog(rnd):
    nu = rnd.choice([2, 2, 3])
    utypes = [{"var": "U%d" % i, "name": rnd.choice(UTYPE_NAMES), "tag": i} for i in range(nu)]
    if rnd.random() < 0.7:
        utypes[1]["name"] = utypes[0]["name"]
    enums = [{"var": "E0", "name": "Color", "members": ["a", "b", "c"]},
             {"var": "E1", "name": rnd.choice(ENUM_NAMES), "members": ["x", "a"]}]
    prog = {"utypes": utypes, "enums": enums, "classes": []}
    ncls = rnd.choice([2, 3, 3, 4, 4, 5])
    for i in range(ncls):
        prog["classes"].append(gen_class(rnd, prog, i))
    return prog


def gen_class(rnd, prog, i):
    var = "S%d" % i
    name = rnd.choice(CLASS_NAMES)
    prev = [c["var"] for c in prog["classes"]]
    r = rnd.random()
    c = {"var": var, "name": name, "fields": [], "opts": {}}
    if prev and r < 0.25:
        c["kind"] = rnd.choice(["partial", "omit", "pick", "extend", "allreq"])
        c["of"] = rnd.choice(prev)
        src_fields = [n for n, _ in W.effective_fields(prog, c["of"])]
        if c["kind"] in ("omit", "pick"):
            c["names"] = sorted(rnd.sample(src_fields, min(len(src_fields), rnd.randint(1, 2))))
        c["direct"] = rnd.random() < 0.3
        if not c["direct"]:
            taken = set(src_fields)
            for fn in rnd.sample([f for f in FIELD_NAMES if f not in taken], rnd.randint(0, 1)):
                c["fields"].append([fn, gen_ftype(rnd, prog, prev), None])
        return c
    c["kind"] = rnd.choice(["struct", "struct", "struct", "immutable", "fast", "fast", "factory"])
    if prev and c["kind"] in ("struct", "fast") and rnd.random() < 0.2:
        base = rnd.choice(prev)
        if class_kind(prog, base) in ("struct", "fast", "factory"):
            c["base"] = base
    taken = set(n for n, _ in W.effective_fields(prog, c["base"])) if c.get("base") else set()
    for fn in rnd.sample([f for f in FIELD_NAMES if f not in taken and f != "lim"], rnd.randint(1, 3)):
        t = gen_ftype(rnd, prog, prev)
        default = None
        if t in ("int", "pint") and rnd.random() < 0.3:
            default = "7"
        c["fields"].append([fn, t, default])
    o = c["opts"]
    if rnd.random() < 0.3:
        o["additional"] = False
    if rnd.random() < 0.15:
        o["ignore_none"] = True
    m = rnd.random()
    if m < 0.2:
        o["mapper"] = "camel"
    elif m < 0.35:
        o["mapper"] = {c["fields"][0][0]: "renamed_" + c["fields"][0][0]}
    if rnd.random() < 0.2 and len(c["fields"]) > 1:
        o["optional"] = [c["fields"][-1][0]]
    if c["kind"] == "factory":
        o["n"] = rnd.choice([3, 5, 50])
    return c


def class_kind(prog, var):
    return W.class_by_var(prog)[var]["kind"]


def gen_ftype(rnd, prog, prev):
    r = rnd.random()
    if r < 0.30:
        u = rnd.choice(prog["utypes"])["var"]
        return rnd.choice(["u:", "arr_u:", "arr_u:", "map_u:"]) + u
    if r < 0.40:
        return "enum:" + rnd.choice(prog["enums"])["var"]
    if r < 0.55 and prev:
        k = rnd.choice(["ref:", "arr_ref:", "ref:", "arr_ref:", "map_ref:", "pos_ref:"])
        if k == "pos_ref:":
            # positional items over (usually two different) earlier classes
            return k + ",".join(rnd.choice(prev) for _ in range(2)) if len(prev) < 2 else k + ",".join(rnd.sample(prev, 2))
        return k + rnd.choice(prev)
    return rnd.choice(SIMPLE_FT)


def gen_history(rnd, prog, maxlen):
    """An interleaving of definitions, uses and default windows (every set is restored)."""
    vars_ = [c["var"] for c in prog["classes"]]
    n = rnd.randint(2, maxlen)
    evs = []
    order = vars_[:]
    rnd.shuffle(order)
    pending_defs = order[:]
    open_defaults = []
    while len(evs) < n:
        r = rnd.random()
        if pending_defs and r < 0.35:
            evs.append(["define", pending_defs.pop(0)])
        elif r < 0.45 and len(evs) < n - 1 and not open_defaults:
            k = rnd.choice(sorted(W.DEFAULT_KEYS))
            evs.append(["setdefault", k, W.DEFAULT_KEYS[k]])
            open_defaults.append(k)
        elif r < 0.55 and open_defaults:
            evs.append(["restore", open_defaults.pop()])
        elif r < 0.63:
            evs.append(["create_serializer", rnd.choice(vars_), rnd.random() < 0.4, rnd.random() < 0.3])
        else:
            k = rnd.choice(USE_KINDS)
            v = rnd.choice(vars_)
            i = rnd.choice([0, 0, 0, 1, 2, 3, 5, 8])
            if k == "construct":
                evs.append([k, v, i])
            elif k == "ser":
                evs.append([k, v, i, rnd.choice(W.SER_MODES)])
            elif k == "deser":
                evs.append([k, v, i, rnd.choice(W.DESER_MODES)])
            elif k == "trusted":
                evs.append([k, v, rnd.choice([0, 0, 1])])
            else:
                evs.append([k, v])
    for k in reversed(open_defaults):
        evs.append(["restore", k])
    return evs


# ------------------------------------------------------------------------------ reference history

def expand_defines(prog, events):
    """Make the implicit definitions explicit (a use of an undefined class defines it and its
    dependencies first, exactly as c15_worker.Run does)."""
    out, defined = [], []

    def need(v):
        for d in W.deps(prog, v) + [v]:
            if d not in defined:
                defined.append(d)
                out.append(["define", d])
    for ev in events:
        if ev[0] in ("setdefault", "restore"):
            out.append(ev)
            continue
        need(ev[1])
        if ev[0] != "define":
            out.append(ev)
    return out


def project(prog, events, target):
    """The history of `target` ALONE: the definitions of the target and of what its definition refers
    to, explicit create_serializer configuration of those classes, and the default windows inside
    which such an event happens.  No use of any class (not even of the target) is kept:
    the reference is  beh (run [Define C] g0) C."""
    closure = set(W.deps(prog, target) + [target])
    evs = expand_defines(prog, events)
    keep = [False] * len(evs)
    for i, ev in enumerate(evs):
        if ev[0] in ("define", "create_serializer") and ev[1] in closure:
            keep[i] = True
    # windows
    for i, ev in enumerate(evs):
        if ev[0] == "setdefault":
            j = next((j for j in range(i + 1, len(evs)) if evs[j][0] == "restore" and evs[j][1] == ev[1]), len(evs))
            if any(keep[i + 1:j]):
                keep[i] = True
                if j < len(evs):
                    keep[j] = True
    out = [ev for ev, k in zip(evs, keep) if k]
    if not any(ev[0] == "define" and ev[1] == target for ev in out):
        for d in W.deps(prog, target) + [target]:
            if not any(ev[0] == "define" and ev[1] == d for ev in out):
                out.append(["define", d])
    return out


# ------------------------------------------------------------------------------ running jobs

def run_jobs(jobs, spawn=False):
    """Runs jobs (each in a pristine forked child of a worker that only imported typedpy)."""
    if not jobs:
        return []
    for i, j in enumerate(jobs):
        j["id"] = i
    env = dict(os.environ)
    if spawn:
        out = []
        for j in jobs:
            p = subprocess.run([core.PY, "-m", "harness.c15_worker", "--one"], input=json.dumps(j), env=env,
                               capture_output=True, text=True, cwd=core.VERIF, timeout=300)
            if p.returncode != 0:
                raise RuntimeError("worker --one failed: " + p.stderr[-1500:])
            out.append(json.loads(p.stdout))
        return out
    d = core.workdir("c15")
    try:
        jp, op = os.path.join(d, "jobs.json"), os.path.join(d, "out.json")
        with open(jp, "w") as f:
            json.dump(jobs, f)
        p = subprocess.run([core.PY, "-m", "harness.c15_worker", jp, op, str(core.NPROC)], env=env,
                           capture_output=True, text=True, cwd=core.VERIF, timeout=1500)
        if p.returncode != 0:
            raise RuntimeError("worker failed: " + (p.stdout + p.stderr)[-2000:])
        res = json.load(open(op))
    finally:
        core.cleanup(d)
    for r in res:
        if "error" in r:
            raise RuntimeError("worker job crashed: " + r["error"])
    return res


def fp_diff(a, b):
    """First differences between two fingerprints: list of (section, index, a, b)."""
    out = []
    for sec in sorted(set(a) | set(b)):
        xa, xb = a.get(sec), b.get(sec)
        if xa == xb:
            continue
        if not isinstance(xa, list) or not isinstance(xb, list) or len(xa) != len(xb):
            out.append((sec, -1, xa, xb))
            continue
        for i, (p, q) in enumerate(zip(xa, xb)):
            if p != q:
                out.append((sec, i, p, q))
    return out


# ------------------------------------------------------------------------------ diagnosis of a difference

def shrink(prog, events, target):
    """Greedy one-event-at-a-time shrinking of a history that makes `target` differ from alone."""
    cur = list(events)

    def differs(evs):
        jobs = [{"prog": prog, "events": evs, "targets": [target]},
                {"prog": prog, "events": project(prog, evs, target), "targets": [target]}]
        r = run_jobs(jobs)
        return bool(fp_diff(r[0]["fp"][target], r[1]["fp"][target]))
    changed = True
    while changed and len(cur) > 1:
        changed = False
        # all single removals of this round in one batch
        cands = []
        for i in range(len(cur)):
            evs = cur[:i] + cur[i + 1:]
            if cur[i][0] == "setdefault":     # a window is removed as a pair
                j = next((j for j in range(i + 1, len(cur)) if cur[j][0] == "restore" and cur[j][1] == cur[i][1]), None)
                if j is not None:
                    evs = cur[:i] + cur[i + 1:j] + cur[j + 1:]
            if not balanced(evs):
                continue
            cands.append(evs)
        jobs = []
        for evs in cands:
            jobs.append({"prog": prog, "events": evs, "targets": [target]})
            jobs.append({"prog": prog, "events": project(prog, evs, target), "targets": [target]})
        res = run_jobs(jobs)
        for k, evs in enumerate(cands):
            if fp_diff(res[2 * k]["fp"][target], res[2 * k + 1]["fp"][target]):
                cur = evs
                changed = True
                break
    return cur


def balanced(evs):
    open_ = []
    for ev in evs:
        if ev[0] == "setdefault":
            if ev[1] in open_:
                return False
            open_.append(ev[1])
        elif ev[0] == "restore":
            if ev[1] not in open_:
                return False
            open_.remove(ev[1])
    return not open_


def rename_utypes_apart(prog):
    p = copy.deepcopy(prog)
    for u in p["utypes"]:
        u["name"] = "%s_%s" % (u["name"], u["var"])
    return p


def wrapped_utypes(prog, var, closure=True):
    vs = (W.deps(prog, var) + [var]) if closure else [var]
    byv = W.class_by_var(prog)
    out = []
    for v in vs:
        for f in byv[v].get("fields", []):
            if f[1].startswith(("u:", "arr_u:", "map_u:")):
                out.append(f[1].split(":", 1)[1])
    return out


KEY_REGISTRY = "C15/registry/bare-class-name"
KEY_SCHEMA = "C15/structure_to_schema/edits-_required-in-place"
# counterfactuals used to ATTRIBUTE a difference (never to hide one): the difference must disappear when
# the suspected cause is taken away, everything else equal
STAGES = [([KEY_REGISTRY], True, []),
          ([KEY_SCHEMA], False, ["keep_required"]),
          ([KEY_REGISTRY, KEY_SCHEMA], True, ["keep_required"])]


def attribute(items):
    """items: list of (prog, events, target).  Returns for each the list of finding keys that explain the
    difference ([] = not explained by any known cause).  Batched: one worker run per stage."""
    keys = [None] * len(items)
    todo = list(range(len(items)))
    for stage_keys, rename, patch in STAGES:
        if not todo:
            break
        jobs = []
        for i in todo:
            prog, events, target = items[i]
            p2 = rename_utypes_apart(prog) if rename else prog
            jobs.append({"prog": p2, "events": events, "targets": [target], "patch": patch})
            jobs.append({"prog": p2, "events": project(p2, events, target), "targets": [target], "patch": patch})
        res = run_jobs(jobs)
        rest = []
        for n, i in enumerate(todo):
            t = items[i][2]
            if fp_diff(res[2 * n]["fp"][t], res[2 * n + 1]["fp"][t]):
                rest.append(i)
            else:
                keys[i] = list(stage_keys)
        todo = rest
    for i in todo:
        keys[i] = []
    return keys


def generic_key(prog, events, target, diffs):
    reference = project(prog, events, target)
    extra = [ev for ev in expand_defines(prog, events) if ev not in reference]
    kinds = sorted({ev[0] for ev in extra})
    secs = sorted({d[0] for d in diffs})
    others = [ev for ev in extra if ev[0] not in ("setdefault", "restore") and ev[1] != target]
    return "C15/unexplained/%s/%s" % ("+".join(secs), "after-other-classes" if others else
                                      "after-own-use" if extra else "no-extra-event")


# ------------------------------------------------------------------------------ model abstraction (for Coq)

def body_hash(prog, var):
    c = copy.deepcopy(W.class_by_var(prog)[var])
    return int(hashlib.sha1(json.dumps(c, sort_keys=True).encode()).hexdigest()[:6], 16)


def emit_utype(prog, uvar):
    u = [x for x in prog["utypes"] if x["var"] == uvar][0]
    return "(%s, %s)" % (E.nlit(u["tag"]), E.pstr(u["name"]))


def emit_cdef(prog, var):
    c = W.class_by_var(prog)[var]
    own = [f[1].split(":", 1)[1] for f in c.get("fields", []) if f[1].startswith(("u:", "arr_u:", "map_u:"))]
    nsref = sum(1 for f in c.get("fields", []) if f[1].startswith("sref"))
    return "{| cid := %s; cname := %s; cbody := %s; cwraps := %s; cnsref := %s; cfast := %s |}" % (
        E.nlit(int(var[1:])), E.pstr(c["name"]), E.nlit(body_hash(prog, var)),
        E.lst([emit_utype(prog, u) for u in own]), E.nlit(nsref), E.blit(c["kind"] == "fast"))


def emit_stmt(prog, var):
    """The class statement: what the definition needs, dependencies first, the class itself last."""
    return E.lst([emit_cdef(prog, v) for v in W.deps(prog, var) + [var]])


def emit_event(prog, ev):
    k = ev[0]
    cid = lambda v: E.nlit(int(v[1:]))
    if k == "define":
        return "(Define %s)" % emit_stmt(prog, ev[1])
    if k == "construct":
        return "(Construct %s %s)" % (cid(ev[1]), E.nlit(ev[2]))
    if k == "ser":
        return "(Ser %s %s %s)" % (cid(ev[1]), E.nlit(ev[2]), E.nlit(W.SER_MODES.index(ev[3])))
    if k == "deser":
        return "(Deser %s %s %s)" % (cid(ev[1]), E.nlit(ev[2]), E.nlit(W.DESER_MODES.index(ev[3])))
    if k == "trusted":
        return "(TrustedDeser %s %s)" % (cid(ev[1]), E.nlit(ev[2]))
    if k == "schema":
        return "(ToSchema %s)" % cid(ev[1])
    if k == "create_serializer":
        return "(CreateSerializer %s %s)" % (cid(ev[1]), E.nlit((1 if ev[2] else 0) + (2 if ev[3] else 0)))
    if k == "setdefault":
        return "(SetDefault %s %s)" % (E.nlit(sorted(W.DEFAULT_KEYS).index(ev[1])), E.blit(bool(ev[2])))
    if k == "probe":
        return "(Probe %s)" % cid(ev[1])
    if k == "restore":
        # restoring = setting the original value; the originals are the negations of the toggled values
        return "(SetDefault %s %s)" % (E.nlit(sorted(W.DEFAULT_KEYS).index(ev[1])), E.blit(not W.DEFAULT_KEYS[ev[1]]))
    raise ValueError(ev)


DEFAULT_ORDER = sorted(W.DEFAULT_KEYS)
HEADER = """From Coq Require Import ZArith NArith String List Bool. Import ListNotations.
From TP Require Import Check.C15chk.
Local Open Scope string_scope.
Definition origs : list (N * bool) := %s.
Definition mismatch := mismatch origs.
Definition predicted_differs := predicted_differs origs.
Definition hyps := hyps origs.
""" % E.lst(["(%s, %s)" % (E.nlit(i), E.blit(not W.DEFAULT_KEYS[k])) for i, k in enumerate(DEFAULT_ORDER)])


# ------------------------------------------------------------------------------ replay

def replay(obj):
    prog, events, target = obj["prog"], obj["events"], obj["target"]
    r = run_jobs([{"prog": prog, "events": events, "targets": [target]},
                  {"prog": prog, "events": project(prog, events, target), "targets": [target]}])
    diffs = fp_diff(r[0]["fp"][target], r[1]["fp"][target])
    print("class under test :", target, "(", W.class_by_var(prog)[target]["name"], ")")
    print("history          :", events)
    print("alone            :", project(prog, events, target))
    for sec, i, a, b in diffs[:8]:
        what = W.probes(prog, target)[i] if i >= 0 and sec in ("construct", "ser", "deser", "trusted") else ""
        print("DIFFERS %s[%d] %s\n   after the history: %s\n   alone            : %s" % (
            sec, i, json.dumps(what)[:300], json.dumps(a)[:400], json.dumps(b)[:400]))
    if not diffs:
        print("the class behaves as when defined alone now")
    return 1 if diffs else 0


def describe(prog, events, target, diffs):
    sec, i, a, b = diffs[0]
    pr = W.probes(prog, target)[i] if i >= 0 and sec in ("construct", "ser", "deser", "trusted") else None
    return {"prog": prog, "events": events, "target": target, "alone": project(prog, events, target),
            "first_difference": {"section": sec, "probe_index": i, "probe": pr,
                                 "after_history": a, "alone": b},
            "n_differences": len(diffs),
            "python": W.program_src(prog, expand_defines(prog, events))}


# ------------------------------------------------------------------------------ main

def explicit_history(events, targets, v):
    """The history `v` is fingerprinted after: the events, then the fingerprinting of the targets before it."""
    return list(events) + [["probe", t] for t in targets[:targets.index(v)]]


def run(rep, tier):
    rnd = random.Random(core.seed() * 1000003 + 15)
    quick = tier == "quick"
    nprogs = 70 if quick else 500
    hist_per_prog = 5 if quick else 8
    maxlen = 6 if quick else 10
    proofs_ok, model_ok = core.standard_proof_obligations(
        rep, "C15", ["theories/Check/C15chk.vo", "theories/Global/HistoryProofs.vo"])
    rep.assumptions += [
        "reference behaviour of a class = the class (with the classes its definition refers to, explicit "
        "create_serializer configuration of those, and the default windows around them) defined alone in a "
        "pristine child forked from an interpreter that only imported typedpy; equivalence of such a child "
        "with a really fresh interpreter is itself checked on a sample every run",
        "behaviour is observed on a finite probe set derived from the class' declaration (construct, 5 "
        "serialization modes, 3 deserialization modes, trusted deserialization, schema, str, resolved implicit "
        "wrappers); exception classes are compared up to TypeError/ValueError; dicts without order; ids and the "
        "StructureReference counter are normalised",
        "sharing one Field instance between user classes is excluded (documented as unsupported)",
        "model: in-place edits of class attributes (structure_to_schema editing _required) and the capture of "
        "defaults at class definition are outside Global/History.v; cases attributed to the former are excluded "
        "from the model correspondence and reported as findings on their own",
    ]
    cases = []          # (prog, events)
    for c in core_corpus("C15"):
        cases.append((c["prog"], c["events"]))
    for _ in range(nprogs):
        prog = gen_prog(rnd)
        for _ in range(hist_per_prog):
            cases.append((prog, gen_history(rnd, prog, maxlen)))
    # --- run every history in one process, fingerprint every class; reference runs are shared
    jobs, refs, refidx, ref_jobs, orders = [], {}, [], [], []
    for prog, events in cases:
        targets = [c["var"] for c in prog["classes"]]
        rnd.shuffle(targets)
        orders.append(targets)
        jobs.append({"prog": prog, "events": events, "targets": targets})
        row = {}
        for v in targets:
            pe = project(prog, explicit_history(events, targets, v), v)
            key = json.dumps([prog, pe, v], sort_keys=True)
            if key not in refs:
                refs[key] = len(ref_jobs)
                ref_jobs.append({"prog": prog, "events": pe, "targets": [v]})
            row[v] = refs[key]
        refidx.append(row)
    res = run_jobs(jobs + ref_jobs)
    hres, rres = res[:len(jobs)], res[len(jobs):]
    # --- forked child == fresh interpreter, on a sample
    sample = rnd.sample(range(len(ref_jobs)), min(len(ref_jobs), 5 if quick else 20))
    spawned = run_jobs([copy.deepcopy(ref_jobs[i]) for i in sample], spawn=True)
    bad = [i for i, s in zip(sample, spawned) if s["fp"] != rres[i]["fp"]]
    rep.obligation("fresh-interpreter:fork==spawn", not bad, "%d sampled reference runs, %d differ" % (len(sample), len(bad)))
    if bad:
        rep.broken("fresh-interpreter:fork==spawn", "a forked pristine child and a new interpreter give different "
                   "fingerprints", {"job": ref_jobs[bad[0]]})
    # --- compare
    pairs = []          # (case index, target var, diffs)
    closure_differs = set()   # the class objects its definition refers to differ (model correspondence only)
    for ci, (prog, events) in enumerate(cases):
        for c in prog["classes"]:
            v = c["var"]
            a = hres[ci]["fp"][v]
            b = rres[refidx[ci][v]]["fp"][v]
            diffs = fp_diff(a, b)
            pairs.append((ci, v, diffs))
            if hres[ci]["aux"][v] != rres[refidx[ci][v]]["aux"][v]:
                closure_differs.add((ci, v))
            shape = (c["kind"], tuple(sorted({t.split(":")[0] for _, t, *_ in c.get("fields", [])})),
                     tuple(sorted({e[0] for e in events})))
            rep.count("history-vs-alone", 1, shape)
            rep.stat("history-vs-alone", "class-kind:" + c["kind"])
            rep.stat("history-vs-alone", "differs" if diffs else "same")
            acc = sum(1 for x in b.get("construct", []) if x and x[0] == "ok")
            rep.stat("history-vs-alone", "alone-accepts:%s" % ("0" if acc == 0 else "1-3" if acc < 4 else "4+"))
        for ev in events:
            rep.stat("events", ev[0])
    for k in (0, len(cases) - 1):
        rep.sample({"classes": [W.class_src(cases[k][0], c["var"]) for c in cases[k][0]["classes"]],
                    "history": cases[k][1]})
    # --- every difference is a violation of the property on a concrete history: attribute each one
    differing = [(ci, v, d) for ci, v, d in pairs if d]
    items = [(cases[ci][0], explicit_history(cases[ci][1], orders[ci], v), v) for ci, v, d in differing]
    keys = attribute(items)
    by_key = {}
    attributed = {}
    for (ci, v, d), it, ks in zip(differing, items, keys):
        attributed[(ci, v)] = ks
        for k in (ks or [generic_key(it[0], it[1], v, d)]):
            by_key.setdefault(k, []).append((it, d, bool(ks)))
            rep.stat("differences", k)
    shrink_budget = 4 if quick else 12
    for k in sorted(by_key):
        lst = sorted(by_key[k], key=lambda x: len(x[0][1]))
        (prog, events, v), d, known_cause = lst[0]
        small, d2 = events, d
        if shrink_budget > 0:
            shrink_budget -= 1
            try:
                small = shrink(prog, events, v)
                r = run_jobs([{"prog": prog, "events": small, "targets": [v]},
                              {"prog": prog, "events": project(prog, small, v), "targets": [v]}])
                d2 = fp_diff(r[0]["fp"][v], r[1]["fp"][v]) or d
                if d2 is d:
                    small = events
            except RuntimeError:
                small, d2 = events, d
        sec, i, a, b = d2[0]
        what = ("class %s (%s) behaves differently after the history %s than when defined alone: %s[%d] is %s, alone %s"
                % (v, W.class_by_var(prog)[v]["name"], json.dumps(small), sec, i, json.dumps(a)[:200], json.dumps(b)[:200]))
        for _ in lst:
            rep.finding(k, what, describe(prog, small, v, d2))
    rep.obligation("spec-on-observed:history-vs-alone", True,
                   "%d (history, class) comparisons, %d differ (each reported as a finding)" % (len(pairs), len(differing)))
    # --- correspondence with the model, inside Coq
    if model_ok:
        per = 120
        items, index = [], []
        for ci, v, d in pairs:
            ks = attributed.get((ci, v))
            if d and KEY_REGISTRY not in ks:
                continue          # a difference of another cause: reported above, outside the model
            prog, events = cases[ci]
            h = explicit_history(events, orders[ci], v)
            items.append("(%s, %s, %s, %s)" % (
                # the class under test is defined by its fingerprinting at the latest
                E.lst([emit_event(prog, ev) for ev in expand_defines(prog, h + [["define", v]])]),
                E.lst([emit_event(prog, ev) for ev in project(prog, h, v)]),
                emit_stmt(prog, v), E.blit(bool(d) or (ci, v) in closure_differs)))
            index.append((ci, v, bool(d) or (ci, v) in closure_differs))
        shards = []
        for s in range(0, len(items), per):
            body = "Definition cases : list case := %s.\n" % E.lst(["\n " + i for i in items[s:s + per]])
            body += "Eval vm_compute in (indices_where mismatch cases 0).\n"
            body += "Eval vm_compute in (length (filter predicted_differs cases)).\n"
            body += "Eval vm_compute in (length (filter hyps cases)).\n"
            body += "Eval vm_compute in (registry_safe, caches_safe, counter_safe).\n"
            shards.append(body)
        resq = core.eval_cases(shards, "c15", HEADER)
        mism, npred, nhyp, bad_shard, facts = [], 0, 0, None, None
        for si, (rc, out, err) in enumerate(resq):
            vals = core.parse_eval(out)
            if rc != 0 or len(vals) != 4:
                bad_shard = (si, (out + err)[-1500:])
                continue
            mism += [si * per + i for i in core.parse_nat_list(vals[0])]
            npred += core.parse_nat_list(vals[1])[0]
            nhyp += core.parse_nat_list(vals[2])[0]
            facts = vals[3]
        st = rep.cov["streams"]["history-vs-alone"]
        st["in_model_correspondence"] = len(items)
        st["model_predicts_difference"] = npred
        st["theorem_hypotheses_hold"] = nhyp
        st["generated_facts(registry_safe,caches_safe,counter_safe)"] = facts
        rep.obligation("correspondence:history-vs-alone", not mism and bad_shard is None,
                       "%d cases, %d mismatches; model predicts a difference in %d; theorem hypotheses hold in %d"
                       % (len(items), len(mism), npred, nhyp))
        if bad_shard is not None:
            rep.broken("correspondence:history-vs-alone/coq-eval", "case shard %d failed to evaluate: %s" % bad_shard)
        if mism:
            ci, v, d = index[mism[0]]
            n_over = sum(1 for i in mism if not index[i][2])
            rep.broken("correspondence:history-vs-alone",
                       "the model (Global/History.v with the generated key kinds) and the implementation disagree on %d "
                       "histories about whether a registry collision changes the class (%d predicted but not observed, "
                       "%d observed but not predicted)" % (len(mism), n_over, len(mism) - n_over),
                       {"prog": cases[ci][0], "events": explicit_history(cases[ci][1], orders[ci], v), "target": v,
                        "python": W.program_src(cases[ci][0], expand_defines(cases[ci][0], cases[ci][1]))})
    if not proofs_ok:
        from harness.props.c17 import broken_build
        broken_build(rep)
    return rep.finish(
        rule="cases = (set of <= 5 class definitions incl. same-named classes, same-named wrapped user types, "
             "derived classes, factory-made classes; interleaving of define/construct/serialize/deserialize/schema/"
             "create_serializer/trusted/set+restore default events), one comparison per (history, class); "
             "non-trivial = all; distinct = distinct (class kind, field type constructors, event kinds)")


def core_corpus(pid):
    import glob
    out = []
    for p in sorted(glob.glob(os.path.join(core.VERIF, "corpus", pid, "*.json"))):
        try:
            out.append(json.load(open(p)))
        except Exception:  # noqa
            pass
    return out
