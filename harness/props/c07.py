"""C07 — key-renaming mappers apply consistently in both directions at every level.

Proof obligations: Props/C07.v (theorems over all mapper lists / hierarchies / nesting depths of the
model Ser/Mappers.v).
Tie to the code: Gen/MapperSites.v (nested-mapper lookup/store sites and enum dispatch, regenerated from
the AST on every run; harness/genmods/mapper_sites.py); generated class hierarchies (depth <= 3, every
assignment of {none, dict, TO_LOWERCASE, TO_CAMELCASE, list chain} per class, nested classes with their
own mappers reached directly and through Array/Set, three field-name shapes) plus the enumerated
sibling-rename and falsy-value lattices of harness/c07lattice.py are realised as real typedpy classes;
the aggregated mapper dicts, the Serializer output and the Deserializer result are compared inside
Coq with the model evaluated by vm_compute on the same inputs.
Violation search: the statement's clauses (key set at every level = image under rename_chain of
the DECLARED mappers, computed in Coq; real round trip ==; wrapper rejection) are evaluated on the
implementation's observed behaviour."""
import copy
import itertools
import random

from harness import core
from harness import coqemit as E

SUFFIX = "._mapper"
SNAKE = ["in_x", "a_b1", "foo_bar_2", "x1_y2", "long_name_3a", "my_val", "b_c_d", "z9_q"]
SINGLE = ["a", "b", "c", "i", "j", "x", "y", "s"]
CAMEL = ["aB", "fooBar", "xY1", "someValue", "inX", "qZ"]
FRESH = ["k1", "new_key", "zed", "other", "renamed_1", "Kx", "w", "outName", "v_2", "B", "IN_X", "fooBar2"]
ASSIGN = ["none", "dict", "lower", "camel", "list"]


# ------------------------------------------------------------------ spec in Python (generation + replay only)

def py_title(w):
    out = []
    prev = False
    for ch in w:
        if ch.isascii() and ch.isalpha():
            out.append(ch.lower() if prev else ch.upper())
            prev = True
        else:
            out.append(ch)
            prev = False
    return "".join(out)


def py_camel(s):
    ws = s.split("_")
    return ws[0] + "".join(py_title(w) for w in ws[1:])


def py_upper(s):
    return "".join(chr(ord(c) - 32) if "a" <= c <= "z" else c for c in s)


def py_step(m, st):
    if st is None:
        return None
    if m == "lower":
        return py_upper(st)
    if m == "camel":
        return py_camel(st)
    for k, v in m[1]:
        if k == st:
            if v[0] == "key":
                return v[1]
            if v[0] == "donot":
                return None
            return st
    return st


def py_chain(ms, n):
    st = n
    for m in ms:
        st = py_step(m, st)
    return st


def py_proj(f, m):
    if m in ("lower", "camel"):
        return [m]
    for k, v in m[1]:
        if k == f + SUFFIX:
            if v[0] == "sub" and v[1]:
                return [["dict", v[1]]]
            return []
    return []


def decl_list(h):
    out = []
    for lv in h["levels"]:
        d = lv["decl"]
        if d is None:
            continue
        out += [d[1]] if d[0] == "one" else list(d[1])
    return out


def all_fields(h):
    return [f for lv in h["levels"] for f in lv["fields"]]


def has_gap(h):
    """some class (here or nested) declares no mapper although an ancestor does: the code collects the
    ancestor's declaration a second time"""
    seen = False
    for lv in h["levels"]:
        if lv["decl"] is not None:
            seen = True
        elif seen:
            return True
    return any(fk is not None and has_gap(fk[1]) for _, fk in all_fields(h))


def renamed_nested_entry(h, L):
    """a nested field f whose current key differs from f when a later dict mapper carries a
    '<f>._mapper' / '<current key>._mapper' entry (serialization looks the entry up under the field
    name, deserialization under the current key)"""
    for f, fk in all_fields(h):
        if fk is None:
            continue
        for j, m in enumerate(L):
            cur = py_chain(L[:j], f)
            if cur is None or isinstance(m, str):
                continue
            nxt = py_step(m, cur)
            keys = {k for k, _ in m[1]}
            names = {f + SUFFIX, cur + SUFFIX} | ({nxt + SUFFIX} if nxt else set())
            if (cur != f or (nxt and nxt != f)) and keys & names:
                return True
        if renamed_nested_entry(fk[1], nested_list(L, f, fk[1])):
            return True
    return False


def sibling_reuse(h, L):
    """how a field's final key relates to its siblings' NAMES: 'nested' = a nested field's key is the
    name of another nested field (the two '<x>._mapper' entries compete), 'any' = some field's key is
    another field's name, 'no' otherwise"""
    fs = all_fields(h)
    names = {n for n, _ in fs}
    nested = {n for n, fk in fs if fk is not None}
    out = "no"
    for n, fk in fs:
        k = py_chain(L, n)
        if k is not None and k != n and k in names:
            if fk is not None and k in nested:
                return "nested"
            out = "any"
    return out


def used_list(h, override, flag):
    base = [["dict", override]] if override else decl_list(h)
    return base + (["camel"] if flag else [])


def nested_list(L, f, h2):
    out = list(decl_list(h2))
    for m in L:
        out += py_proj(f, m)
    return out


# ------------------------------------------------------------------ generators (model AST, JSON-able)

class Gen:
    def __init__(self, rnd):
        self.rnd = rnd
        self.uid = 0
        self.val = 0

    def names(self, k, avoid):
        rnd = self.rnd
        out = []
        pools = [SNAKE, SINGLE, CAMEL]
        tries = 0
        while len(out) < k and tries < 200:
            tries += 1
            n = rnd.choice(rnd.choice(pools))
            if n not in avoid and n not in out:
                out.append(n)
        return out

    def mapper_dict(self, fields_so_far, cur_list, allow_donot, top):
        """a dict mapper for a class; keyed mostly by the CURRENT key of a field (chain semantics),
        sometimes by the raw field name"""
        rnd = self.rnd
        names = [f[0] for f in fields_so_far]
        entries = []
        used_keys = set()
        cur = {n: py_chain(cur_list, n) for n in names}
        if len(names) >= 2 and rnd.random() < 0.22:
            # a shift / cycle over sibling names: f1 -> (name or current key of) f2 -> ... -> fresh or f1;
            # nested fields are preferred so that nested '<x>._mapper' entries change owner
            nested = [f[0] for f in fields_so_far if f[1] is not None]
            pool = (nested if len(nested) >= 2 and rnd.random() < 0.7 else names)
            chain = rnd.sample(pool, min(len(pool), rnd.choice([2, 2, 3])))
            last = rnd.choice([chain[0], rnd.choice(FRESH), rnd.choice(FRESH)])
            by_cur = rnd.random() < 0.6
            for i, n in enumerate(chain):
                key = cur[n] if (by_cur and cur[n] is not None) else n
                tgt = chain[i + 1] if i + 1 < len(chain) else last
                if by_cur and tgt in cur and cur[tgt] is not None and rnd.random() < 0.5:
                    tgt = cur[tgt]
                if key not in used_keys:
                    used_keys.add(key)
                    entries.append([key, ["key", tgt]])
            names = [n for n in names if n not in chain]
        for n in rnd.sample(names, min(len(names), rnd.randint(0 if entries else 1, 3))):
            key = cur[n] if (rnd.random() < 0.75 and cur[n] is not None) else n
            if key in used_keys:
                continue
            r = rnd.random()
            if r < 0.62:
                v = ["key", rnd.choice(FRESH) + rnd.choice(["", "", "_q", "2"])]
            elif r < 0.74:
                v = ["key", rnd.choice(names)]
            elif r < 0.80:
                v = ["key", rnd.choice([c for c in cur.values() if c] or ["k1"])]
            elif r < 0.88 and allow_donot:
                v = ["donot"]
            elif r < 0.93:
                v = ["key", key]
            else:
                v = ["key", rnd.choice(FRESH)]
            used_keys.add(key)
            entries.append([key, v])
        for f in fields_so_far:
            if f[1] is not None and rnd.random() < 0.3 and f[0] + SUFFIX not in used_keys:
                h2 = f[1][1]
                L2 = nested_list(cur_list, f[0], h2)
                sub = self.mapper_dict(all_fields(h2), L2, allow_donot and f[1][0] != "set", False)[1]
                sub = [e for e in sub]
                if rnd.random() < 0.1:
                    sub = []
                entries.append([f[0] + SUFFIX, ["sub", sub]])
                used_keys.add(f[0] + SUFFIX)
        rnd.shuffle(entries)
        return ["dict", entries]

    def decl(self, kind, fields_so_far, cur_list, allow_donot):
        rnd = self.rnd
        if kind == "none":
            return None
        if kind == "lower":
            return ["one", "lower"]
        if kind == "camel":
            return ["one", "camel"]
        if kind == "dict":
            return ["one", self.mapper_dict(fields_so_far, cur_list, allow_donot, True)]
        n = rnd.choice([1, 2, 2, 3])
        lst = []
        for _ in range(n):
            r = rnd.random()
            if r < 0.5:
                lst.append(self.mapper_dict(fields_so_far, cur_list + lst, allow_donot, True))
            elif r < 0.75:
                lst.append("lower")
            else:
                lst.append("camel")
        return ["many", lst]

    def hclass(self, assignment, nest_budget, allow_donot=True, immutable=False, avoid=()):
        """assignment: tuple of ASSIGN kinds, one per level (base first)"""
        rnd = self.rnd
        levels = []
        fields_so_far = []
        cur_list = []
        avoid = set(avoid)
        for li, kind in enumerate(assignment):
            nscal = rnd.randint(1, 2) if li else rnd.randint(1, 3)
            fs = [[n, None] for n in self.names(nscal, avoid)]
            avoid |= {f[0] for f in fs}
            if nest_budget > 0 and rnd.random() < (0.55 if li == 0 else 0.3):
                for _ in range(rnd.choice([1, 1, 2])):
                    kd = rnd.choice(["ref", "arr", "set"])
                    nm = self.names(1, avoid)
                    if not nm:
                        continue
                    avoid.add(nm[0])
                    depth = rnd.choice([1, 1, 2])
                    asg = tuple(rnd.choice(ASSIGN) for _ in range(depth))
                    h2 = self.hclass(asg, nest_budget - 1, allow_donot and kd != "set",
                                     immutable=False)
                    fs.append([nm[0], [kd, h2]])
            rnd.shuffle(fs)
            if not any(f[1] is None for f in fs):
                fs.insert(0, [self.names(1, avoid)[0], None])
            # first field of the first level is a scalar that instances in collections always populate
            if li == 0:
                i0 = next(i for i, f in enumerate(fs) if f[1] is None)
                fs.insert(0, fs.pop(i0))
            fields_so_far = fields_so_far + fs
            d = self.decl(kind, fields_so_far, cur_list, allow_donot)
            if d is not None:
                cur_list = cur_list + ([d[1]] if d[0] == "one" else list(d[1]))
            levels.append({"fields": fs, "decl": d})
        self.uid += 1
        # scalar fields of the random stream are Integers (the model copies scalars and knows no field
        # types: a value that lands in a field of another type through a key collision would be a
        # TypeError there); String / Boolean / Float fields are exercised by the falsy lattice
        return {"levels": levels, "name": "K%d" % self.uid, "immutable": immutable}

    def instance(self, h, force_first=False):
        rnd = self.rnd
        out = []
        for i, (n, fk) in enumerate(all_fields(h)):
            if not (force_first and i == 0) and rnd.random() < 0.25:
                continue
            if fk is None:
                self.val += 1
                ty = (h.get("types") or {}).get(n, "Integer")
                falsy = i and rnd.random() < 0.15
                if ty == "Integer":
                    code = 0 if falsy else self.val
                elif ty == "String":
                    code = 2 * T + (rnd.randrange(len(STRS)) if (falsy or rnd.random() < 0.3) else len(STRS) + self.val)
                elif ty == "Boolean":
                    code = T + (0 if falsy else rnd.randrange(2))
                else:
                    code = 3 * T + (0 if falsy else rnd.randrange(1, 40))
                out.append([n, ["s", code]])
            elif fk[0] == "ref":
                out.append([n, ["st", self.instance(fk[1])]])
            else:
                k = rnd.choice([0, 1, 1, 2])
                out.append([n, ["l", [["st", self.instance(fk[1], force_first=True)] for _ in range(k)]]])
        return out

    def override(self, h):
        """an explicit mapper for Serializer/Deserializer: keys are field names"""
        rnd = self.rnd
        fs = all_fields(h)
        entries = []
        for n, fk in rnd.sample(fs, min(len(fs), rnd.randint(1, 3))):
            entries.append([n, ["key", rnd.choice(FRESH + [f[0] for f in fs])]])
            if fk is not None and rnd.random() < 0.5:
                h2 = fk[1]
                f2 = all_fields(h2)
                own = decl_list(h2)
                sub = []
                for n2, _ in rnd.sample(f2, min(len(f2), 2)):
                    key = py_chain(own, n2) if rnd.random() < 0.7 else n2
                    if key is not None and key not in [e[0] for e in sub]:
                        sub.append([key, ["key", rnd.choice(FRESH)]])
                if sub:
                    entries.append([n + SUFFIX, ["sub", sub]])
        return entries


FIXED = [
    # documented examples and the shapes behind the known findings
    {"h": {"levels": [{"fields": [["a", None], ["s", None]],
                       "decl": ["many", [["dict", [["a", ["key", "b"]]]], "lower"]]}], "name": "F1", "immutable": False},
     "override": None, "x": [["a", ["s", 5]], ["s", ["s", 6]]]},
    {"h": {"levels": [{"fields": [["i", None], ["s", None]],
                       "decl": ["one", ["dict", [["i", ["key", "j"]], ["s", ["key", "name"]]]]]},
                      {"fields": [["a", None]],
                       "decl": ["many", [["dict", [["j", ["donot"]]]], "lower"]]}], "name": "F2", "immutable": False},
     "override": None, "x": [["i", ["s", 5]], ["s", ["s", 6]], ["a", ["s", 7]]]},
    {"h": {"levels": [{"fields": [["n", ["ref", {"levels": [{"fields": [["nn", ["ref", {"levels": [
        {"fields": [["in_x", None]], "decl": ["one", "lower"]}], "name": "F3c", "immutable": False}]]],
                                                             "decl": None}], "name": "F3b", "immutable": False}]]],
                       "decl": ["one", "camel"]}], "name": "F3", "immutable": False},
     "override": None, "x": [["n", ["st", [["nn", ["st", [["in_x", ["s", 1]]]]]]]]]},
    {"h": {"levels": [{"fields": [["a", None], ["b", None]],
                       "decl": ["one", ["dict", [["a", ["key", "b"]], ["b", ["key", "c"]]]]]}], "name": "F4",
           "immutable": False},
     "override": None, "x": [["a", ["s", 1]]]},
    {"h": {"levels": [{"fields": [["a", None]],
                       "decl": ["many", ["lower", ["dict", [["A", ["key", "a_key"]]]]]]},
                      {"fields": [["b", None]], "decl": None}], "name": "F5", "immutable": False},
     "override": None, "x": [["a", ["s", 1]], ["b", ["s", 2]]]},
]


def gen_cases(rnd, tier):
    g = Gen(rnd)
    cases = []
    assigns = []
    for depth in (1, 2, 3):
        assigns += list(itertools.product(ASSIGN, repeat=depth))
    reps = 4 if tier == "quick" else 20
    for r in range(reps):
        for asg in assigns:
            nest = 0 if r == 0 else rnd.choice([0, 1, 2, 2])
            h = g.hclass(asg, nest)
            x = g.instance(h)
            ov = g.override(h) if rnd.random() < 0.15 else None
            cases.append({"h": h, "override": ov, "x": x, "entry": rnd.choice(["wrapper", "wrapper", "function"]),
                          "stream": "mappers"})
    cases += [dict(copy.deepcopy(c), entry="wrapper", stream="mappers") for c in FIXED]
    from harness import c07lattice
    cases += c07lattice.sibling_cases(rnd, tier)
    cases += c07lattice.falsy_cases(rnd, tier)
    for i, c in enumerate(cases):
        c["history"] = "other-mapper-first" if (i // 2) % 2 else "fresh"
    return cases


# ------------------------------------------------------------------ scalar tokens
# The model copies scalars; a scalar of any of the generated field types is an opaque integer token.

T = 10 ** 7
STRS = ["", "a", "0", "x y", "None", "._mapper"]


def dec_scalar(code):
    if abs(code) < T:
        return code
    kind, k = divmod(code, T)
    if kind == 1:
        return bool(k)
    if kind == 2:
        return STRS[k] if k < len(STRS) else "s%d" % k
    if kind == 3:
        return k / 2.0
    raise ValueError(code)


def enc_scalar(v):
    if v is True or v is False:
        return T + int(v)
    if isinstance(v, int) and not isinstance(v, bool) and abs(v) < T:
        return v
    if isinstance(v, str):
        if v in STRS:
            return 2 * T + STRS.index(v)
        if v[:1] == "s" and v[1:].isdigit() and str(int(v[1:])) == v[1:] and len(STRS) <= int(v[1:]) < T:
            return 2 * T + int(v[1:])
    if isinstance(v, float) and v >= 0 and v * 2 == int(v * 2) and v * 2 < T:
        return 3 * T + int(v * 2)
    raise Unreifiable(repr(v))


def scalar_type(code):
    return {0: "Integer", 1: "Boolean", 2: "String", 3: "Float"}[0 if abs(code) < T else code // T]


# ------------------------------------------------------------------ realisation

def mapper_src(m):
    if m == "lower":
        return "mappers.TO_LOWERCASE"
    if m == "camel":
        return "mappers.TO_CAMELCASE"
    return amap_src(m[1])


def amap_src(entries):
    parts = []
    for k, v in entries:
        if v[0] == "key":
            parts.append("%r: %r" % (k, v[1]))
        elif v[0] == "donot":
            parts.append("%r: DoNotSerialize" % k)
        else:
            parts.append("%r: %s" % (k, amap_src(v[1])))
    return "{" + ", ".join(parts) + "}"


def class_src(h, prefix, out, names):
    """appends class statements (nested classes first) to out; names[id(h)] = python name of the
    most derived class"""
    for lv in h["levels"]:
        for n, fk in lv["fields"]:
            if fk is not None:
                class_src(fk[1], prefix, out, names)
    base = "ImmutableStructure" if h.get("immutable") else "Structure"
    for li, lv in enumerate(h["levels"]):
        cname = "%s_%s_L%d" % (prefix, h["name"], li)
        lines = ["class %s(%s):" % (cname, base)]
        for n, fk in lv["fields"]:
            if fk is None:
                lines.append("    %s = %s" % (n, (h.get("types") or {}).get(n, "Integer")))
            else:
                inner = names[id(fk[1])]
                lines.append("    %s = %s" % (n, {"ref": inner, "arr": "Array[%s]" % inner, "set": "Set[%s]" % inner}[fk[0]]))
        d = lv["decl"]
        if d is not None:
            if d[0] == "one":
                lines.append("    _serialization_mapper = " + mapper_src(d[1]))
            else:
                lines.append("    _serialization_mapper = [" + ", ".join(mapper_src(m) for m in d[1]) + "]")
        lines.append("    _required = []")
        out.append("\n".join(lines))
        base = cname
    names[id(h)] = base


IMPORTS = ("from typedpy import Structure, ImmutableStructure, Integer, String, Boolean, Float, Array, Set, mappers, "
           "DoNotSerialize, Serializer, Deserializer, serialize, deserialize_structure\n")


def realize(h, prefix):
    out, names = [], {}
    class_src(h, prefix, out, names)
    src = IMPORTS + "\n\n".join(out) + "\n"
    ns = {}
    exec(src, ns)
    classes = {hid: ns[nm] for hid, nm in names.items()}
    return classes, src


def build_instance(h, x, classes):
    cls = classes[id(h)]
    kinds = dict((n, fk) for n, fk in all_fields(h))
    kw = {}
    for n, v in x:
        fk = kinds[n]
        if v[0] == "s":
            kw[n] = dec_scalar(v[1])
        elif v[0] == "st":
            kw[n] = build_instance(fk[1], v[1], classes)
        else:
            items = [build_instance(fk[1], e[1], classes) for e in v[1]]
            kw[n] = set(items) if fk[0] == "set" else items
    return cls(**kw)


def realize_amap(entries):
    from typedpy import DoNotSerialize
    out = {}
    for k, v in entries:
        out[k] = v[1] if v[0] == "key" else (DoNotSerialize if v[0] == "donot" else realize_amap(v[1]))
    return out


# ------------------------------------------------------------------ reification

class Unreifiable(Exception):
    pass


def reify_amap(d):
    from typedpy import DoNotSerialize
    if not isinstance(d, dict):
        raise Unreifiable(repr(d))
    out = []
    for k, v in d.items():
        if not isinstance(k, str):
            raise Unreifiable(repr(k))
        if isinstance(v, str):
            out.append([k, ["key", v]])
        elif v is DoNotSerialize:
            out.append([k, ["donot"]])
        elif isinstance(v, dict):
            out.append([k, ["sub", reify_amap(v)]])
        else:
            raise Unreifiable(repr(v))
    return out


def min_scalar(d):
    """sort key of a collection item: the LARGEST plain int inside it (every generated item holds a
    unique counter value larger than all values generated before it, so this is generation order;
    tokens of other scalar types and falsy values do not take part)"""
    if isinstance(d, bool):
        return -1
    if isinstance(d, int):
        return d
    if isinstance(d, dict):
        return max([min_scalar(v) for v in d.values()] or [-1])
    if isinstance(d, (list, tuple, set, frozenset)):
        return max([min_scalar(v) for v in d] or [-1])
    return -1


def reify_doc(d):
    if d is None:
        raise Unreifiable(repr(d))
    if isinstance(d, (bool, int, str, float)):
        return ["s", enc_scalar(d)]
    if isinstance(d, dict):
        out = []
        for k, v in d.items():
            if not isinstance(k, str):
                raise Unreifiable(repr(k))
            out.append([k, reify_doc(v)])
        return ["d", out]
    if isinstance(d, (list, tuple)):
        return ["l", [reify_doc(v) for v in sorted(d, key=min_scalar)]]
    raise Unreifiable(repr(d))


def inst_min(obj):
    from typedpy import Structure
    if isinstance(obj, bool):
        return -1
    if isinstance(obj, int):
        return obj
    if isinstance(obj, Structure):
        vals = [inst_min(getattr(obj, n, None)) for n in type(obj).get_all_fields_by_name()]
        return max(vals or [-1])
    if isinstance(obj, (list, set, frozenset, tuple)):
        return max([inst_min(v) for v in obj] or [-1])
    return -1


def reify_inst(obj):
    """class fields of a Structure instance, in field order (undefined extra attributes are not part
    of the model; the real == covers them)"""
    from typedpy import Structure
    out = []
    for n in type(obj).get_all_fields_by_name():
        v = getattr(obj, n, None)
        if v is None:
            continue
        if isinstance(v, (bool, int, str, float)):
            out.append([n, ["s", enc_scalar(v)]])
        elif isinstance(v, Structure):
            out.append([n, ["st", reify_inst(v)]])
        elif isinstance(v, (list, set, frozenset, tuple)):
            items = sorted(v, key=inst_min)
            if not all(isinstance(e, Structure) for e in items):
                raise Unreifiable(repr(v))
            out.append([n, ["l", [["st", reify_inst(e)] for e in items]]])
        else:
            raise Unreifiable(repr(v))
    return out


# ------------------------------------------------------------------ running the implementation

def guarded(f, reifier):
    try:
        r = f()
    except Exception as e:  # noqa
        return ("raise", E.exn_name(e), "%s: %s" % (type(e).__name__, str(e)[:200])), None
    try:
        return ("ok", reifier(r)), r
    except Unreifiable as u:
        return ("unreifiable", str(u)[:200]), r


def run_impl(case, idx, prefix="C"):
    """realise the classes of a case and observe the implementation"""
    from typedpy import Serializer, Deserializer, serialize, deserialize_structure
    from typedpy.serialization.mappers import aggregate_serialization_mappers, aggregate_deserialization_mappers
    h, ov, x = case["h"], case["override"], case["x"]
    fn = case.get("entry") == "function"
    classes, src = realize(h, "%s%d" % (prefix, idx))
    cls = classes[id(h)]
    inst = build_instance(h, x, classes)
    ovr = realize_amap(ov) if ov else None
    obs = {}
    if case.get("history") == "other-mapper-first":
        # the process-wide cache aggregated_mapper_by_class has already served this class under ANOTHER
        # explicit mapper (or none) and under both values of the flag
        names = [f[0] for f in all_fields(h)]
        other = None if ovr else {names[0]: "zz_pre", names[-1]: "zz_pre2"}
        for flag in (True, False):
            try:
                serialize(inst, mapper=copy.deepcopy(other), camel_case_convert=flag)
                deserialize_structure(cls, {}, mapper=copy.deepcopy(other), camel_case_convert=flag, keep_undefined=False)
            except Exception:  # noqa
                pass
    order = [False, True] if idx % 2 == 0 else [True, False]
    for flag in order:
        o = {}
        o["ser_agg"], _ = guarded(lambda: aggregate_serialization_mappers(cls, copy.deepcopy(ovr), flag), reify_amap)
        o["des_agg"], _ = guarded(lambda: aggregate_deserialization_mappers(cls, copy.deepcopy(ovr), flag), reify_amap)
        if fn:
            o["doc"], doc = guarded(lambda: serialize(inst, mapper=copy.deepcopy(ovr), camel_case_convert=flag), reify_doc)
        else:
            o["doc"], doc = guarded(
                lambda: (Serializer(inst, mapper=copy.deepcopy(ovr)) if ovr else Serializer(inst)).serialize(
                    camel_case_convert=flag), reify_doc)
        if doc is not None:
            def back():
                if fn:
                    return deserialize_structure(cls, copy.deepcopy(doc), mapper=copy.deepcopy(ovr),
                                                 camel_case_convert=flag, keep_undefined=False)
                d = (Deserializer(cls, mapper=copy.deepcopy(ovr), camel_case_convert=flag) if ovr
                     else Deserializer(cls, camel_case_convert=flag))
                return d.deserialize(copy.deepcopy(doc))
            o["back"], b = guarded(back, reify_inst)
            o["rt_equal"] = (b is not None) and (b == inst) and (inst == b)
            if fn:
                # the function's own default (keep_undefined=True)
                dflt, bd = guarded(lambda: deserialize_structure(cls, copy.deepcopy(doc), mapper=copy.deepcopy(ovr),
                                                                 camel_case_convert=flag), reify_inst)
                o["default_equal"] = (bd is not None) and (bd == inst) and (inst == bd)
                o["default_fields_equal"] = dflt[0] == "ok" and o["back"][0] == "ok" and dflt[1] == o["back"][1]
        else:
            o["back"], o["rt_equal"] = ("raise", "Skipped", "no document"), False
        o["doc_py"] = doc
        obs[flag] = o
    return obs, src, cls, inst


# ------------------------------------------------------------------ emission

def emit_mval(v):
    if v[0] == "key":
        return "(Key %s)" % E.pstr(v[1])
    if v[0] == "donot":
        return "DoNot"
    return "(Sub %s)" % emit_amap(v[1])


def emit_amap(entries):
    return E.lst(["(%s, %s)" % (E.pstr(k), emit_mval(v)) for k, v in entries])


def emit_mapper(m):
    if m == "lower":
        return "MLower"
    if m == "camel":
        return "MCamel"
    return "(MDict %s)" % emit_amap(m[1])


def emit_hclass(h):
    lvs = []
    for lv in h["levels"]:
        fs = []
        for n, fk in lv["fields"]:
            if fk is None:
                fs.append("(%s, None)" % E.pstr(n))
            else:
                kd = {"ref": "KRef", "arr": "KArr", "set": "KSet"}[fk[0]]
                fs.append("(%s, Some (%s, %s))" % (E.pstr(n), kd, emit_hclass(fk[1])))
        d = lv["decl"]
        if d is None:
            ds = "None"
        elif d[0] == "one":
            ds = "(Some (DOne %s))" % emit_mapper(d[1])
        else:
            ds = "(Some (DMany %s))" % E.lst([emit_mapper(m) for m in d[1]])
        lvs.append("(%s, %s)" % (E.lst(fs), ds))
    return "(HClass %s)" % E.lst(lvs)


def emit_ival(v):
    if v[0] == "s":
        return "(IScal %s)" % E.zlit(v[1])
    if v[0] == "st":
        return "(IStruct %s)" % emit_inst(v[1])
    return "(IList %s)" % E.lst([emit_ival(e) for e in v[1]])


def emit_inst(x):
    return E.lst(["(%s, %s)" % (E.pstr(n), emit_ival(v)) for n, v in x])


def emit_dval(d):
    if d[0] == "s":
        return "(DScal %s)" % E.zlit(d[1])
    if d[0] == "d":
        return "(DDict %s)" % E.lst(["(%s, %s)" % (E.pstr(k), emit_dval(v)) for k, v in d[1]])
    return "(DList %s)" % E.lst([emit_dval(e) for e in d[1]])


def emit_res(o, f):
    if o[0] == "ok":
        return "(Ok %s)" % f(o[1])
    return "(Raise %s)" % E.exn(o[1])


def emit_obs(o):
    return "(Obs %s %s %s %s)" % (emit_res(o["ser_agg"], emit_amap), emit_res(o["des_agg"], emit_amap),
                                  emit_res(o["doc"], emit_dval), emit_res(o["back"], emit_inst))


def emit_case(case, obs):
    ov = "None" if not case["override"] else "(Some %s)" % emit_amap(case["override"])
    return "(Case %s %s %s %s %s)" % (emit_hclass(case["h"]), ov, emit_inst(case["x"]),
                                     emit_obs(obs[False]), emit_obs(obs[True]))


HEADER = """From Coq Require Import ZArith NArith String List. Import ListNotations.
From TP Require Import Check.C07chk.
Local Open Scope bool_scope.
"""

QUERIES = [
    ("mismatch", "mismatch"),
    ("m_ser_agg", "(fun c => mism_ser_agg false c || mism_ser_agg true c)"),
    ("m_des_agg", "(fun c => mism_des_agg false c || mism_des_agg true c)"),
    ("m_doc", "(fun c => mism_doc false c || mism_doc true c)"),
    ("m_back", "(fun c => mism_back false c || mism_back true c)"),
    ("unmodelled", "unmodelled"),
    ("spec_fail", "spec_fail"),
    ("spec_fail_code", "spec_fail_with_code_lists"),
    ("rt_app_F", "(rt_applicable false)"), ("rt_app_T", "(rt_applicable true)"),
    ("rt_cap_F", "(rt_capture false)"), ("rt_cap_T", "(rt_capture true)"),
    ("rt_mod_F", "(rt_model_agrees false)"), ("rt_mod_T", "(rt_model_agrees true)"),
    ("rt_unm_F", "(fun c => is_unmodelled (model_back false c))"), ("rt_unm_T", "(fun c => is_unmodelled (model_back true c))"),
    ("deep2", "deep2"),
    ("sk_F", "(spec_keys_fail false)"), ("sk_T", "(spec_keys_fail true)"),
    ("spec_ser", "(fun c => spec_agg_fail false false c || spec_agg_fail false true c || spec_keys_fail false c || spec_keys_fail true c)"),
]


def python_src(case, src):
    return (src + "# mapper override: %r\n# instance (model AST): %r\n" % (case["override"], case["x"]))


# ------------------------------------------------------------------ spec on the implementation, Python side (replay)

def expected_keys(h, L, x):
    """expected key structure of the document per the declarative chain: {key: nested-or-None}"""
    kinds = dict((n, fk) for n, fk in all_fields(h))
    out = {}
    for n, v in x:
        k = py_chain(L, n)
        if k is None:
            continue
        fk = kinds[n]
        if v[0] == "s":
            out[k] = None
        elif v[0] == "st":
            out[k] = expected_keys(fk[1], nested_list(L, n, fk[1]), v[1])
        else:
            out[k] = [expected_keys(fk[1], nested_list(L, n, fk[1]), e[1]) for e in v[1]]
    return out


def observed_keys(d):
    if isinstance(d, dict):
        return {k: observed_keys(v) for k, v in d.items()}
    if isinstance(d, (list, tuple)):
        return [observed_keys(v) for v in sorted(d, key=min_scalar)]
    return None


def py_agg_ok(h, L, entries, des):
    """Python rendering of C07chk.agg_ok: the observed aggregated mapper (reified entries) against the
    declarative chain, at every level"""
    o = {k: v for k, v in entries}
    for n, fk in all_fields(h):
        want = py_chain(L, n)
        got = o.get(n)
        if got is None or (got != ["donot"] if want is None else got != ["key", want]):
            return False
        if fk is None:
            continue
        sub = None
        if des and want is not None:
            sub = o.get(want + SUFFIX)
        if sub is None:
            sub = o.get(n + SUFFIX)
        if sub is not None and sub[0] == "sub":
            if not py_agg_ok(fk[1], nested_list(L, n, fk[1]), sub[1], des):
                return False
        elif all_fields(fk[1]) and not (des and want is None):
            return False
    return True


def full_instance(h, counter):
    """every field populated, one element per collection"""
    out = []
    for n, fk in all_fields(h):
        if fk is None:
            counter[0] += 1
            out.append([n, ["s", counter[0]]])
        elif fk[0] == "ref":
            out.append([n, ["st", full_instance(fk[1], counter)]])
        else:
            out.append([n, ["l", [["st", full_instance(fk[1], counter)]]]])
    return out


def doc_clause_fails(case, obs):
    """the key-set clause evaluated in Python on the observed documents (as replay does)"""
    for flag in (False, True):
        o = obs[flag]
        if o["doc_py"] is None:
            return True
        want = expected_keys(case["h"], used_list(case["h"], case["override"], flag), case["x"])
        if canon_keys(observed_keys(o["doc_py"])) != canon_keys(want):
            return True
    return False


def canon_keys(t):
    """key structures compare order-free in their lists"""
    import json
    if isinstance(t, dict):
        return {k: canon_keys(v) for k, v in t.items()}
    if isinstance(t, list):
        return sorted((canon_keys(v) for v in t), key=lambda v: json.dumps(v, sort_keys=True))
    return t


# ------------------------------------------------------------------ heterogeneous items x cache histories

HETERO_KEYS = {
    ("C", "keys"): "C07/hetero/container/keys",
    ("C", "roundtrip"): "C07/hetero/container/roundtrip",
    ("C", "element-keys"): "C07/hetero/container/element-keys",
    ("K", "keys"): "C07/hetero/item-class-after-history/keys",
    ("K", "roundtrip"): "C07/hetero/item-class-after-history/roundtrip",
}


def run_hetero(rep, rnd, tier):
    import sys
    from harness import c07hetero
    me = sys.modules[__name__]
    for sc in c07hetero.gen_scenarios(rnd, tier):
        if not c07hetero.injective(sc, me):
            rep.stat("hetero-history", "skipped:not-injective")
            continue
        try:
            runner = c07hetero.Runner(sc, "H%d" % sc["uid"], me)
        except Exception as e:  # noqa
            rep.stat("hetero-history", "skipped:" + type(e).__name__)
            continue
        decls = tuple("none" if it["decl"] is None else (it["decl"][1] if isinstance(it["decl"][1], str) else it["decl"][0])
                      for it in sc["items"])
        rep.count("hetero-history", 1, (sc["kind"], sc["history_kind"], decls, sc["cdecl"] is not None))
        rep.stat("hetero-history", "kind:" + sc["kind"])
        rep.stat("hetero-history", "history:" + sc["history_kind"])
        rep.stat("hetero-history", "item-classes:%d" % len(sc["items"]))
        for j in range(len(sc["history"])):
            for jd in runner.step(j):
                rep.stat("hetero-history", "judged:%s/%s:%s" % ("C" if jd["who"] == "C" else "K", jd["clause"],
                                                                "ok" if jd["ok"] else "fails"))
                if jd["ok"]:
                    continue
                if jd.get("merged"):
                    key = "C07/hetero/positional-items-share-one-merged-mapper"
                    what = ("Array(items=[A, B]) of two structure classes: _set_base_mapper_no_op merges the item classes' "
                            "aggregated mappers with dict.update into ONE '<field>._mapper' entry, so every element is "
                            "serialized with the LAST class's key for a field name the classes share")
                else:
                    key = HETERO_KEYS[("C" if jd["who"] == "C" else "K", jd["clause"])]
                    what = ("after the history %s: %s of %s fails" % (
                        [s["who"] for s in sc["history"][:j + 1]], jd["clause"], jd["who"]))
                rep.finding(key, what + " (camel_case_convert=%s): %s" % (jd["flag"], jd["detail"][:300]),
                            {"hetero": sc, "step": j, "who": jd["who"], "clause": jd["clause"], "flag": jd["flag"],
                             "python": runner.src})


def replay_hetero(obj):
    import sys
    from harness import c07hetero
    me = sys.modules[__name__]
    sc = obj["hetero"]
    runner = c07hetero.Runner(sc, "RH%d" % random.randrange(10 ** 6), me)
    print(runner.src)
    bad = 0
    for j in range(obj["step"] + 1):
        st = sc["history"][j]
        print("step %d: %s%s via %s" % (j, "schema export + " if st.get("schema") else "",
                                        "serialize/deserialize an instance of " + st["who"], st["entry"]))
        for jd in runner.step(j):
            print("   camel_case_convert=%-5s %-12s %s  %s" % (jd["flag"], jd["clause"], "ok   " if jd["ok"] else "FAILS", jd["detail"]))
            if (j == obj["step"] and jd["who"] == obj["who"] and jd["clause"] == obj["clause"]
                    and jd["flag"] == obj["flag"] and not jd["ok"]):
                bad = 1
    if not bad:
        print("no clause of C07 fails on this history now")
    return bad


def replay(obj):
    if obj.get("hetero"):
        return replay_hetero(obj)
    case = {"h": obj["h"], "override": obj.get("override"), "x": obj["x"], "entry": obj.get("entry", "wrapper"),
            "history": obj.get("history", "fresh")}
    if obj.get("wrapper"):
        return replay_wrapper(obj)
    obs, src, cls, inst = run_impl(case, 0, prefix="R%d" % random.randrange(10 ** 6))
    print(src)
    print("instance :", inst)
    bad = 0
    for flag in (False, True):
        o = obs[flag]
        L = used_list(case["h"], case["override"], flag)
        want = expected_keys(case["h"], L, case["x"])
        got = observed_keys(o["doc_py"]) if o["doc_py"] is not None else o["doc"]
        print("camel_case_convert=%s   entry point: %s" % (flag, "serialize()/deserialize_structure(keep_undefined=False)"
                                                        if case["entry"] == "function" else "Serializer/Deserializer"))
        print("  declared mapper chain      :", L)
        print("  aggregated (serialization) :", o["ser_agg"])
        print("  aggregated (deserialization):", o["des_agg"])
        print("  document                   :", o["doc_py"])
        print("  key sets observed          :", got)
        print("  key sets required (chain)  :", want)
        print("  round trip equal           :", o["rt_equal"], "" if o["back"][0] == "ok" else o["back"])
        if canon_keys(got) != canon_keys(want):
            bad = 1
            print("  FAILS: key sets differ from the image under the declared chain")
        for des, name in ((False, "ser_agg"), (True, "des_agg")):
            if o[name][0] != "ok" or not py_agg_ok(case["h"], L, o[name][1], des):
                print("  aggregated %s mapper differs from the declared chain (the document of an instance that "
                      "populates the affected field shows it)" % ("deserialization" if des else "serialization"))
                if obj.get("clause") == "agg":
                    bad = 1
                    print("  FAILS: aggregated mapper is not the rename chain")
        if not o["rt_equal"] and obj.get("clause") == "roundtrip" and obj.get("flag") == flag:
            bad = 1
            print("  FAILS: Deserializer(cls).deserialize(Serializer(x).serialize()) != x")
        if obj.get("clause") == "roundtrip-default" and obj.get("flag") == flag:
            print("  round trip equal with deserialize_structure's defaults:", o.get("default_equal"),
                  " fields equal:", o.get("default_fields_equal"))
            if o.get("default_equal") is False:
                bad = 1
                print("  FAILS: deserialize_structure(cls, serialize(x)) != x")
    if not bad:
        print("no clause of C07 fails on this input now")
    return bad


def replay_wrapper(obj):
    classes, src = realize(obj["h"], "RW%d" % random.randrange(10 ** 6))
    cls = classes[id(obj["h"])]
    inst = build_instance(obj["h"], obj["x"], classes)
    r = wrapper_obs(cls, inst, obj["mapper"])
    print(src)
    print("mapper:", obj["mapper"], " names a non-field:", obj["nonfield"])
    print("Serializer raised:", r[0], " Deserializer raised:", r[1], " required:", obj["nonfield"])
    return 1 if (r[0] != obj["nonfield"] or r[1] != obj["nonfield"]) else 0


def wrapper_obs(cls, inst, mapper_entries):
    from typedpy import Serializer, Deserializer
    m = realize_amap(mapper_entries)
    res = []
    for f in (lambda: Serializer(inst, mapper=copy.deepcopy(m)), lambda: Deserializer(cls, mapper=copy.deepcopy(m))):
        try:
            f()
            res.append(False)
        except (TypeError, ValueError):
            res.append(True)
        except Exception as e:  # noqa
            res.append("other:" + type(e).__name__)
    return res


def gen_wrapper_mappers(rnd, h):
    fs = all_fields(h)
    names = [f[0] for f in fs]
    L = decl_list(h)
    valid = []
    for n, fk in rnd.sample(fs, min(len(fs), 2)):
        valid.append([n, ["key", rnd.choice(FRESH)]])
        if fk is not None and rnd.random() < 0.5:
            valid.append([n + SUFFIX, ["sub", [[all_fields(fk[1])[0][0], ["key", "q"]]]]])
    if rnd.random() < 0.3 and names:
        valid.append([rnd.choice(names) + ".inner", ["key", "q"]])
    cands = ["zz", "not_a_field", "zz" + SUFFIX, "Zq.x"]
    cands += [k for k in (py_chain(L, n) for n in names) if k and k not in names]
    for n, fk in fs:
        if fk is not None:
            cands += [f[0] for f in all_fields(fk[1]) if f[0] not in names]
    bad = rnd.choice(cands)
    invalid = [list(e) for e in valid]
    invalid.insert(rnd.randint(0, len(invalid)), [bad, ["sub", []] if bad.endswith(SUFFIX) else ["key", "q"]])
    seen, v2 = set(), []
    for e in valid:
        if e[0] not in seen:
            seen.add(e[0]); v2.append(e)
    return [(v2, False), (invalid, True)]


# ------------------------------------------------------------------ run

def run(rep, tier):
    rnd = random.Random(core.seed() * 1000003 + 7)
    proofs_ok, model_ok = core.standard_proof_obligations(
        rep, "C07", ["theories/Check/C07chk.vo", "theories/Ser/MappersProofs.vo"])
    rep.assumptions += [
        "field names and mapper keys are ASCII identifiers (hypothesis `ident` of the theorems; the generator's three shapes)",
        "rename-only fragment: mapper values are str / DoNotSerialize / nested dict; FunctionCall, Constant, "
        "mappers.CONFIGURATION and structures inside Map values are outside the claim",
        "value-level serialization is abstracted as identity on scalars (opaque tokens: Integer fields; String/Boolean/Float "
        "fields in the falsy lattice) and structural on nested documents; the model has no field types",
        "collections compare order-free (serialized Sets have no order; the order of an Array is not a matter of this property)",
        "single inheritance chains; `_deserialization_mapper` is not declared (the serialization mapper serves both directions)",
        "undefined extra attributes created by deserialization are outside the model (the real == sees them)",
    ]
    cases = gen_cases(rnd, tier)
    run_hetero(rep, random.Random(core.seed() * 1000003 + 77), tier)
    observed = []
    skipped = 0
    for i, case in enumerate(cases):
        try:
            obs, src, cls, inst = run_impl(case, i)
        except Exception as e:  # noqa  -- class statement / construction rejected: not a case of this property
            observed.append(None)
            skipped += 1
            rep.stat(case.get("stream", "mappers"), "skipped:" + type(e).__name__)
            continue
        observed.append((obs, src))
        asg = tuple("none" if lv["decl"] is None else (lv["decl"][1] if lv["decl"][0] == "one" and isinstance(lv["decl"][1], str)
                                                         else ("dict" if lv["decl"][0] == "one" else "list"))
                    for lv in case["h"]["levels"])
        nest = tuple(sorted({fk[0] for _, fk in all_fields(case["h"]) if fk is not None}))
        stream = case.get("stream", "mappers")
        if stream == "mappers":
            rep.count(stream, 1, (asg, nest, bool(case["override"])))
        else:
            kinds = tuple(fk[0] if fk else "scalar" for _, fk in case["h"]["levels"][0]["fields"])
            L0 = used_list(case["h"], case["override"], False)
            ren = tuple(py_chain(L0, n) for n, _ in case["h"]["levels"][0]["fields"])
            rep.count(stream, 1, (kinds, ren, asg, bool(case["override"])))
        rep.stat(stream, "depth:%d" % len(case["h"]["levels"]))
        rep.stat(stream, "nested:" + ("+".join(nest) or "flat"))
        rep.stat(stream, "entry:" + case.get("entry", "wrapper"))
        rep.stat(stream, "history:" + case.get("history", "fresh"))
        rep.stat(stream, "sibling-name-reused-as-key:%s" % sibling_reuse(case["h"], used_list(case["h"], case["override"], False)))
        for n, v in case["x"]:
            if v[0] == "s":
                rep.stat(stream, "scalar:%s%s" % (scalar_type(v[1]), "(falsy)" if not dec_scalar(v[1]) else ""))
            elif not v[1]:
                rep.stat(stream, "nested-value:empty")
        for flag in (False, True):
            rep.stat(stream, "doc:" + obs[flag]["doc"][0])
            rep.stat(stream, "roundtrip:" + ("equal" if obs[flag]["rt_equal"] else "differs"))
    if skipped * 10 > len(cases):
        rep.broken("generator", f"{skipped} of {len(cases)} generated hierarchies were rejected by typedpy")
    live = [(i, c, o) for i, (c, o) in enumerate(zip(cases, observed)) if o is not None]
    unre = [i for i, c, o in live if any(o[0][f][k][0] == "unreifiable" for f in (False, True)
                                          for k in ("ser_agg", "des_agg", "doc", "back"))]
    for i in unre[:1]:
        rep.finding("C07/observation-outside-value-universe",
                    "an aggregated mapper / document / instance holds a value that is not a str, DoNotSerialize, dict, int or Structure",
                    {"h": cases[i]["h"], "override": cases[i]["override"], "x": cases[i]["x"],
                     "python": python_src(cases[i], observed[i][1])})
    live = [t for t in live if t[0] not in unre]
    for i, c, o in live[:2] + [t for t in live if t[1].get("stream") != "mappers"][:2]:
        rep.sample({"classes": o[1], "instance": c["x"], "override": c["override"],
                    "document": repr(o[0][False]["doc_py"]), "document_camel": repr(o[0][True]["doc_py"])})
    # wrapper stream
    wcases = []
    for i, case, o in [t for t in live if t[1].get("stream", "mappers") == "mappers"][:: (2 if tier == "quick" else 1)] + \
            [t for t in live if t[1].get("stream", "mappers") != "mappers"][::7]:
        try:
            classes, src = realize(case["h"], "W%d" % i)
            inst = build_instance(case["h"], case["x"], classes)
        except Exception:  # noqa
            continue
        for m, nonfield in gen_wrapper_mappers(rnd, case["h"]):
            r = wrapper_obs(classes[id(case["h"])], inst, m)
            rep.count("wrappers", 1, (nonfield, len(m)))
            rep.stat("wrappers", "nonfield:%s raised:%s/%s" % (nonfield, r[0], r[1]))
            for which, raised in zip(("Serializer", "Deserializer"), r):
                if raised != nonfield:
                    rep.finding("C07/wrapper/%s/%s" % (which, "accepts-nonfield" if nonfield else "rejects-valid"),
                                f"{which} built with mapper keys {[e[0] for e in m]} "
                                f"{'was accepted although a key names no field' if nonfield else 'was rejected although every key names a field'}",
                                {"wrapper": True, "h": case["h"], "x": case["x"], "mapper": m, "nonfield": nonfield,
                                 "python": src})
                wcases.append(([f[0] for f in all_fields(case["h"])], [e[0] for e in m], raised is True))
    # correspondence and spec clauses in Coq
    if model_ok and live:
        per = 150
        shards = []
        for s in range(0, len(live), per):
            items = [emit_case(c, o[0]) for _, c, o in live[s:s + per]]
            body = "Definition cases : list case := %s.\n" % E.lst(["\n " + it for it in items])
            for _, q in QUERIES:
                body += "Eval vm_compute in (indices_where %s cases 0).\n" % q
            shards.append(body)
        wbody = "Definition wcases : list wcase := %s.\n" % E.lst(
            ["\n (%s, %s, %s)" % (E.lst([E.pstr(f) for f in fs]), E.lst([E.pstr(k) for k in ks]), E.blit(r))
             for fs, ks, r in wcases])
        wbody += "Eval vm_compute in (indices_where wmismatch wcases 0).\n"
        res = core.eval_cases(shards + [wbody], "c07", HEADER)
        # a coqc process lost to the machine (killed under memory pressure, ...) is not a verdict: evaluate a
        # failed shard once more on its own before reporting it
        for si, (rc, out, err) in enumerate(res):
            want = 1 if si == len(res) - 1 else len(QUERIES)
            if rc != 0 or len(core.parse_eval(out)) != want:
                res[si] = core.eval_cases([(shards + [wbody])[si]], "c07r%d" % si, HEADER)[0]
        sets = {name: set() for name, _ in QUERIES}
        bad_shard = None
        for si, (rc, out, err) in enumerate(res[:-1]):
            vals = core.parse_eval(out)
            if rc != 0 or len(vals) != len(QUERIES):
                bad_shard = (si, (out + err)[-1500:])
                continue
            for (name, _), v in zip(QUERIES, vals):
                sets[name] |= {live[si * per + j][0] for j in core.parse_nat_list(v)}
        rc, out, err = res[-1]
        wvals = core.parse_eval(out)
        if rc != 0 or len(wvals) != 1:
            rep.broken("correspondence:wrappers/coq-eval", (out + err)[-1500:])
            wm = []
        else:
            wm = core.parse_nat_list(wvals[0])
        rep.obligation("correspondence:wrappers", not wm, f"{len(wcases)} wrapper constructions, {len(wm)} mismatches")
        if wm and not rep.violations:
            fs, ks, r = wcases[wm[0]]
            rep.broken("correspondence:wrappers", "model wrapper_validate and the real __validate__ disagree",
                       {"fields": fs, "mapper_keys": ks, "raised": r})
        if bad_shard is not None:
            rep.broken("correspondence:mappers/coq-eval", f"case shard {bad_shard[0]} failed to evaluate: {bad_shard[1]}")
        mism = sorted(sets["mismatch"])
        rep.obligation("correspondence:mappers", not mism and bad_shard is None,
                       f"{len(live)} cases x (4 aggregated mappers, 2 documents, 2 deserializations), {len(mism)} mismatching cases")
        st = rep.cov["streams"].setdefault("mappers", {"evaluations": 0})
        st["outside_model_domain_skipped"] = len(sets["unmodelled"])
        st["roundtrip_hypotheses_hold"] = len(sets["rt_app_F"]) + len(sets["rt_app_T"])
        st["mismatch_by_part"] = {k: len(sets[k]) for k in ("m_ser_agg", "m_des_agg", "m_doc", "m_back")}
        if len(sets["unmodelled"]) * 5 > len(live):
            rep.broken("correspondence:mappers/domain",
                       f"{len(sets['unmodelled'])} of {len(live)} cases fall outside the model's domain: inconclusive")
        # spec clauses -> findings
        by_idx = {i: (c, o) for i, c, o in live}
        doc_level = sets["sk_F"] | sets["sk_T"]
        # cases that also deviate from the model of the pinned code get the (unlisted) key below: report one
        # whose DOCUMENT shows the failure, so that the replay is a failing input of the property itself
        # (a deviation in the deserialization RESULT only does not explain a wrong aggregated mapper / document:
        # those are judged by the round-trip clause below)
        mm_spec = sets["m_ser_agg"] | sets["m_des_agg"] | sets["m_doc"]
        viol = sorted((i for i in sets["spec_fail"] if i in mm_spec), key=lambda i: (i not in doc_level, i))
        order = viol + sorted(i for i in sets["spec_fail"] if i not in mm_spec)
        witness = {}
        if viol and viol[0] not in doc_level:
            # only aggregated mappers deviate so far: look for an instance whose document shows it --
            # the same classes with every field populated
            for i in viol[:40]:
                c, o = by_idx[i]
                c2 = dict(c, x=full_instance(c["h"], [900000]))
                try:
                    obs2, src2, _, _ = run_impl(c2, i, prefix="S")
                except Exception:  # noqa
                    continue
                if doc_clause_fails(c2, obs2):
                    witness[i] = (c2, (obs2, src2))
                    order.remove(i)
                    order.insert(0, i)
                    break
        for i in order:
            c, o = by_idx[i]
            if i in witness:
                c, o = witness[i]
            if i not in mm_spec and has_gap(c["h"]):
                key = "C07/agg/inherited-mapper-reapplied"
                what = ("a class that declares no mapper of its own collects its parent's declaration a second time "
                        "(getattr inheritance in _get_all_values_of_attribute): keys differ from the declared chain")
            elif (i not in mm_spec and i not in sets["spec_ser"]
                  and renamed_nested_entry(c["h"], used_list(c["h"], c["override"], False))):
                key = "C07/agg/deser-nested-entry-keyed-by-renamed-field"
                what = ("after a dict renamed a nested field, a later '<field>._mapper' entry is found by serialization "
                        "(looked up under the field name) but not by deserialization (looked up under the current key), "
                        "or vice versa: the two aggregated mappers disagree for the nested class")
            elif i not in mm_spec:
                key = "C07/agg/same-entry-shortcut"
                what = ("add_mapper_to_aggregation keeps an entry unchanged when the later dict maps the FIELD NAME "
                        "to the current key, although the dict also renames that current key")
            else:
                key = "C07/keys/not-the-image-under-the-declared-chain"
                what = ("aggregated mapper or serialized key set differs from rename_chain over the declared mappers "
                        "(and from the model of the pinned code)")
            rep.finding(key, what, {"h": c["h"], "override": c["override"], "x": c["x"], "entry": c.get("entry", "wrapper"), "history": c.get("history", "fresh"),
                                    "clause": "keys" if (i in doc_level or i in witness) else "agg",
                                    "python": python_src(c, o[1])})
        for flag, app, cap, mod, unm in ((False, "rt_app_F", "rt_cap_F", "rt_mod_F", "rt_unm_F"),
                                         (True, "rt_app_T", "rt_cap_T", "rt_mod_T", "rt_unm_T")):
            for i in sorted(sets[app]):
                c, o = by_idx[i]
                if o[0][flag]["rt_equal"]:
                    continue
                if i in sets["spec_fail"] and (i in sets[mod] or i in sets[unm]):
                    continue        # the pinned code's behaviour, explained by the key-set failure reported above
                if i in sets[cap] and (i in sets[mod] or i in sets[unm]):
                    key = "C07/roundtrip/unpopulated-field-captures-key"
                    what = ("an unpopulated field whose NAME equals another field's key takes that field's value on "
                            "deserialization (non-strict fallback of get_processed_input)")
                elif i in sets[mod] and i in sets["deep2"] and i not in sets[cap]:
                    key = "C07/roundtrip/nested-depth2-reaggregation"
                    what = ("the deserialization mapper of a class nested two levels down is re-aggregated from already "
                            "renamed keys, so it no longer matches the serialized keys")
                else:
                    key = "C07/roundtrip/differs"
                    what = "Deserializer(cls).deserialize(Serializer(x).serialize()) != x although no field is dropped and keys are distinct"
                rep.finding(key, what + f" (camel_case_convert={flag})",
                            {"h": c["h"], "override": c["override"], "x": c["x"], "entry": c.get("entry", "wrapper"),
                             "history": c.get("history", "fresh"), "clause": "roundtrip", "flag": flag,
                             "python": python_src(c, o[1])})
        for i, c, o in live:
            for flag in (False, True):
                ob = o[0][flag]
                if ob.get("rt_equal") and ob.get("default_equal") is False:
                    if ob.get("default_fields_equal"):
                        key = "C07/roundtrip/function-default-keeps-renamed-keys-as-attributes"
                        what = ("deserialize_structure(cls, serialize(x)) with its default keep_undefined=True stores every "
                                "renamed key of the document as an extra attribute, so the result != x although all fields agree")
                    else:
                        key = "C07/roundtrip/function-default-differs"
                        what = "deserialize_structure(cls, serialize(x)) != x with the function's defaults, while keep_undefined=False round-trips"
                    rep.finding(key, what + f" (camel_case_convert={flag})",
                                {"h": c["h"], "override": c["override"], "x": c["x"], "entry": "function",
                                 "clause": "roundtrip-default", "flag": flag, "python": python_src(c, o[1])})
        if mism and not rep.violations:
            i = mism[0]
            c, o = by_idx[i]
            parts = [k for k in ("m_ser_agg", "m_des_agg", "m_doc", "m_back") if i in sets[k]]
            rep.broken("correspondence:mappers",
                       f"model (Ser/Mappers.v) and typedpy differ on {len(mism)} generated cases (parts: {parts}); "
                       "no clause of C07 failed on any explored input",
                       {"h": c["h"], "override": c["override"], "x": c["x"], "entry": c.get("entry", "wrapper"), "history": c.get("history", "fresh"), "parts": parts,
                        "observed": {str(f): {k: o[0][f][k] for k in ("ser_agg", "des_agg", "doc", "back")} for f in (False, True)},
                        "python": python_src(c, o[1])})
        elif mism:
            rep.obligation("correspondence:mappers:explained-by-violation", True,
                           "mismatching cases accompany a concrete violation reported above")
    if not proofs_ok:
        from harness.props.c17 import broken_build
        broken_build(rep)
    return rep.finish(
        rule="stream mappers: single-inheritance hierarchies of depth 1..3 under EVERY assignment of {none, dict, TO_LOWERCASE, "
             "TO_CAMELCASE, list chain} per class (155 assignments, each several times with fresh fields/dicts/nesting; dicts "
             "include shifts/cycles over sibling names), nested classes with own mappers reached directly / through Array / "
             "through Set up to two levels down, field names of three shapes, optional explicit mapper, falsy values; "
             "stream sibling-lattice: classes with fields a,b(,c) of every kind combination x EVERY collision-free rename onto "
             "{own name, sibling names, fresh key} x placement {own mapper, subclass mapper, explicit mapper, [dict, TO_CAMELCASE], "
             "[TO_LOWERCASE, dict], split over base/subclass} with pairwise different per-class mappers on the nested classes "
             "(2 fields: full product; 3 fields: sample) and optional '<x>._mapper' entries; stream falsy-lattice: the same shapes "
             "with every value falsy (0, '', False, 0.0, empty nested structure, empty Array/Set); every case with "
             "camel_case_convert off and on, through Serializer/Deserializer or serialize()/deserialize_structure(), on a fresh "
             "class or after the class was served under another mapper; stream hetero-history: Array(items=[K0,K1(,K2)]) / "
             "Tuple(items=..) / Array[AnyOf[..]] / Set[AnyOf[..]] / one Array per class over 2-3 structure classes with shared "
             "field names renamed differently x histories over the mapper cache (container first / items first / interleaved, "
             "schema export as filler), key-set and round-trip clauses judged for the class of every step; distinct = (kinds, renames, assignment, explicit mapper?); "
             "wrappers = valid mapper / one non-field key")
