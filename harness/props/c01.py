"""C01 — no validating entry point ever yields an instance that violates its declaration.

Proof obligations: Props/C01.v (Struct/InstanceProofs.v on top of Fields/SetChainProofs.v).
Tie to /repo: class environments, argument sets and chains of 1-4 REAL entry points are generated,
run on the real typedpy step by step, every intermediate instance is reified, and inside Coq
  (spec)           `inst_ok`/`deep_valid` (built on the documented rules `docb`, independent of the
                   code-shaped model `vset`) are evaluated on every observed instance: an accepted,
                   in-domain step whose result the spec rejects is a concrete violation;
  (correspondence) the model `run_entry` (Struct/Entry.v) applied to the observed previous instance is
                   compared with the observed outcome."""
import copy
import pickle
import random
import re
import sys
import types

from harness import core
from harness import coqemit as E
from harness import fieldgen as G
from harness import structgen as S
from harness import c01lat as L

ALLOWED_INTERNAL = ("_instantiated", "_none_fields")


def struct_attrs(v):
    """Public state of a Structure instance: EVERY key of __dict__ except the two bookkeeping ones
    every instance legitimately has (a leftover `_skip_validation` / `_trust_supplied_values` is an
    undeclared attribute as far as C01 is concerned)."""
    from typedpy import Structure
    if not isinstance(v, Structure):
        return None
    return [(k, v.__dict__[k]) for k in sorted(v.__dict__) if k not in ALLOWED_INTERNAL]


def reify(v):
    return E.reify(v, struct_attrs)


_mod_counter = [0]


class Ctx(S.Context):
    """Class environment realised inside a real (registered) module, so that instances pickle."""

    def __init__(self, extra=()):
        _mod_counter[0] += 1
        self.modname = "c01_env_%d_%d" % (core.seed(), _mod_counter[0])
        mod = types.ModuleType(self.modname)
        sys.modules[self.modname] = mod
        self.asts = [dict(c) for c in self.BASE] + list(extra)
        self.ns = mod.__dict__
        exec(G.IMPORTS, self.ns)
        # default factories: `default=_fact(key)` is a callable that returns, whenever typedpy calls it, the value the
        # harness currently holds under `key` (fixed per chain by a ["factory", key, value] pseudo-entry; while the
        # class statement runs it is the declared initial value, which the definition-time check samples)
        self.ns["_FACT"] = {}
        exec("def _fact(key):\n    return lambda: _FACT[key]\n", self.ns)
        self.fact_now = {}          # key -> reified value currently returned
        for c in self.asts:
            for fd in c["fields"]:
                if fd.get("factory") is not None:
                    self.fact_now[fd["factory"]] = fd["default"]
                    self.ns["_FACT"][fd["factory"]] = G.unreify(fd["default"])
        self.step_overrides = {}    # id(step tuple) -> [(class, field, reified value)] in force when the step ran
        for c in self.asts:
            exec(L.class_src(c), self.ns)
        self.classes = {c["name"]: self.ns[c["name"]] for c in self.asts}
        self.instances = {
            "Inner": [("struct", "Inner", [("a", ("int", 1))]),
                      ("struct", "Inner", [("a", ("int", 2)), ("b", ("str", "x"))]),
                      ("struct", "Sub", [("a", ("int", 3))])],
            "Sub": [("struct", "Sub", [("a", ("int", 3))]), ("struct", "Sub", [("a", ("int", 4)), ("c", ("int", 5))])],
            "Other": [("struct", "Other", [("a", ("int", 1))])],
        }

    def close(self):
        sys.modules.pop(self.modname, None)

    def set_factory(self, key, value):
        self.fact_now[key] = value
        self.ns["_FACT"][key] = G.unreify(value, self.classes)

    def reset_factories(self):
        for c in self.asts:
            for fd in c["fields"]:
                if fd.get("factory") is not None:
                    self.set_factory(fd["factory"], fd["default"])

    def overrides_now(self):
        """[(class, field, value)] for every class whose (own or inherited) field has a factory default."""
        out = []
        for c in self.asts:
            for fd in self.all_fields(c["name"]):
                if fd.get("factory") is not None and repr(self.fact_now[fd["factory"]]) != repr(fd["default"]):
                    out.append((c["name"], fd["name"], self.fact_now[fd["factory"]]))
        return out

    def resolved(self, name):
        """As structgen.Context.resolved, but `_additional_properties` is read the way
        Structure.__setattr__ reads it (getattr: inherited from the base class), since that is what
        decides whether an undeclared attribute is stored.  (make_signature and the deserializer look
        at the class's own __dict__ only: a subclass of a closed class that does not repeat the
        setting accepts **kwargs in its signature and then fails in __setattr__ with ValueError
        instead of TypeError - the same rejection up to the error class.)"""
        r = super().resolved(name)
        from typedpy.structures import TypedPyDefaults
        cls = self.classes[name]
        r["additional"] = bool(getattr(cls, "_additional_properties",
                                       getattr(cls, "_additionalProperties", TypedPyDefaults.additional_properties_default)))
        return r


# ------------------------------------------------------------------ generation of environments

SCALAR_T = ("num", "str", "bool", "enumlit")


def add_defaults(rnd, c, ctx_instances):
    """Defaults on scalar fields: constants (falsy ones and ones that need conversion included: 0, '', False, an int
    for a Float, 'True' for a Boolean, a member NAME for an Enum), now and then a falsy constant that may violate
    the declaration (typedpy examines a default at definition time only `if default:`), and default FACTORIES
    (`default=<callable>`, called for every new instance; the value it returns is fixed per chain)."""
    for fd in c["fields"]:
        f = fd["field"]
        if f["t"] in SCALAR_T and rnd.random() < 0.38:
            v = G.gen_valid(rnd, f, ctx_instances)
            if f["t"] == "num" and not G.num_ok(f, v):
                continue
            r = rnd.random()
            if r < 0.12:
                v = rnd.choice([("int", 0), ("flt", 0, 0), ("str", ""), ("bool", False)])    # falsy, valid or not
            if v[0] in ("none", "tuple", "other"):
                continue
            fd["default"] = v
            if r > 0.7:
                fd["factory"] = "%s.%s" % (c["name"], fd["name"])


def factory_fields(env):
    return [(fd["factory"], fd) for c in env for fd in c["fields"] if fd.get("factory") is not None]


def featured(rnd):
    """Declarations that exercise the places where validation is delegated (items of a Set given as
    set or frozenset, options of a multi-field wrapper, values of a Map)."""
    scalar = lambda: G.gen_field(rnd, 9, classes=(), max_depth=0)
    hscalar = lambda: G.gen_field(rnd, 9, classes=(), max_depth=0, hashable=True)
    r = rnd.random()
    if r < 0.35:
        return {"t": "set", "imm": rnd.random() < 0.4, "item": hscalar(), "sz": G.gen_sz(rnd)}
    if r < 0.45:
        # an option that converts (int -> float) in front of one that keeps the value
        flt = {"t": "num", "k": "Float", "s": rnd.choice(["Any", "Negative", "Positive"])}
        flt.update(G.gen_numc(rnd, "Float"))
        return {"t": "anyof", "fs": [flt, {"t": "num", "k": "Integer", "s": "Any"}] + ([scalar()] if rnd.random() < 0.3 else [])}
    if r < 0.6:
        return {"t": "anyof", "fs": [scalar() for _ in range(rnd.randint(2, 3))]}
    if r < 0.75:
        return {"t": "seqeach", "k": "list", "item": {"t": "anyof", "fs": [scalar(), scalar()]},
                "sz": [None, None], "uniq": False}
    if r < 0.9:
        return {"t": "mapkv", "kf": {"t": "str"}, "vf": {"t": "set", "imm": False, "item": hscalar(), "sz": [None, None]},
                "sz": [None, None]}
    return {"t": rnd.choice(["oneof", "allof"]), "fs": [scalar() for _ in range(2)]}


def freeze_some(rnd, v):
    """Randomly turns sets of a reified value into frozensets (both are accepted by Set fields)."""
    t = v[0]
    if t == "set":
        return ("set", v[1] or rnd.random() < 0.5, v[2])
    if t in ("list", "deque"):
        return (t, [freeze_some(rnd, x) for x in v[1]])
    if t == "dict":
        return ("dict", [(k, freeze_some(rnd, x)) for k, x in v[1]])
    return v


def gen_env(rnd, idx, max_depth):
    """Four related classes with names unique in this process:
       A: generated; B(A): subclass adding fields; C: shares some field names with A; H: holds an A."""
    base_names = ["Inner", "Sub", "Other"]
    pre = "K%d_%d" % (core.seed(), idx)
    a = S.gen_class(rnd, pre + "A", ctx_names=base_names, container_bias=0.35, immutable=rnd.random() < 0.15,
                    max_depth=max_depth)
    if rnd.random() < 0.6:
        a["fields"].append({"name": "g", "field": featured(rnd)})
    add_defaults(rnd, a, None)
    if a.get("required") is not None and rnd.random() < 0.3:
        a["spell_optional"] = True       # `_optional = [...]`, the other documented spelling
    b = S.gen_class(rnd, pre + "B", ctx_names=base_names, n_fields=rnd.randint(1, 2), container_bias=0.3,
                    max_depth=max_depth, allow_hook=False)
    for i, fd in enumerate(b["fields"]):
        fd["name"] = "s%d" % i
    b["base"] = a["name"]
    b["immutable"] = a.get("immutable")
    b.pop("required", None)
    if a.get("required") is not None and rnd.random() < 0.6:
        b["required"] = sorted(set(a["required"]) | set(fd["name"] for fd in b["fields"] if rnd.random() < 0.5))
    b["additional"] = a.get("additional") if rnd.random() < 0.7 else rnd.choice([False, True, None])
    b["ignore_none"] = a.get("ignore_none")
    cfields = []
    for fd in a["fields"]:
        r = rnd.random()
        if r < 0.55:
            cfields.append({"name": fd["name"], "field": fd["field"]})
        elif r < 0.75:
            cfields.append({"name": fd["name"], "field": G.gen_field(rnd, 1, classes=base_names, max_depth=max_depth)})
    cfields.append({"name": "own", "field": G.gen_field(rnd, 1, classes=base_names, max_depth=max_depth)})
    names = [fd["name"] for fd in cfields]
    c = {"name": pre + "C", "fields": cfields, "immutable": False,
         "additional": rnd.choice([False, True, None]), "ignore_none": rnd.random() < 0.4}
    if rnd.random() < 0.6:
        c["required"] = sorted(rnd.sample(names, rnd.randint(0, len(names))))
    h = {"name": pre + "H", "fields": [{"name": "p", "field": {"t": "ref", "cls": a["name"]}},
                                       {"name": "n", "field": {"t": "num", "k": "Integer", "s": "Any"}}],
         "required": ["p"], "additional": False, "immutable": rnd.random() < 0.3}
    return [a, b, c, h]


# ------------------------------------------------------------------ generation of chains

def no_objects(v):
    """`object()` instances compare by identity, which reification does not preserve (two of them in a
    uniqueItems collection are distinct for Python and equal for the model): use a value-equal
    stand-in of another 'foreign' type instead."""
    t = v[0]
    if t == "other" and v[1] == "object":
        return ("other", "complex", "")
    if t in ("list", "tuple", "deque"):
        return (t, [no_objects(x) for x in v[1]])
    if t == "set":
        return G.mk_set(v[1], [no_objects(x) for x in v[2]])
    if t == "dict":
        return G.mk_dict([(no_objects(k), no_objects(x)) for k, x in v[1]])
    return v


def gen_kw(rnd, c_ast, ctx, fields, mode):
    """[(name, reified value)] for the fields `fields` of a class."""
    kw = []
    req = ctx.resolved(c_ast["name"])["required"]
    for fd in fields:
        needed = fd["name"] in req
        if needed or rnd.random() < 0.65:
            try:
                v = G.gen_valid(rnd, fd["field"], ctx.instances)
            except Exception:  # noqa generator limitation
                v = G.gen_any(rnd)
            kw.append([fd["name"], freeze_some(rnd, v)])
    if mode == "valid" or not kw:
        pass
    elif mode == "corrupt":
        i = rnd.randrange(len(kw))
        fd = [f for f in fields if f["name"] == kw[i][0]][0]
        try:
            if rnd.random() < 0.5:
                # a value ON or JUST OUTSIDE the acceptance boundary of the declaration governing one
                # (possibly nested) position: harness/c01lat.py
                kw[i][1] = freeze_some(rnd, L.corrupt_near(rnd, fd["field"], kw[i][1]))
            else:
                kw[i][1] = freeze_some(rnd, G.corrupt(rnd, fd["field"], kw[i][1], ctx.instances))
        except Exception:  # noqa
            kw[i][1] = G.gen_any(rnd)
    elif mode == "none":
        kw[rnd.randrange(len(kw))][1] = ("none",)
    elif mode == "missing":
        kw.pop(rnd.randrange(len(kw)))
    elif mode == "extra":
        kw.append(["zz", G.gen_any(rnd)])
    elif mode == "any":
        kw[rnd.randrange(len(kw))][1] = G.gen_any(rnd)
    return [(k, no_objects(v)) for k, v in kw]


MODES = ["valid"] * 11 + ["corrupt"] * 5 + ["none", "missing", "extra", "any"]


def json_shaped(r, top=True):
    t = r[0]
    if t in ("bool", "int", "flt", "str"):
        return True
    if t == "list":
        return all(json_shaped(x, False) for x in r[1])
    if t == "dict":
        return all(k[0] == "str" and json_shaped(v, False) for k, v in r[1])
    return False


def flat_field(f):
    t = f["t"]
    if t in ("num", "str", "bool"):
        return True
    if t == "seqeach" and f["k"] == "list":
        return f["item"]["t"] in ("num", "str", "bool")
    if t == "mapkv":
        return f["kf"]["t"] == "str" and f["vf"]["t"] in ("num", "str", "bool")
    return False


# the two public APIs, with and without an explicit keep_undefined
DESER_APIS = ["Deserializer", "deserialize_structure", "Deserializer", "deserialize_structure",
              "Deserializer/ku=True", "Deserializer/ku=False", "deserialize_structure/ku=False"]


def deser_call(api, cls, doc):
    from typedpy import Deserializer, deserialize_structure
    name, _, opt = api.partition("/ku=")
    kw = {} if not opt else {"keep_undefined": opt == "True"}
    if name == "Deserializer":
        return Deserializer(cls).deserialize(doc, **kw)
    return deserialize_structure(cls, doc, **kw)


def deser_src(api, cls_name, doc_src):
    name, _, opt = api.partition("/ku=")
    extra = "" if not opt else ", keep_undefined=%s" % opt
    if name == "Deserializer":
        return "x = Deserializer(%s).deserialize(%s%s)" % (cls_name, doc_src, extra)
    return "x = deserialize_structure(%s, %s%s)" % (cls_name, doc_src, extra)


def gen_chain(rnd, ctx, env):
    """A chain of 1-4 entries (JSON-able lists); class names refer to ctx."""
    a, b, c, h = env
    by = {x["name"]: x for x in env}
    start = rnd.choice([a, a, b, c])
    chain = []
    # what each default factory of the environment returns during this chain: a conforming value, or one on / just
    # outside the boundary of the declaration (the factory was sampled ONCE, with a conforming value, at definition)
    for key, fd in factory_fields(env):
        r0 = rnd.random()
        if r0 < 0.35:
            chain.append(["factory", key, G.gen_valid(rnd, fd["field"], ctx.instances)])
        elif r0 < 0.7:
            chain.append(["factory", key, no_objects(rnd.choice(L.near(fd["field"])))])
    mode = rnd.choice(MODES)
    fields = ctx.all_fields(start["name"])
    kw = gen_kw(rnd, start, ctx, fields, mode)
    if mode == "valid":
        # "valid by construction" is only an intention of the generators: retry a few times
        for _ in range(8):
            try:
                ctx.classes[start["name"]](**{k: G.unreify(v, ctx.classes) for k, v in kw})
                break
            except Exception:  # noqa
                kw = gen_kw(rnd, start, ctx, fields, mode)
    r = rnd.random()
    if r < 0.62:
        chain.append(["ctor", start["name"], kw])
    elif r < 0.80:
        # deserialization of a document = the keyword arguments as a dict
        flat = all(flat_field(fd["field"]) for fd in fields) and all(json_shaped(v) for _, v in kw) \
            and all(k != "zz" for k, _ in kw)
        chain.append(["deser", start["name"], kw, rnd.choice(DESER_APIS), bool(flat)])
    elif r < 0.92:
        chain.append(["deser_ser", start["name"], kw, rnd.choice(["Deserializer", "deserialize_structure"]),
                      rnd.random() < 0.3])
    elif r < 0.96:
        chain.append(["from_mapping", start["name"], kw, []])
    else:
        # the documented use of from_other_class: any object that has the attributes
        chain.append(["from_object", start["name"], kw, [], [fd["name"] for fd in fields]])
    cur = start["name"]
    for _ in range(rnd.choice([0, 1, 1, 2, 2, 3, 3])):
        cur_ast = by[cur]
        fields = ctx.all_fields(cur)
        r = rnd.random()
        if r < 0.22:
            m = rnd.choice(MODES)
            over = gen_kw(rnd, cur_ast, ctx, rnd.sample(fields, min(len(fields), rnd.randint(0, 2))), m)
            chain.append(["clone", over])
        elif r < 0.40:
            if cur in (a["name"], b["name"]):
                tgt = rnd.choice([a["name"], b["name"], b["name"], a["name"], c["name"]])
            else:
                tgt = rnd.choice([a["name"], cur, h["name"]])
            chain.append(["cast", tgt])
            cur = tgt
        elif r < 0.58:
            tgt = rnd.choice([x for x in (a, b, c)])
            tf = ctx.all_fields(tgt["name"])
            m = rnd.choice(MODES)
            over = gen_kw(rnd, tgt, ctx, rnd.sample(tf, min(len(tf), rnd.randint(0, 2))), m) \
                if rnd.random() < 0.6 else []
            chain.append(["from_other", tgt["name"], over])
            cur = tgt["name"]
        elif r < 0.66 and cur in (a["name"], b["name"]):
            chain.append(["wrap", h["name"], "p", [("n", ("int", rnd.randint(0, 5)))] if rnd.random() < 0.5 else []])
            cur = h["name"]
        elif r < 0.77:
            chain.append(["copy"])
        elif r < 0.89:
            chain.append(["deepcopy"])
        else:
            chain.append(["pickle"])
    return chain


# ------------------------------------------------------------------ running on the real typedpy

def run_step(ctx, cur, en):
    """Applies one entry to the real instance `cur` (or None).  Returns the new real instance."""
    from typedpy import Deserializer, Serializer, deserialize_structure
    kind = en[0]
    real = lambda kw: {k: G.unreify(v, ctx.classes) for k, v in kw}
    if kind == "ctor":
        return ctx.classes[en[1]](**real(en[2]))
    if kind == "deser":
        return deser_call(en[3], ctx.classes[en[1]], real(en[2]))
    if kind == "deser_ser":
        # document = serialization of a real instance (when it can be built), optionally with one
        # entry replaced
        cls = ctx.classes[en[1]]
        inst = cls(**real(en[2]))
        doc = Serializer(inst).serialize()
        if en[4] and doc:
            k = sorted(doc)[0]
            doc[k] = [doc[k]]
        return deser_call(en[3], cls, doc)
    if kind == "from_mapping":
        return ctx.classes[en[1]].from_other_class(real(en[2]), **real(en[3]))
    if kind == "from_object":
        return ctx.classes[en[1]].from_other_class(types.SimpleNamespace(**real(en[2])), **real(en[3]))
    if kind == "from_other":
        return ctx.classes[en[1]].from_other_class(cur, **real(en[2]))
    if kind == "clone":
        return cur.shallow_clone_with_overrides(**real(en[1]))
    if kind == "cast":
        return cur.cast_to(ctx.classes[en[1]])
    if kind == "wrap":
        kw = real(en[3])
        kw[en[2]] = cur
        return ctx.classes[en[1]](**kw)
    if kind == "ctor_attr":
        # Cls(attr=cur.attr): the stored (possibly wrapper) object of another instance handed to a constructor
        return ctx.classes[en[1]](**{en[2]: getattr(cur, en[2])})
    if kind == "mapping_attr":      # Cls.from_other_class({attr: cur.attr}): the LIVE stored object in a mapping
        return ctx.classes[en[1]].from_other_class({en[2]: getattr(cur, en[2])})
    if kind == "object_attr":       # ... as an attribute of a foreign object
        return ctx.classes[en[1]].from_other_class(types.SimpleNamespace(**{en[2]: getattr(cur, en[2])}))
    if kind == "deser_attr":        # ... as a value of a document
        return deser_call(en[3], ctx.classes[en[1]], {en[2]: getattr(cur, en[2])})
    if kind == "copy":
        return copy.copy(cur)
    if kind == "deepcopy":
        return copy.deepcopy(cur)
    if kind == "pickle":
        return pickle.loads(pickle.dumps(cur))
    raise ValueError(en)


PLAIN_MUTABLE = (list, dict, set, __import__("collections").deque)


def corrupt_in_place(obj, bad, depth=0):
    """Alters IN PLACE the first container reachable from `obj` that typedpy hands out unwrapped (a plain python
    set / list / dict / deque: the stored value itself, an element of a wrapper, a tuple or a frozenset, a dict
    value): adds `bad` to it.  Returns a description of what was done, or None."""
    if depth > 6:
        return None
    if type(obj) in PLAIN_MUTABLE:
        try:
            if type(obj) is set:
                obj.add(bad)
            elif type(obj) is dict:
                obj["zz"] = bad
            else:
                obj.append(bad)
            return type(obj).__name__
        except TypeError:
            return None
    if isinstance(obj, dict):
        children = list(obj.values()) + list(obj.keys())
    elif isinstance(obj, (list, tuple, set, frozenset, PLAIN_MUTABLE[3])):
        children = list(obj)
    else:
        return None
    for ch in children:
        r = corrupt_in_place(ch, bad, depth + 1)
        if r:
            return r
    return None


def raised_in_deepcopy(ex):
    """The exception came out of Structure.__deepcopy__ (directly, or through the defensive copy an
    immutable structure / cast_to makes): re-assignment under `_skip_validation` makes OneOf/NotField
    options 'match'.  No instance is yielded; copying is C11's subject."""
    seen = 0
    while ex is not None and seen < 10:
        tb = ex.__traceback__
        while tb is not None:
            co = tb.tb_frame.f_code
            if co.co_name == "__deepcopy__" and co.co_filename.endswith("structures.py"):
                return True
            tb = tb.tb_next
        ex = ex.__cause__ or ex.__context__     # Structure.__init__ re-raises `from e`
        seen += 1
    return False


def has_nested_extras(ctx, r, top=True):
    """Some Structure instance nested inside r carries an attribute that is not a declared field."""
    t = r[0]
    if t == "struct":
        if not top:
            try:
                names = set(fd["name"] for fd in ctx.all_fields(r[1]))
            except KeyError:
                names = set()
            if any(k not in names for k, _ in r[2]):
                return True
        return any(has_nested_extras(ctx, v, False) for _, v in r[2])
    if t in ("list", "tuple", "deque"):
        return any(has_nested_extras(ctx, x, False) for x in r[1])
    if t == "set":
        return any(has_nested_extras(ctx, x, False) for x in r[2])
    if t == "dict":
        return any(has_nested_extras(ctx, k, False) or has_nested_extras(ctx, v, False) for k, v in r[1])
    return False


def run_chain(ctx, chain):
    """[(entry, reified cur, outcome, flags)] for every executed step."""
    steps = []
    cur = None
    cur_r = ("none",)
    ctx.reset_factories()
    for en in chain:
        if en[0] == "factory":
            ctx.set_factory(en[1], en[2])      # from now on the default factory `key` returns this value
            continue
        if en[0] == "corrupt":
            # the instance AGES: a container typedpy hands out unwrapped, reachable from field en[1], is altered in
            # place (no typedpy code runs); the current instance is re-reified so that the model sees what it is now
            if cur is not None and en[1] in cur.__dict__:
                corrupt_in_place(cur.__dict__[en[1]], G.unreify(en[2], ctx.classes))
                cur_r = reify(cur)
            continue
        flags = set()
        try:
            new = run_step(ctx, cur, en)
            out = ("ok", reify(new))
        except Exception as ex:  # noqa
            new = None
            out = ("raise", E.exn_name(ex))
            if raised_in_deepcopy(ex):
                flags.add("deepcopy-raised")
        if en[0] == "clone" and cur is not None and "_none_fields" not in cur.__dict__:
            # F7: an unpickled instance has no `_none_fields`; shallow_clone_with_overrides reads it.
            # The model does not track the bookkeeping attributes: spec only.
            flags.add("no-none-fields")
        if en[0] == "pickle" and has_nested_extras(ctx, cur_r):
            # __getstate__ of a NESTED instance drops its undeclared attributes too; the model's
            # pickle round trip is top-level only: spec only.
            flags.add("pickle-nested-extras")
        steps.append((en, cur_r, out, flags))
        ov = ctx.overrides_now()
        if ov:
            ctx.step_overrides[id(steps[-1])] = ov
        if out[0] != "ok" or out[1][0] != "struct":
            break
        cur, cur_r = new, out[1]
    return steps


# ------------------------------------------------------------------ emission

def kwlit(kw):
    return E.lst(["(%s, %s)" % (E.pstr(k), E.pval(v)) for k, v in kw])


def emit_entry(en, cur_r=None):
    """(Gallina entry, compare?)"""
    k = en[0]
    if k == "ctor_attr":
        held = dict(cur_r[2]).get(en[2]) if (cur_r and cur_r[0] == "struct") else None
        if held is None:
            return "(ECtor %s [])" % E.pstr(en[1]), False       # getattr fails / yields a default: not modelled
        return "(ECtor %s %s)" % (E.pstr(en[1]), kwlit([(en[2], held)])), True
    if k in ("mapping_attr", "object_attr", "deser_attr"):
        held = dict(cur_r[2]).get(en[2]) if (cur_r and cur_r[0] == "struct") else None
        if held is None:
            return "(ECtor %s [])" % E.pstr(en[1]), False
        if k == "mapping_attr":
            return "(EFromMapping %s %s [])" % (E.pstr(en[1]), kwlit([(en[2], held)])), True
        if k == "object_attr":
            return "(ECtor %s %s)" % (E.pstr(en[1]), kwlit([(en[2], held)])), True
        return "(EDeser %s %s)" % (E.pstr(en[1]), kwlit([(en[2], held)])), False
    if k == "ctor":
        return "(ECtor %s %s)" % (E.pstr(en[1]), kwlit(en[2])), True
    if k == "deser":
        return "(EDeser %s %s)" % (E.pstr(en[1]), kwlit(en[2])), bool(en[4])
    if k == "deser_ser":
        return "(EDeser %s %s)" % (E.pstr(en[1]), kwlit(en[2])), False
    if k == "from_mapping":
        return "(EFromMapping %s %s %s)" % (E.pstr(en[1]), kwlit(en[2]), kwlit(en[3])), True
    if k == "from_object":
        # attributes the object lacks are skipped (a mapping yields None for them): the constructor gets
        # exactly the keyword arguments, as for keyword construction
        # (attributes that are not fields of the class are not looked at)
        return "(ECtor %s %s)" % (E.pstr(en[1]), kwlit([p for p in en[2] if p[0] in en[4] and p[0] not in dict(en[3])]
                                                       + list(en[3]))), True
    if k == "from_other":
        return "(EFromOther %s %s)" % (E.pstr(en[1]), kwlit(en[2])), True
    if k == "clone":
        return "(EClone %s)" % kwlit(en[1]), True
    if k == "cast":
        return "(ECastTo %s)" % E.pstr(en[1]), True
    if k == "wrap":
        return "(EWrap %s %s %s)" % (E.pstr(en[1]), E.pstr(en[2]), kwlit(en[3])), True
    return {"copy": "ECopy", "deepcopy": "EDeepCopy", "pickle": "EPickle"}[k], True


def entry_values(en):
    out = []
    for part in en[1:]:
        if isinstance(part, (list, tuple)) and part and isinstance(part[0], (list, tuple)) and len(part[0]) == 2 \
                and isinstance(part[0][0], str):
            out += [v for _, v in part]
    return out


HEADER = """From Coq Require Import ZArith NArith String List Bool. Import ListNotations.
From TP Require Import Check.C01chk.
Local Open Scope string_scope.
"""

FNS = ("smismatch", "sviolation", "sunstable", "sin_dom", "sin_thm_dom", "sunmodelled", "scopy_raised", "sstricter")


def emit_env(ctxs):
    """One environment for a shard: the base classes once + the generated classes of each context."""
    defs = []
    seen = set()
    for ctx in ctxs:
        for c in ctx.asts:
            if c["name"] in seen:
                continue
            seen.add(c["name"])
            defs.append("\n  " + ctx.emit_classdef(c["name"]))
    return "Definition env0 : env := %s.\n" % E.lst(defs)


def all_env_fields(ctx):
    return [fd["field"] for c in ctx.asts for fd in c["fields"]]


def emit_case(ctx, step):
    en, cur_r, out, flags = step
    term, cmp_ = emit_entry(en, cur_r)
    cmp_ = cmp_ and not flags
    tbl = G.match_table(all_env_fields(ctx), entry_values(en) + [cur_r] + ([out[1]] if out[0] == "ok" else [])
                        + [v for _, _, v in ctx.step_overrides.get(id(step), [])]
                        + [fd["default"] for c in ctx.asts for fd in c["fields"] if fd.get("default") is not None])
    ov = ctx.step_overrides.get(id(step))
    envt = "env0" if not ov else "(override_defaults env0 %s)" % E.lst(
        ["(%s, %s, %s)" % (E.pstr(c), E.pstr(f), E.pval(v)) for c, f, v in ov])
    return "{| sc_tbl := %s; sc_env := %s; sc_cur := %s; sc_entry := %s; sc_cmp := %s; sc_obs := %s |}" % (
        G.emit_table(tbl), envt, E.pval(cur_r), term, E.blit(cmp_), E.outcome(out))


def evaluate(items, tag="c01", per=150, n_small=0, per_small=600):
    """items: [(ctx, step)].  Returns dict name -> index list.  The first n_small items (the lattice:
    tiny classes and values) go into larger shards: loading the libraries dominates a small shard."""
    shards = []
    starts = list(range(0, n_small, per_small)) + list(range(n_small, len(items), per))
    ends = starts[1:] + [len(items)]
    for s, e_ in zip(starts, ends):
        if s < n_small < e_:
            e_ = n_small
        chunk = items[s:e_]
        ctxs = []
        for ctx, _ in chunk:
            if ctx not in ctxs:
                ctxs.append(ctx)
        body = emit_env(ctxs)
        body += "Definition cases : list scase := %s.\n" % E.lst(["\n " + emit_case(ctx, st) for ctx, st in chunk])
        # one pass per case: the vector of the eight verdicts (Check/C01chk.v sflags; Check/C01chkProofs.v
        # proves it equal, component-wise, to the eight separately defined functions FNS)
        body += "Eval vm_compute in (map sflags cases).\n"
        shards.append((body, len(chunk), s))
    res = core.eval_cases([b for b, _, _ in shards], tag, HEADER)
    out = {fn: [] for fn in FNS}
    for si, (rc, so, se) in enumerate(res):
        vals = core.parse_eval(so)
        bits = re.findall(r"true|false", vals[0]) if (rc == 0 and len(vals) == 1) else []
        if len(bits) != len(FNS) * shards[si][1]:
            raise RuntimeError("case shard %d failed to evaluate: %s" % (si, (so + se)[-1500:]))
        for i in range(shards[si][1]):
            for j, fn in enumerate(FNS):
                if bits[i * len(FNS) + j] == "true":
                    out[fn].append(shards[si][2] + i)
    return out


def localise(cases, tag="c01loc"):
    """cases: [(ctx, step)] (violations).  For each: positions of the non-conforming attributes in the
    observed instance's attribute list (Check/C01chk.v sbad_attrs).  Only used to NAME a violation."""
    if not cases:
        return []
    if len(cases) > 100:
        return localise(cases[:100], tag) + localise(cases[100:], tag)
    ctxs = []
    for ctx, _ in cases:
        if ctx not in ctxs:
            ctxs.append(ctx)
    body = emit_env(ctxs)
    for i, (ctx, st) in enumerate(cases):
        body += "Definition lc%d : scase := %s.\nEval vm_compute in (sbad_attrs lc%d).\n" % (i, emit_case(ctx, st), i)
    try:
        (rc, so, se), = core.eval_cases([body], tag, HEADER)
        vals = core.parse_eval(so)
        if rc != 0 or len(vals) != len(cases):
            return [None] * len(cases)
        return [core.parse_nat_list(v) for v in vals]
    except Exception:  # noqa
        return [None] * len(cases)


def key_shape(f, depth=0):
    """Nested kind names of a declaration (no constraint values): names the input shape of a finding."""
    t = f["t"]
    if t == "num":
        return "num:" + f["k"]
    if t == "set" and f.get("imm"):
        t = "set:imm"
    if depth >= 3:
        return t
    subs = []
    for key in ("item", "kf", "vf"):
        if isinstance(f.get(key), dict):
            subs.append(key_shape(f[key], depth + 1))
    for key in ("items", "fs"):
        subs += [key_shape(g, depth + 1) for g in f.get(key) or []]
    return t + ("(" + ",".join(subs) + ")" if subs else "")


# ------------------------------------------------------------------ keys of findings

def find_collisions(f, v, acc):
    """Nodes of (declaration, stored value) where a collection-level constraint fails on the stored
    elements (Python-side; only used to NAME a violation the Coq spec found)."""
    t = f["t"]
    if t in ("seqeach", "seqpos", "tuple") and v[0] in ("list", "deque", "tuple"):
        items = v[1]
        if f.get("uniq") and len(G.dedup(list(items))) != len(items):
            acc.append("%s:uniqueItems" % t)
        if t == "seqeach":
            for x in items:
                find_collisions(f["item"], x, acc)
        else:
            gs = f["items"]
            if t == "tuple" and len(gs) == 1:
                gs = gs * len(items)
            for g, x in zip(gs, items):
                find_collisions(g, x, acc)
    elif t == "set" and v[0] == "set":
        lo, hi = f["sz"]
        if (lo is not None and len(v[2]) < lo) or (hi is not None and len(v[2]) > hi):
            acc.append("set:size")
        if f.get("item"):
            for x in v[2]:
                find_collisions(f["item"], x, acc)
    elif t == "mapkv" and v[0] == "dict":
        lo, hi = f["sz"]
        if (lo is not None and len(v[1]) < lo) or (hi is not None and len(v[1]) > hi):
            acc.append("mapkv:size")
        for k, x in v[1]:
            find_collisions(f["kf"], k, acc)
            find_collisions(f["vf"], x, acc)
    elif t == "anyof":
        sub = []
        for g in f["fs"]:
            s2 = []
            find_collisions(g, v, s2)
            sub.append(s2)
        hit = [s for s in sub if s]
        if hit and len(hit) == len(sub):
            acc += hit[0]
        elif hit:
            acc += ["anyof>" + x for x in hit[0]]
    return acc


def find_copy_conversions(f, before, after, acc):
    """Nodes where a copy made under `_skip_validation` changed a value held by an AnyOf field
    (the first option's __set__ converts without validating).  Python-side, only to NAME a violation."""
    t = f["t"]
    if repr(before) == repr(after):
        return acc
    if t == "anyof":
        acc.append("anyof:%s->%s" % (before[0], after[0]))
    elif t == "seqeach" and before[0] == after[0] and before[0] in ("list", "deque") and len(before[1]) == len(after[1]):
        for x, y in zip(before[1], after[1]):
            find_copy_conversions(f["item"], x, y, acc)
    elif t in ("seqpos", "tuple") and before[0] == after[0] and before[0] in ("list", "deque", "tuple") \
            and len(before[1]) == len(after[1]):
        gs = f["items"] * len(before[1]) if (t == "tuple" and len(f["items"]) == 1) else f["items"]
        for g, x, y in zip(gs, before[1], after[1]):
            find_copy_conversions(g, x, y, acc)
    elif t == "mapkv" and before[0] == after[0] == "dict" and len(before[1]) == len(after[1]):
        for (k1, x), (k2, y) in zip(before[1], after[1]):
            find_copy_conversions(f["kf"], k1, k2, acc)
            find_copy_conversions(f["vf"], x, y, acc)
    else:
        acc.append("%s:changed" % t)
    return acc


def copied_pair(step):
    """(before, after) reified structs when the step copies the current instance: deepcopy / copy /
    pickle directly, cast_to and nesting into an immutable structure through a defensive deepcopy."""
    en, cur_r, out, _flags = step
    if cur_r[0] != "struct" or out[0] != "ok" or out[1][0] != "struct":
        return None
    if en[0] in ("deepcopy", "copy", "pickle"):
        return cur_r, out[1]
    if en[0] == "wrap":
        nested = dict(out[1][2]).get(en[2])
        if nested and nested[0] == "struct":
            return cur_r, nested
    return None


def default_origin(ctx, step, name):
    """The non-conforming attribute `name` was NOT supplied by the caller of the entry point and its declaration has
    a default: which kind ("factory" | "falsy-constant" | "constant"), else None.  Only used to NAME a violation: a
    falsy constant default is never examined at class definition (`if default:` in Field.__init__, a listed
    definition-level finding), a factory's later values cannot be - different root causes, different keys."""
    en, cur_r, out, _fl = step
    try:
        fd = next((f for f in ctx.all_fields(out[1][1]) if f["name"] == name), None)
    except KeyError:
        return None
    if fd is None or fd.get("default") is None:
        return None
    k = en[0]
    cur_names = set(n for n, _ in cur_r[2]) if cur_r[0] == "struct" else set()
    given = lambda kw: set(n for n, v in kw if v != ("none",))
    if k in ("ctor", "deser", "deser_ser"):
        supplied = given(en[2])
    elif k in ("from_mapping", "from_object"):
        supplied = given(en[2]) | given(en[3])
    elif k == "clone":
        supplied = given(en[1]) | cur_names
    elif k == "from_other":
        supplied = given(en[2]) | cur_names
    elif k == "cast":
        supplied = cur_names
    elif k == "wrap":
        supplied = given(en[3]) | {en[2]}
    elif k in ("ctor_attr", "mapping_attr", "object_attr", "deser_attr"):
        supplied = {en[2]}
    else:
        return None
    if name in supplied:
        return None
    if fd.get("factory") is not None:
        return "factory"
    try:
        return "constant" if G.unreify(fd["default"], ctx.classes) else "falsy-constant"
    except Exception:  # noqa
        return "constant"


def violation_key(ctx, step, unstable, bad=None):
    en, cur_r, out, _flags = step
    inst = out[1]
    kind = en[0]
    pair = copied_pair(step)
    if pair and not unstable:
        before, after = pair
        try:
            fields = {fd["name"]: fd["field"] for fd in ctx.all_fields(before[1])}
        except KeyError:
            fields = {}
        b, a = dict(before[2]), dict(after[2])
        acc = []
        for k in fields:
            if k in b and k in a:
                find_copy_conversions(fields[k], b[k], a[k], acc)
        if acc and all(x.startswith("anyof:") for x in acc) and set(b) == set(a):
            return "C01/skip-validation-copy/%s/%s" % (kind, sorted(set(acc))[0])
    if unstable and inst[0] == "struct":
        try:
            fields = {fd["name"]: fd["field"] for fd in ctx.all_fields(inst[1])}
        except KeyError:
            fields = {}
        acc = []
        for k, v in inst[2]:
            if k in fields:
                find_collisions(fields[k], v, acc)
        if acc:
            return "C01/normalised-collision/" + sorted(set(a.split(">")[-1] for a in acc))[0]
        return "C01/normalised-collision/unlocated/" + kind
    if kind == "deser" and inst[0] == "struct" and bad:
        # the listed normalisation-collision defect reached through the deserializer's own conversion of the
        # document (a JSON list for a Deque/Set/Tuple field: the model's [stable] clause looks at the constructor's
        # argument, which the document is not): the collection-level constraint holds of the SUPPLIED elements
        # (as Python compares them) and fails of the stored, converted ones
        try:
            decl0 = {fd["name"]: fd["field"] for fd in ctx.all_fields(inst[1])}
            acc = []
            for i in bad:
                if i < len(inst[2]) and inst[2][i][0] in decl0:
                    n0, stored = inst[2][i]
                    supplied = dict((k0, v0) for k0, v0 in en[2]).get(n0)
                    got = find_collisions(decl0[n0], stored, [])
                    if got and supplied is not None and not find_collisions(decl0[n0], supplied, []):
                        acc += got
            if acc and len(acc) >= len([i for i in bad if i < len(inst[2])]):
                return "C01/normalised-collision/" + sorted(set(a.split(">")[-1] for a in acc))[0]
        except KeyError:
            pass
    extra = ""
    where = ""
    if inst[0] == "struct":
        try:
            decl = {fd["name"]: fd["field"] for fd in ctx.all_fields(inst[1])}
            und = [k for k, _ in inst[2] if k not in decl]
            if und:
                extra = "/attrs:" + ",".join(sorted(k if k.startswith("_") else "<extra>" for k in und))
            if bad is not None:
                shapes = sorted(set(key_shape(decl[inst[2][i][0]]) for i in bad
                                    if i < len(inst[2]) and inst[2][i][0] in decl))
                # which declaration the stored value does not conform to; none located: _required, the
                # __validate__ hook, or an instance nested inside
                where = "/" + (shapes[0] if shapes else ("undeclared" if und else "required-hook-or-nested"))
                origins = sorted(set(o for o in (default_origin(ctx, step, inst[2][i][0]) for i in bad
                                                 if i < len(inst[2]) and inst[2][i][0] in decl) if o))
                if origins:
                    where += "/omitted-default:" + origins[0]
        except KeyError:
            pass
    return "C01/invalid-instance/%s%s%s" % (kind, where, extra)


def python_src(ctx, chain, env=None):
    src = ctx.source() if env is None else "".join(L.class_src(c) + "\n" for c in [dict(c) for c in ctx.BASE] + list(env))
    fact0 = {fd["factory"]: fd["default"] for c in (ctx.asts if env is None else env) for fd in c["fields"]
             if fd.get("factory") is not None}
    pre = ""
    if fact0:
        pre = ("_FACT = {%s}\ndef _fact(key):\n    return lambda: _FACT[key]     # a default FACTORY: called for every new instance\n"
               % ", ".join("%r: %s" % (k, G.py_src(v)) for k, v in sorted(fact0.items())))
    lines = [G.IMPORTS, "import copy, pickle\nfrom typedpy import Deserializer, Serializer, deserialize_structure\n",
             pre + src, "x = None"]
    for en in chain:
        k = en[0]
        if k == "factory":
            lines.append("_FACT[%r] = %s     # what the default factory returns from now on" % (en[1], G.py_src(en[2])))
            continue
        kws = lambda kw: ", ".join("%s=%s" % (n, G.py_src(v)) for n, v in kw)
        d = lambda kw: "{" + ", ".join("%r: %s" % (n, G.py_src(v)) for n, v in kw) + "}"
        if k == "ctor":
            lines.append("x = %s(%s)" % (en[1], kws(en[2])))
        elif k == "deser":
            lines.append(deser_src(en[3], en[1], d(en[2])))
        elif k == "deser_ser":
            lines.append("doc = Serializer(%s(%s)).serialize()" % (en[1], kws(en[2])))
            if en[4]:
                lines.append("k = sorted(doc)[0]; doc[k] = [doc[k]]")
            lines.append(deser_src(en[3], en[1], "doc"))
        elif k == "from_mapping":
            lines.append("x = %s.from_other_class(%s%s)" % (en[1], d(en[2]), "".join(", " + kws([p]) for p in en[3])))
        elif k == "from_object":
            lines.append("import types\nx = %s.from_other_class(types.SimpleNamespace(**%s)%s)" % (
                en[1], d(en[2]), "".join(", " + kws([p]) for p in en[3])))
        elif k == "from_other":
            lines.append("x = %s.from_other_class(x%s)" % (en[1], "".join(", " + kws([p]) for p in en[2])))
        elif k == "clone":
            lines.append("x = x.shallow_clone_with_overrides(%s)" % kws(en[1]))
        elif k == "cast":
            lines.append("x = x.cast_to(%s)" % en[1])
        elif k == "wrap":
            lines.append("x = %s(%s)" % (en[1], ", ".join(([kws(en[3])] if en[3] else []) + ["%s=x" % en[2]])))
        elif k == "ctor_attr":
            lines.append("x = %s(%s=x.%s)" % (en[1], en[2], en[2]))
        elif k == "mapping_attr":
            lines.append("x = %s.from_other_class({%r: x.%s})" % (en[1], en[2], en[2]))
        elif k == "object_attr":
            lines.append("import types\nx = %s.from_other_class(types.SimpleNamespace(%s=x.%s))" % (en[1], en[2], en[2]))
        elif k == "deser_attr":
            lines.append(deser_src(en[3], en[1], "{%r: x.%s}" % (en[2], en[2])))
        elif k == "corrupt":
            lines.append("from harness.props.c01 import corrupt_in_place\n"
                         "corrupt_in_place(x.__dict__[%r], %s)     # an unwrapped inner container, altered in place"
                         % (en[1], G.py_src(en[2])))
        elif k == "copy":
            lines.append("x = copy.copy(x)")
        elif k == "deepcopy":
            lines.append("x = copy.deepcopy(x)")
        elif k == "pickle":
            lines.append("x = pickle.loads(pickle.dumps(x))")
    lines.append("print(type(x).__name__, {k: v for k, v in x.__dict__.items() if k not in ('_instantiated', '_none_fields')})")
    return "\n".join(lines) + "\n"


def replay(obj):
    ctx = Ctx(obj["env"])
    try:
        steps = run_chain(ctx, obj["chain"])
        for en, cur_r, out, _flags in steps:
            print("step    :", en, sorted(_flags))
            print("observed:", out if out[0] == "raise" else ("ok", out[1][1], [(k, G.py_src(v)) for k, v in out[1][2]])
                  if out[1][0] == "struct" else out)
        print("--- python ---")
        print(obj.get("python", ""))
        try:
            r = evaluate([(ctx, st) for st in steps], tag="c01replay")
        except RuntimeError as ex:
            print(ex)
            return 2
        print("spec (inst_ok/deep_valid on the observed instance) violated at steps:" if r["sviolation"]
              else "spec satisfied at every step", r["sviolation"], "| model mismatch at steps:", r["smismatch"])
        return 1 if (r["sviolation"] or r["smismatch"]) else 0
    finally:
        ctx.close()


def enums_def():
    out = []
    for n in sorted(G.ENUMS):
        cls = G.ENUMS[n]
        out.append("{| en_name := %s; en_by_value := false; en_members := %s |}" % (
            E.pstr(n), E.lst(["(%s, %s)" % (E.pstr(m.name), E.pval(E.reify(m.value))) for m in cls])))
    return "Definition ens0 : enums := %s.\n" % E.lst(out)


def deser_ku(api):
    """keep_undefined as the model's `option bool` / bool: Deserializer.deserialize defaults to None (adjusted by
    the class), deserialize_structure to True."""
    name, _, opt = api.partition("/ku=")
    if opt:
        return "(Some %s)" % E.blit(opt == "True")
    return "None" if name == "Deserializer" else "(Some true)"


def deser_doc_cases(items):
    """The `deser` steps whose document is JSON-shaped, as (index, ctx, step): compared with the model of the
    REAL pre-processing (Ser/Deserialize.v deserialize = what C01_deser_* are about), not only with the
    constructor on pre-computed keyword arguments."""
    from typedpy.structures import TypedPyDefaults
    out = []
    for i, (ctx, st) in enumerate(items):
        en = st[0]
        if en[0] != "deser" or not all(L.json_shaped(v) for _, v in en[2]):
            continue
        cls = ctx.classes[en[1]]
        own = bool(cls.__dict__.get("_additional_properties", cls.__dict__.get(
            "_additionalProperties", TypedPyDefaults.additional_properties_default)))
        if own != ctx.resolved(en[1])["additional"]:
            continue      # the deserializer reads the class's OWN setting, __setattr__ the inherited one
        out.append((i, ctx, st))
    return out


def evaluate_deser(cases, tag="c01deser", per=300):
    """-> {name: [positions in cases]} for mismatch / in_dom / declines / model_unsound."""
    from typedpy.structures import TypedPyDefaults
    names = ("mismatch", "in_dom", "declines", "model_unsound")
    flags = "{| df_ignore_invalid := %s; df_compact := %s |}" % (
        E.blit(bool(TypedPyDefaults.ignore_invalid_additional_properties_in_deserialization)),
        E.blit(bool(TypedPyDefaults.compact_deserialization_default)))
    shards = []
    for s in range(0, len(cases), per):
        chunk = cases[s:s + per]
        ctxs = []
        for _, ctx, _ in chunk:
            if ctx not in ctxs:
                ctxs.append(ctx)
        body = emit_env(ctxs) + enums_def()
        recs = []
        for _, ctx, st in chunk:
            en, cur_r, out, _fl = st
            doc = ("dict", [(("str", k), v) for k, v in en[2]])
            tbl = G.match_table(all_env_fields(ctx), [doc] + ([out[1]] if out[0] == "ok" else [])
                                + [v for _, _, v in ctx.step_overrides.get(id(st), [])]
                                + [fd["default"] for c in ctx.asts for fd in c["fields"] if fd.get("default") is not None])
            ov = ctx.step_overrides.get(id(st))
            envt = "env0" if not ov else "(override_defaults env0 %s)" % E.lst(
                ["(%s, %s, %s)" % (E.pstr(c), E.pstr(f), E.pval(v)) for c, f, v in ov])
            recs.append("{| dc_tbl := %s; dc_env := %s; dc_ens := ens0; dc_flags := %s; dc_ku := %s; dc_cls := %s; "
                        "dc_doc := %s; dc_obs := %s |}" % (
                            G.emit_table(tbl), envt, flags, deser_ku(en[3]),
                            E.pstr(en[1]), E.pval(doc), E.outcome(out)))
        body += "Definition dcases : list dcase := %s.\n" % E.lst(["\n " + r for r in recs])
        body += "Eval vm_compute in (map dflags_of dcases).\n"
        shards.append((body, len(chunk), s))
    res = core.eval_cases([b for b, _, _ in shards], tag, HEADER)
    out = {n: [] for n in names}
    for si, (rc, so, se) in enumerate(res):
        vals = core.parse_eval(so)
        bits = re.findall(r"true|false", vals[0]) if (rc == 0 and len(vals) == 1) else []
        if len(bits) != len(names) * shards[si][1]:
            raise RuntimeError("deser shard %d failed to evaluate: %s" % (si, (so + se)[-1500:]))
        for i in range(shards[si][1]):
            for j, n in enumerate(names):
                if bits[i * len(names) + j] == "true":
                    out[n].append(shards[si][2] + i)
    return out


def site_status(rep):
    """Today's entry-site table (Gen/EntrySites.v, regenerated from the working tree): which rows the
    model predicts to be holes (Check/C01chk.v unsafe_site_kinds, evaluated in Coq)."""
    from harness.genmods import c01_entry_sites as ES
    kinds = ["deserialize", "from_other_class(instance)", "from_other_class(mapping)", "shallow_clone_with_overrides",
             "cast_to", "copy", "deepcopy", "pickle"]
    rows, absent = ES.analyse()
    table = {n: [k if isinstance(k, str) else "%s %s" % k for k in ks] for n, ks in rows}
    rep.cov["entry_sites"] = {"rows": table, "default_unpickle": absent}
    try:
        (rc, so, se), = core.eval_cases(["Eval vm_compute in unsafe_site_kinds.\n"], "c01sites", HEADER)
        vals = core.parse_eval(so)
        if rc != 0 or len(vals) != 1:
            raise RuntimeError((so + se)[-800:])
        unsafe = [kinds[i] for i in core.parse_nat_list(vals[0])]
    except Exception as ex:  # noqa
        rep.obligation("entry-sites:today-safe", False, "could not evaluate: %s" % ex)
        return None
    rep.cov["entry_sites"]["unsafe"] = unsafe
    rep.obligation("entry-sites:today-safe", not unsafe,
                   "%d rows read off the source, all funnel into the validating constructor / recognised copy idioms" % len(rows)
                   if not unsafe else "rows not safe: %s; table: %s" % (unsafe, table))
    return unsafe


# ------------------------------------------------------------------ the check

def minimal_env(asts, chain):
    """The class ASTs a chain mentions (and their bases): keeps replay files small."""
    by = {a["name"]: a for a in asts}
    need = set()
    for en in chain:
        for part in en[1:]:
            if isinstance(part, str) and part in by:
                need.add(part)
    grew = True
    while grew:
        grew = False
        for n in list(need):
            b = by[n].get("base")
            if b in by and b not in need:
                need.add(b)
                grew = True
            for fd in by[n]["fields"]:
                stack = [fd["field"]]
                while stack:
                    f = stack.pop()
                    if f.get("t") == "ref" and f["cls"] in by and f["cls"] not in need:
                        need.add(f["cls"])
                        grew = True
                    for key in ("item", "kf", "vf"):
                        if isinstance(f.get(key), dict):
                            stack.append(f[key])
                    for key in ("items", "fs"):
                        stack += list(f.get(key) or [])
    return [a for a in asts if a["name"] in need]


def run(rep, tier):
    rnd = random.Random(core.seed() * 1000003 + 1)
    n_env = 160 if tier == "quick" else 1500
    per_env = 14 if tier == "quick" else 22
    max_depth = 2 if tier == "quick" else 3
    proofs_ok, model_ok = core.standard_proof_obligations(
        rep, "C01", ["theories/Check/C01chk.vo", "theories/Check/C01chkProofs.vo"])
    items = []       # (ctx, step)
    where = []       # (env asts, chain, step index)
    ctxs = []
    n_chains = 0
    rejected_envs = 0

    def add_chain(ctx, env, chain, stream, shape_key):
        steps = run_chain(ctx, chain)
        real_pos = [i for i, en_ in enumerate(chain) if en_[0] not in ("factory", "corrupt")]
        rep.stat(stream, "executed-length:%d" % len(steps))
        for si, st in enumerate(steps):
            en, cur_r, out, flags = st
            for fl in flags:
                rep.stat(stream, "not-compared:" + fl)
            items.append((ctx, st))
            where.append((env, chain[:real_pos[si] + 1], si))      # the chain up to and including this step
            okind = "ok" if out[0] == "ok" else out[1]
            rep.count(stream, 1, (en[0], okind, shape_key, len(en[1]) if en[0] == "clone" else 0))
            rep.stat(stream, "entry:" + en[0])
            rep.stat(stream, "outcome:" + okind)
        return steps

    import time as _time
    _t = {"start": _time.time()}
    # ---- stream 1: the boundary lattice, every near-miss value through every entry point (deterministic)
    n_lat = 0
    lat_decl = 0
    for pre, asts, build in L.lattice(tier, core.seed()):
        try:
            ctx = Ctx(asts)
        except Exception as ex:  # noqa   a lattice declaration the library refuses to define
            rep.stat("lattice", "group-rejected:" + type(ex).__name__)
            continue
        ctxs.append(ctx)
        lat_decl += len(asts) - 1

        def find_good(cname, cands, ctx=ctx):
            for x in cands:
                try:
                    ctx.classes[cname](f=G.unreify(x, ctx.classes))
                    return x
                except Exception:  # noqa
                    continue
            return None
        for wname, leaf_shape, chain in build(find_good):
            add_chain(ctx, minimal_env(asts, chain), chain, "lattice", (wname, leaf_shape))
            rep.stat("lattice", "wrapper:" + wname)
            n_lat += 1
    rep.cov["streams"].setdefault("lattice", {"evaluations": 0})
    rep.cov["streams"]["lattice"].update({"chains": n_lat, "declarations": lat_decl})
    n_lat_only = len(items)
    # ---- stream 1b: OMITTED fields with defaults (constants incl. falsy / conversion-needing ones; default
    #      factories made to return every near-miss value) through every entry point that can leave a field out
    n_def = 0
    for pre, asts, chains in L.defaults_lattice(tier, core.seed()):
        try:
            ctx = Ctx(asts)
        except Exception as ex:  # noqa
            rep.stat("defaults", "group-rejected:" + type(ex).__name__)
            continue
        ctxs.append(ctx)
        for tag, leaf_shape, chain in chains:
            add_chain(ctx, minimal_env(asts, chain), chain, "defaults", (tag, leaf_shape))
            rep.stat("defaults", "kind:" + tag.split(":")[0])
            n_def += 1
    rep.cov["streams"].setdefault("defaults", {"evaluations": 0})
    rep.cov["streams"]["defaults"].update({"chains": n_def})
    n_defaults_items = len(items) - n_lat_only
    # ---- stream 1c: instances that have AGED (an unwrapped inner container altered in place) handed, as the live
    #      stored object, to every validating way in
    n_aged = 0
    for pre, asts, chains in L.aged_lattice(tier, core.seed()):
        try:
            ctx = Ctx(asts)
        except Exception as ex:  # noqa
            rep.stat("aged", "group-rejected:" + type(ex).__name__)
            continue
        ctxs.append(ctx)
        for tag, leaf_shape, chain in chains:
            steps = add_chain(ctx, minimal_env(asts, chain), chain, "aged", (tag, leaf_shape))
            rep.stat("aged", "way:" + tag.split(":")[1])
            if len(steps) == 2:
                # did the instance really go ill-typed?  (guidance for the evidence: the spec on the re-reified
                # current instance is evaluated in Coq as part of the step)
                rep.stat("aged", "handed-over:" + ("refused" if steps[1][2][0] != "ok" else "accepted"))
            n_aged += 1
    rep.cov["streams"].setdefault("aged", {"evaluations": 0})
    rep.cov["streams"]["aged"].update({"chains": n_aged})
    n_lattice_items = len(items)
    _t["lattice_run_s"] = round(_time.time() - _t["start"], 1)

    # ---- stream 2: random environments of related classes, random chains
    for idx in range(n_env):
        for _try in range(6):
            env = gen_env(rnd, idx * 10 + _try, max_depth)
            try:
                ctx = Ctx(env)
                break
            except Exception:  # noqa   the class statement itself was rejected (C14's subject)
                rejected_envs += 1
                ctx = None
        if ctx is None:
            continue
        ctxs.append(ctx)
        for _ in range(per_env):
            chain = gen_chain(rnd, ctx, env)
            add_chain(ctx, env, chain, "steps", tuple(sorted(G.shape(fd["field"]) for fd in env[0]["fields"]))[:3])
            n_chains += 1
    rep.cov["streams"].setdefault("steps", {"evaluations": 0})
    rep.cov["streams"]["steps"].update({"chains": n_chains, "environments": len(ctxs),
                                        "class_statements_rejected": rejected_envs})
    if items:
        env, chain, _ = where[0]
        rep.sample({"stream": "lattice", "chain": chain, "observed": repr(items[0][1][2])[:400]})
        if len(items) > n_lattice_items:
            env, chain, _ = where[n_lattice_items]
            rep.sample({"classes": items[n_lattice_items][0].source()[-1500:], "chain": chain,
                        "observed": repr(items[n_lattice_items][1][2])[:400]})
        env, chain, _ = where[-1]
        rep.sample({"chain": chain, "observed": repr(items[-1][1][2])[:400]})
    _t["random_run_s"] = round(_time.time() - _t["start"] - _t["lattice_run_s"], 1)
    r = None
    unsafe_sites = site_status(rep) if model_ok else None
    try:
        from harness.genmods import c01_enum_guard as EG
        _txt, gstatus = EG.render()
        rep.cov["generated_guards_enum"] = gstatus
        rep.obligation("regen:Gen/GuardsEnum.v", all(v == "ok" for v in gstatus.values()),
                       "; ".join("%s: %s" % kv for kv in sorted(gstatus.items())))
    except Exception as ex:  # noqa
        rep.obligation("regen:Gen/GuardsEnum.v", False, repr(ex))
    if model_ok:
        r = None
        try:
            _t0 = _time.time()
            r = evaluate(items, n_small=n_lattice_items)
            _t["coq_eval_s"] = round(_time.time() - _t0, 1)
        except RuntimeError as ex:
            rep.broken("correspondence:run_entry/coq-eval", str(ex))
        _t.pop("start", None)
        rep.cov["timing"] = _t
        if r is not None:
            s = rep.cov["streams"]["steps"]
            for sname, lo, hi in (("lattice", 0, n_lat_only), ("defaults", n_lat_only, n_lat_only + n_defaults_items),
                                  ("aged", n_lat_only + n_defaults_items, n_lattice_items)):
                idx = set(range(lo, hi))
                rep.cov["streams"][sname].update({
                    "accepted": sum(1 for _, st in items[lo:hi] if st[2][0] == "ok"),
                    "in_statement_domain": len(set(r["sin_dom"]) & idx),
                    "in_theorem_domain": len(set(r["sin_thm_dom"]) & idx),
                    "model_declines": len(set(r["sunmodelled"]) & idx)})
            acc = sum(1 for _, st in items[n_lattice_items:] if st[2][0] == "ok")
            rnd_n = lambda name: len([i for i in r[name] if i >= n_lattice_items])
            s.update({"accepted": acc, "in_statement_domain": rnd_n("sin_dom"),
                      "in_theorem_domain": rnd_n("sin_thm_dom"), "model_declines": rnd_n("sunmodelled"),
                      "copy_raised_not_compared": len(r["scopy_raised"]),
                      "unstable_input_rejected_by_typedpy_only_not_compared": len(r["sstricter"])})
            n_rand = max(1, len(items) - n_lattice_items)
            if not (0.3 <= acc / n_rand <= 0.9):
                rep.broken("generator:accept-rate", "accept rate %.2f outside [0.3, 0.9]: inconclusive" % (acc / n_rand))
            unstable = set(r["sunstable"])
            # validation-bypass flags must never survive on an instance handed out by a validating
            # entry point (with _additional_properties=True the Coq spec would take them for extras)
            for i, (ctx, st) in enumerate(items):
                if st[2][0] == "ok" and st[2][1][0] == "struct":
                    flags = sorted(k for k, _ in st[2][1][2] if k in ("_skip_validation", "_trust_supplied_values"))
                    if flags and i not in r["sviolation"]:
                        env, chain, si = where[i]
                        rep.finding("C01/invalid-instance/%s/attrs:%s" % (st[0][0], ",".join(flags)),
                                    "entry point %s hands out an instance that still carries %s" % (st[0][0], flags),
                                    {"env": env, "chain": chain, "failing_step": si, "observed": st[2],
                                     "python": python_src(ctx, chain, env)})
            loc_idx = [i for i in r["sviolation"] if i not in unstable][:4000]
            located = dict(zip(loc_idx, localise([items[i] for i in loc_idx])))
            for i in r["sviolation"]:
                ctx, st = items[i]
                env, chain, si = where[i]
                key = violation_key(ctx, st, i in unstable, located.get(i))
                rep.finding(key, "entry point %s yields an instance its own declaration rejects (step %d of %s)" % (
                    st[0][0], si, [e[0] for e in chain]),
                    {"env": env, "chain": chain, "failing_step": si, "observed": st[2],
                     "python": python_src(ctx, chain, env)})
            rep.obligation("spec-on-observed:inst_ok+deep_valid",
                           not any(not v["no_input"] for v in rep.violations),
                           "%d accepted in-domain steps, %d spec failures" % (
                               len(set(r["sin_dom"]) & set(i for i, (_, st) in enumerate(items) if st[2][0] == "ok")),
                               len(r["sviolation"])) + (" (all matching known findings)" if r["sviolation"] and not rep.violations else ""))
            n_expl = len(set(r["smismatch"]) & set(r["sviolation"]))
            rep.obligation("correspondence:run_entry", len(r["smismatch"]) == n_expl,
                           "%d steps, %d mismatches (%d of them on steps that are concrete spec failures)" % (
                               len(items), len(r["smismatch"]), n_expl))
            # a mismatch on a step that IS a concrete spec failure is explained by that failure
            unexplained = [i for i in r["smismatch"] if i not in set(r["sviolation"])]
            if unexplained and not any(not v["no_input"] for v in rep.violations):
                i = unexplained[0]
                ctx, st = items[i]
                env, chain, si = where[i]
                kinds = sorted(set(items[j][1][0][0] for j in r["smismatch"]))
                rep.broken("correspondence:run_entry",
                           "model (Struct/Entry.v, Struct/Instance.v) and typedpy differ on %d generated steps "
                           "(entry kinds %s); the spec holds on every explored input" % (len(r["smismatch"]), kinds),
                           {"env": env, "chain": chain, "failing_step": si, "observed": st[2],
                            "python": python_src(ctx, chain, env)})
    # ---- deserialization against the model of its REAL pre-processing (the model C01_deser_* are about)
    if model_ok and r is not None:
        dc = deser_doc_cases(items)
        rep.cov["streams"]["deser-doc"] = {"evaluations": len(dc)}
        try:
            dr = evaluate_deser(dc) if dc else None
        except RuntimeError as ex:
            dr = None
            rep.broken("correspondence:deserialize/coq-eval", str(ex))
        if dr is not None:
            viol = set(r["sviolation"])
            mism = [k for k in dr["mismatch"] if dc[k][0] not in viol]
            rep.cov["streams"]["deser-doc"].update({
                "in_theorem_domain": len(dr["in_dom"]), "model_declines": len(dr["declines"]),
                "accepted": sum(1 for _, _, st in dc if st[2][0] == "ok")})
            rep.obligation("correspondence:deserialize", not mism and not dr["model_unsound"],
                           "%d JSON-shaped documents, %d mismatches outside concrete spec failures, %d in the domain of "
                           "C01_deserialize_sound" % (len(dc), len(mism), len(dr["in_dom"])))
            if (mism or dr["model_unsound"]) and not any(not v["no_input"] for v in rep.violations):
                k = (mism or dr["model_unsound"])[0]
                i, ctx, st = dc[k]
                env, chain, si = where[i]
                rep.broken("correspondence:deserialize",
                           "model of deserialization (Ser/Deserialize.v) and typedpy differ on %d documents; the spec holds "
                           "on every explored input" % len(mism),
                           {"env": env, "chain": chain, "failing_step": si, "observed": st[2],
                            "python": python_src(ctx, chain, env)})
    for ctx in ctxs:
        ctx.close()
    if unsafe_sites and not any(not v["no_input"] for v in rep.violations):
        rep.broken("entry-sites:today-safe",
                   "the source no longer funnels %s into the validating constructor / the recognised copy idioms "
                   "(Gen/EntrySites.v; C01_entry_sites_today fails, C01_sites_characterisation gives the model's "
                   "witness), but no generated input made typedpy hand out an invalid instance" % unsafe_sites,
                   {"entry_sites": rep.cov.get("entry_sites")})
    if not proofs_ok:
        from harness.props.c17 import broken_build
        broken_build(rep)
    rep.assumptions += [
        "re.match is an oracle (Section variable re_match), instantiated per case by a table filled from the real re module",
        "statement domain (Fields/Domain.v): no bool where a number is expected, multiplesOf non-zero, int->float exact",
        "theorem hypothesis `stable`: collection-level constraints hold of the normalised elements too (C01_field_refuted shows it is needed)",
        "deserialization is modelled as cls(**kw) on the keyword arguments the pre-processing yields; the pre-processing itself "
        "is compared only on flat JSON-shaped documents, otherwise only the spec is evaluated on the result",
        "copy/deepcopy are value preserving in the model; the pickle round trip keeps the declared fields",
    ]
    return rep.finish(
        rule="cases = steps of chains of 1-4 real entry points over generated environments of 4 related classes "
             "(nested collections, multi-field wrappers, class references, defaults, _required, _additional_properties, "
             "_ignore_none, __validate__ hooks, immutables); arguments valid-by-construction / one-point corruption / "
             "None / missing / extra; distinct = distinct (entry kind, outcome, declaration shapes)")
