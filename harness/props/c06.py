"""C06 — deserialization accepts exactly the JSON images of constructor-valid data.

Proof obligations: Props/C06.v (model Ser/Deserialize.v, spec Ser/DocReading.v, proofs Ser/DeserProofs.v and
Ser/DeserExnProofs.v; the generated fingerprint Gen/DeserFlow.v of the exception handlers and of the dispatch chain
of the deserializer is compared with what the model assumes in Ser/DeserFlowTie.v).
Tie: correspondence of `deserialize` (model) with the real Deserializer on images of valid instances,
every single-point corruption named in the property and non-object documents, for keep_undefined and
ignore_invalid_additional_properties_in_deserialization in {True, False}.  Oracle on the implementation:
Deserializer(cls).deserialize(d) against cls(**lift(d)) where `lift` is the documented reading of the
document (a Python rendering of Ser/DocReading.v); the same spec is evaluated in Coq on the observation.

Streams:
  documents   fragment classes of harness/sergen.py (as before)
  wrappers    classes rich in AnyOf/OneOf/AllOf/NotField over overlapping alternatives (harness/c06gen.py, world W)
  lattice     deterministic enumeration: wrapper kind x alternative whose trial fails the hard way (short positional
              document, non-numeric Decimal string, non-string TimeString) x other alternative x order x position x document
  ext         the same over field classes outside the Coq model (DecimalNumber, date/time fields, formatted
              strings): oracle only, no Coq correspondence"""
import copy
import random

from harness import core
from harness import coqemit as E
from harness import fieldgen as G
from harness import sergen as SG
from harness import c06gen as G6
from harness.props import c05 as C5


class NotImage(Exception):
    """the document is not the JSON form of any constructor argument"""


class flags:
    def __init__(self, ignore_invalid, compact=False):
        self.ii, self.compact = ignore_invalid, compact

    def __enter__(self):
        from typedpy.structures import TypedPyDefaults as D
        self.old = (D.ignore_invalid_additional_properties_in_deserialization, D.compact_deserialization_default)
        D.ignore_invalid_additional_properties_in_deserialization = bool(self.ii)
        D.compact_deserialization_default = bool(self.compact)

    def __exit__(self, *a):
        from typedpy.structures import TypedPyDefaults as D
        D.ignore_invalid_additional_properties_in_deserialization, D.compact_deserialization_default = self.old


# ------------------------------------------------------------------ the documented reading, in Python

def option_accepts(g, w, ctx):
    """the constructor of `class T: f = g` accepts f=w"""
    T = G6.single_field_class(g, ctx)
    try:
        T(f=w)
        return True
    except Exception:  # noqa
        return False


def compact_on():
    from typedpy.structures import TypedPyDefaults
    return bool(TypedPyDefaults.compact_deserialization_default)


class Notes:
    """what the reading of a document could not decide: several distinct readings at a multi-field wrapper"""

    def __init__(self):
        self.amb_accept = False     # OneOf / AllOf / NotField: the readings may differ in acceptance
        self.amb_value = False      # AnyOf: every reading is accepted, the value depends on the reading

    def merge(self, other):
        self.amb_accept |= other.amb_accept
        self.amb_value |= other.amb_value


def canon(v):
    from harness import structgen as S
    return E.reify(v, S.struct_attrs)


MAP_KEEPS_UNDEFINED = [False]   # counterfactual reading used to name a failure: keep_undefined=True below a Map
EXT_AS_ITSELF = [False]      # second reading of a scalar document for an ext field: the string/number as itself


def lift_ext(k, j):
    """documented normal form of a scalar document for a field class outside the model: Decimal for DecimalNumber,
    date / time / datetime for the date fields (parsed with the field's format); strings as themselves.  A
    document that does not parse stands for itself (the constructor rejects it)."""
    import datetime
    import decimal
    if not isinstance(j, (str, int, float)):
        raise NotImage()
    if EXT_AS_ITSELF[0]:
        return j
    if k.startswith("Decimal"):
        try:
            return decimal.Decimal(j)
        except (decimal.InvalidOperation, TypeError, ValueError):
            return j
    fmt = {"DateField": "%Y-%m-%d", "DateFieldDMY": "%d/%m/%Y", "TimeField": "%H:%M:%S",
           "DateTime": "%m/%d/%y %H:%M:%S", "DateTimeISO": "%Y-%m-%dT%H:%M:%S"}.get(k)
    if fmt and isinstance(j, str):
        try:
            p = datetime.datetime.strptime(j, fmt)
        except ValueError:
            return j
        return p.date() if k.startswith("DateField") else p.time() if k == "TimeField" else p
    return j


def lift(f, j, ctx, ku, ii, notes=None):
    notes = notes if notes is not None else Notes()
    t = f["t"]
    if t in ("num", "str", "bool", "enumlit", "any"):
        return j
    if t == "ext":
        return lift_ext(f["k"], j)
    if t == "none":
        if j is None:
            return None
        raise NotImage()
    if t == "enumcls":
        cls = G.ENUMS[f["cls"]]
        if f["cls"] in SG.BY_VALUE:
            try:
                hash(j)
            except TypeError:
                raise NotImage()
            for m in cls:
                if m.value == j:
                    return m
            raise NotImage()
        if isinstance(j, str) and j in cls.__members__:
            return cls[j]
        raise NotImage()
    if t in ("seqany", "seqeach", "seqpos", "set", "tuple"):
        if type(j) is not list:
            raise NotImage()
        if t == "seqany" or (t == "set" and f.get("item") is None):
            r = list(j)
        elif t == "seqeach":
            r = [lift(f["item"], x, ctx, ku, ii, notes) for x in j]
        elif t == "set":
            r = [lift(f["item"], x, ctx, ku, ii, notes) for x in j]
        elif t == "tuple" and len(f["items"]) == 1:
            r = [lift(f["items"][0], x, ctx, ku, ii, notes) for x in j]
        else:
            items = f["items"]
            r = [lift(items[i], x, ctx, ku, ii, notes) if i < len(items) else x for i, x in enumerate(j)]
        if t == "set":
            if f.get("item") is not None and not all(option_accepts(f["item"], w, ctx) for w in r):
                raise NotImage()
            try:
                return set(r)
            except TypeError:
                raise NotImage()
        if t == "tuple":
            return tuple(r)
        import collections
        return r if f["k"] == "list" else collections.deque(r)
    if t == "mapany":
        if type(j) is not dict:
            raise NotImage()
        return j
    if t == "mapkv":
        if type(j) is not dict:
            raise NotImage()
        try:
            ku2 = True if MAP_KEEPS_UNDEFINED[0] else ku
            return {lift(f["kf"], k, ctx, ku2, ii, notes): lift(f["vf"], v, ctx, ku2, ii, notes) for k, v in j.items()}
        except TypeError:
            raise NotImage()
    if t in G6.WRAPPERS:
        # The value of a multi-field wrapper is a value of one of its alternatives: the candidate readings of the
        # document are its readings under each alternative g that g itself accepts (for NotField also the document
        # as itself: a value that matches no alternative stands for itself).  One reading: the wrapper decides.
        # Several DISTINCT readings: the documentation does not say which one is meant -- for AnyOf every one of
        # them is accepted (the value is not judged), for the other wrappers acceptance is not judged either.
        cands = [(j, Notes())] if t == "not" else []
        for g in f["fs"]:
            n2 = Notes()
            try:
                w = lift(g, j, ctx, ku, ii, n2)
            except NotImage:
                continue
            finally:
                # several distinct readings INSIDE an alternative make the whole reading undecided, whether or not
                # that alternative's reading ends up chosen (as Ser/DocReading.ambiguous searches every alternative):
                # the reading dropped there may be the one the document stands for
                notes.merge(n2)
            if option_accepts(g, w, ctx):
                cands.append((w, n2))
        uniq = []
        for w, n2 in cands:
            cw = canon(w)
            if all(cw != cu for cu, _, _ in uniq):
                uniq.append((cw, w, n2))
        if not uniq:
            raise NotImage()
        if len(uniq) >= 2:
            if t == "anyof":
                notes.amb_value = True
            else:
                notes.amb_accept = True
        for _, w, n2 in uniq:
            if t == "anyof" or option_accepts(f, w, ctx):
                notes.merge(n2)
                return w
        raise NotImage()
    if t == "ref":
        try:
            return ctx.classes[f["cls"]](**doc_to_kwargs(ctx.ast(f["cls"]), j, ctx, ku, ii, compact_on(), notes))
        except NotImage:
            raise
        except Exception:  # noqa  the constructor rejects the nested arguments
            raise NotImage()
    raise ValueError(f)


def doc_to_kwargs(c, d, ctx, ku, ii, compact, notes=None):
    fields = {fd["name"]: fd["field"] for fd in ctx.all_fields(c["name"])}
    res = ctx.resolved(c["name"])
    if type(d) is not dict:
        if compact and len(fields) == 1 and res["required"] == list(fields) and not res["additional"]:
            (name, f), = fields.items()
            if res["ignore_none"] and d is None:
                return {name: None}
            return {name: lift(f, d, ctx, ku, ii, notes)}
        raise NotImage()
    kw = {}
    for k, v in d.items():
        if not isinstance(k, str):
            raise NotImage()
        if k in fields:
            kw[k] = None if (res["ignore_none"] and v is None) else lift(fields[k], v, ctx, ku, ii, notes)
        elif not ku:
            continue
        elif res["additional"]:
            kw[k] = v
        elif ii:
            continue
        else:
            raise NotImage()
    return kw


# ------------------------------------------------------------------ documents

JSON_POOL = [5, "5", True, 2.5, [1], {"k": 1}, "zz", -1, 0, [], {}, ""]


def local_corruptions(rnd, f, jv):
    """single-point corruptions of sub-document jv standing where declaration f is expected: [(label, value)]"""
    t = f["t"]
    out = [("null", None)]
    wrong = [x for x in JSON_POOL if type(x) is not type(jv)]
    out.append(("wrong-json-type", rnd.choice(wrong)))
    if t == "num" and isinstance(jv, (int, float)):
        out.append(("numeric-string", str(jv)))
        if f.get("min") is not None:
            out.append(("out-of-bound", G.unreify(f["min"]) - 1))
        if f.get("max") is not None:
            out.append(("out-of-bound", G.unreify(f["max"]) + 1))
        if f["s"] in ("Positive", "NonNegative"):
            out.append(("out-of-bound", -3 if f["k"] != "Float" else -3.5))
        if f["s"] in ("Negative", "NonPositive"):
            out.append(("out-of-bound", 3 if f["k"] != "Float" else 3.5))
    if t == "enumcls":
        out.append(("unknown-enum-name", "NOPE"))
        out.append(("unknown-enum-name", 12345))
    if t == "ext":
        out.append(("malformed-string", rnd.choice(G6.EXT_MALFORMED)))
        out.append(("malformed-string", rnd.choice(G6.EXT_MALFORMED)))
    if type(jv) is list:
        if jv:
            out.append(("short-array", jv[:-1]))
            i = rnd.randrange(len(jv))
            bad = [x for x in JSON_POOL if type(x) is not type(jv[i])]
            out.append(("bad-element", jv[:i] + [rnd.choice(bad)] + jv[i + 1:]))
        out.append(("long-array", jv + [rnd.choice(JSON_POOL)]))
        out.append(("long-array", jv + jv[-1:]))
    if type(jv) is dict and jv:
        kk = rnd.choice(list(jv))
        d2 = dict(jv)
        d2[kk] = rnd.choice([x for x in JSON_POOL if type(x) is not type(jv[kk])])
        out.append(("bad-member", d2))
        d3 = dict(jv)
        del d3[kk]
        out.append(("missing-member", d3))
        d4 = dict(jv)
        d4[rnd.choice(G6.EXTRA_NAMES)] = 1
        out.append(("extra-member", d4))
    return out


def corruptions(rnd, c, doc, ctx):
    """Single-point corruptions of the image `doc` of an instance of class AST c: [(label, field kind, doc', inj)]."""
    out = []
    fields = {fd["name"]: fd["field"] for fd in c["fields"]}
    req = ctx.resolved(c["name"])["required"]
    if type(doc) is not dict:
        return out

    def put(label, kind, k, v):
        d = copy.deepcopy(doc)
        d[k] = v
        out.append((label, kind, d, (fields[k], v)))

    for k, f in fields.items():
        t = f["t"]
        if k in doc:
            for label, v in local_corruptions(rnd, f, doc[k]):
                put(label, t, k, v)
            if k in req:
                d = copy.deepcopy(doc)
                del d[k]
                out.append(("missing-required-key", t, d, None))
        else:
            put("wrong-json-type", t, k, rnd.choice(JSON_POOL))
    d = copy.deepcopy(doc)
    d[rnd.choice(G6.EXTRA_NAMES)] = rnd.choice([1, "x", None, [1]])
    out.append(("extra-key", "class", d, None))
    return out


def deep_corruptions(rnd, c, doc, ctx, n):
    """n single-point corruptions at aligned positions strictly inside a field's value"""
    if type(doc) is not dict:
        return []
    fields = {fd["name"]: fd["field"] for fd in c["fields"]}
    cand = []
    for k, f in fields.items():
        if doc.get(k) is not None:
            cand += [s for s in G6.sites(f, doc[k], ctx, (k,)) if len(s[0]) > 1]
    rnd.shuffle(cand)
    out = []
    for path, g, x in cand[:n]:
        label, v = rnd.choice(local_corruptions(rnd, g, x))
        d = G6.put_at(doc, path, v)
        out.append(("deep/" + label, g["t"], d, (fields[path[0]], d[path[0]])))
    return out


TOP_LEVEL = [5, "s", [1, 2], None, True, 2.5, [], ""]


# ------------------------------------------------------------------ the input shape a spec failure is keyed by

def strip_nulls(c, d, ctx):
    """the document without the keys of declared fields that hold null, at the top and in every nested object
    that stands where a class reference is expected (directly, as an element, or as a wrapper alternative);
    second component: the kinds of the fields whose null was removed"""
    top = {"t": "ref", "cls": c["name"]}
    dels = []
    for path, g, x in G6.sites(top, d, ctx):
        if g["t"] == "ref" and type(x) is dict:
            try:
                fields = {fd["name"]: fd["field"] for fd in ctx.all_fields(g["cls"])}
            except KeyError:
                continue
            for k, v in x.items():
                if v is None and k in fields and (path, k) not in [(p, kk) for p, kk, _ in dels]:
                    dels.append((path, k, fields[k]["t"]))
    if not dels:
        return d, []
    out = copy.deepcopy(d)
    for path, k, _ in dels:
        cur = out
        for p in path:
            cur = cur[p]
        cur.pop(k, None)
    return out, [t for _, _, t in dels]


_RETURNED = {}


def returned_defects():
    """Which of the REPAIRED defects of the generic branches the library under test shows again, decided once per run by
    the defect's signature behaviour on a fixed probe (not by the failing case): a failure is keyed by one of their
    shapes only if that defect is observably back -- otherwise a document that merely contains such a site (an empty
    array where a NoneField is an alternative, ...) would hide which OPEN finding the failure belongs to."""
    if not _RETURNED:
        from typedpy import deserialize_single_field, Tuple, Integer, NoneField, TimeString

        def accepted(f, doc):
            try:
                deserialize_single_field(f, doc)
                return True
            except Exception:  # noqa
                return False

        def raises(f, doc, name):
            try:
                deserialize_single_field(f, doc)
            except Exception as ex:  # noqa
                return type(ex).__name__ == name
            return False
        _RETURNED.update({
            "nonefield-container": accepted(NoneField(), []) or accepted(NoneField(), {}),
            "typedfield-container": accepted(TimeString(), ["07:15:45"]) or accepted(TimeString(), []),
            "tuple1-positional": accepted(Tuple[Integer], [1, "x"]) or raises(Tuple[Integer], [], "IndexError"),
        })
    return _RETURNED


def attribute(case, ctx, v):
    """input-shape part of the key of an agreement failure (over-accepts / over-rejects / different-instance)
    when the failing document has one of the shapes below; None otherwise.  The shapes of F17b, of the wrapper
    that takes a non-validating alternative and of AllOf over different JSON forms are those of OPEN findings
    (known_findings.json lists their keys).  The others are the shapes of REPAIRED defects (keep_undefined not
    passed below a Map; [] / {} read as None by a NoneField; a TypedField over str built from a JSON container; a
    one-item Tuple read positionally): their keys are listed nowhere, so a failure of that shape is a VIOLATION --
    the key only says which defect has come back, and the last three are used only when that defect is observably
    back (returned_defects)."""
    c, doc = case["c"], case["doc"]
    # F17b: an explicit null for a declared field is treated as an absent key.  Attributed only if the same
    # document without those keys satisfies the property and the implementation treats both alike.
    stripped, kinds = strip_nulls(c, doc, ctx)
    if kinds and v in ("over-accepts", "over-rejects"):
        r2 = run_real(ctx.classes[c["name"]], stripped, case["ku"], case["ii"], case["compact"])
        s2 = run_spec(c, stripped, ctx, case["ku"], case["ii"], case["compact"])
        if verdict(r2, s2) is None and r2[0] == case["real"][0]:
            return "null:" + kinds[0]
        # the same criterion at the nested object itself: behind a multi-field wrapper the document without the key
        # may be read by ANOTHER alternative, so the two whole documents are not treated alike although the class
        # that holds the null member shows F17b on its own
        top0 = {"t": "ref", "cls": c["name"]}
        for path, g, x in G6.sites(top0, doc, ctx):
            if not path or g["t"] != "ref" or type(x) is not dict:
                continue
            try:
                sub_c, sub_cls = ctx.ast(g["cls"]), ctx.classes[g["cls"]]
                fields = {fd["name"]: fd["field"] for fd in ctx.all_fields(g["cls"])}
            except KeyError:
                continue
            nulls = [k for k, val in x.items() if val is None and k in fields]
            if not nulls:
                continue
            r1 = run_real(sub_cls, x, case["ku"], case["ii"], False)
            s1 = run_spec(sub_c, x, ctx, case["ku"], case["ii"], False)
            if verdict(r1, s1) in ("over-accepts", "over-rejects"):
                x2 = {k: val for k, val in x.items() if k not in nulls}
                r2 = run_real(sub_cls, x2, case["ku"], case["ii"], False)
                s2 = run_spec(sub_c, x2, ctx, case["ku"], case["ii"], False)
                if verdict(r2, s2) is None and r2[0] == r1[0]:
                    return "null:" + fields[nulls[0]]["t"]
    if not case["ku"]:
        # (repaired) deserialize_map did not pass keep_undefined on: below a Map the default (True) applied
        MAP_KEEPS_UNDEFINED[0] = True
        try:
            if verdict(case["real"], run_spec(c, doc, ctx, case["ku"], case["ii"], case["compact"])) is None:
                return "keep_undefined-not-passed-below-map"
        finally:
            MAP_KEEPS_UNDEFINED[0] = False
    top = {"t": "ref", "cls": c["name"]}
    all_sites = list(G6.sites(top, doc, ctx))
    back = returned_defects()
    for _, g, x in all_sites:
        # (repaired, F26) the generic TypedField branch built NoneType() from [] / {} where a NoneField is expected
        if back["nonefield-container"] and g["t"] == "none" and (x == [] or x == {}) and type(x) in (list, dict):
            return "nonefield-accepts-empty-container"
        # same branch, TypedField over str: str(*list) / str(**dict)
        if back["typedfield-container"] and g["t"] == "ext" and g["k"] == "TimeString" and type(x) in (list, dict):
            return "typedfield-built-from-json-container"
    for _, g, x in all_sites:
        # (repaired, F9 / F20) behind a multi-field wrapper: a homogeneous Tuple[T] deserialized element 0 only -- the
        # empty array raised IndexError (caught by the wrapper: "does not match"), a longer one kept its tail as
        # it was
        if back["tuple1-positional"] and g["t"] == "tuple" and len(g["items"]) == 1 and type(x) is list:
            if not x:
                return "tuple-homogeneous:empty-under-wrapper"
            if len(x) >= 2:
                return "tuple-homogeneous:tail-not-deserialized-under-wrapper"
    from typedpy import deserialize_single_field
    for _, g, x in all_sites:
        # a multi-field wrapper takes the value of an alternative that DESERIALIZES (pre-validation only) although
        # the alternative does not accept that value
        if g["t"] in G6.WRAPPERS:
            # the value the wrapper hands on: AnyOf -- that of the FIRST alternative that deserializes; the other
            # wrappers -- that of the LAST one (their own errors are raised inside the try and count as failures)
            taken = None
            for gi in g["fs"]:
                try:
                    fobj = G6.single_field_class(gi, ctx).get_all_fields_by_name()["f"]
                    with flags(case["ii"], case["compact"]):
                        dv = deserialize_single_field(fobj, copy.deepcopy(x), keep_undefined=case["ku"])
                except Exception:  # noqa
                    continue
                taken = (gi, dv)
                if g["t"] == "anyof":
                    break
            if taken is not None and not option_accepts(taken[0], taken[1], ctx):
                return "wrapper-takes-alternative-that-deserializes-but-does-not-validate"
        if g["t"] == "allof" and v == "over-rejects":
            # AllOf makes EVERY alternative deserialize the document, although the JSON form of a value that all of
            # them accept is written by one of them (formatted strings of different formats)
            whole = []
            for gk in g["fs"]:
                try:
                    w = lift(gk, x, ctx, case["ku"], case["ii"])
                except NotImage:
                    continue
                if option_accepts(g, w, ctx):
                    whole.append(w)
            if whole:
                for gi in g["fs"]:
                    try:
                        fobj = G6.single_field_class(gi, ctx).get_all_fields_by_name()["f"]
                        with flags(case["ii"], case["compact"]):
                            deserialize_single_field(fobj, copy.deepcopy(x), keep_undefined=case["ku"])
                    except Exception:  # noqa
                        return "allof-alternative-cannot-read-json-form-of-a-value-it-accepts"
    return None


# ------------------------------------------------------------------ running

def run_real(cls, d, ku, ii, compact):
    from typedpy import Deserializer
    with flags(ii, compact):
        try:
            y = Deserializer(cls).deserialize(copy.deepcopy(d), keep_undefined=ku)
            return ("ok", y)
        except Exception as ex:  # noqa
            return ("raise", E.exn_name(ex), str(ex)[:160])


def effective_ku(c, ku, ctx):
    """Deserializer.deserialize: an explicit keep_undefined is used as it is; the default (None) means "keep" exactly
    when the target class FORBIDS additional properties (theorem C06_keep_undefined_adjustment) -- and whatever it
    is, it holds for every nested structure of the document alike"""
    if ku is None:
        return not ctx.resolved(c["name"])["additional"]
    return bool(ku)


def run_spec(c, d, ctx, ku, ii, compact):
    """("ok", instance, notes) | ("raise", class name, message, notes)"""
    ku = effective_ku(c, ku, ctx)
    notes = Notes()
    with flags(ii, compact):
        try:
            kw = doc_to_kwargs(c, copy.deepcopy(d), ctx, ku, ii, compact, notes)
        except NotImage:
            return ("raise", "TypeError", "not a documented image", notes)
        try:
            return ("ok", ctx.classes[c["name"]](**kw), notes)
        except Exception as ex:  # noqa
            return ("raise", E.exn_name(ex), str(ex)[:160], notes)


TEVE = ("TypeError", "ValueError", "InvalidStructureErr")


def verdict(real, spec):
    """None if the property holds on this case, else the kind of failure."""
    if real[0] == "raise" and real[1] not in TEVE:
        return "non-te-ve:" + real[1]
    notes = spec[-1]
    if notes.amb_accept:
        return None             # several distinct readings that may differ in acceptance: only the error class is judged
    if real[0] == "ok" and spec[0] == "ok":
        if notes.amb_value:
            return None
        try:
            return None if real[1] == spec[1] else "different-instance"
        except Exception:  # noqa
            return "different-instance"
    if real[0] == "raise" and spec[0] == "raise":
        return None
    return "over-accepts" if real[0] == "ok" else "over-rejects"


def python_src(c, d, ctx, ku, ii, compact):
    imports = G6.IMPORTS if isinstance(ctx, G6.XContext) else SG.IMPORTS
    source = "".join(G6.class_src(ctx.ast(n)) + "\n" for n in class_closure(ctx, [c["name"]]))
    return (imports + "from typedpy import Deserializer\nfrom typedpy.structures import TypedPyDefaults\n" + source +
            "\nTypedPyDefaults.ignore_invalid_additional_properties_in_deserialization = %r\n"
            "TypedPyDefaults.compact_deserialization_default = %r\n"
            "print(Deserializer(%s).deserialize(%r, keep_undefined=%r))\n" % (ii, compact, c["name"], d, ku))


def compact_eligible(c, ctx):
    res = ctx.resolved(c["name"])
    return len(c["fields"]) == 1 and res["required"] == [c["fields"][0]["name"]] and not res["additional"]


def image_cases(rnd, ctx, pools, tier, images_per_class=4, n_cor=10, n_deep=0):
    """cases of one world: images of valid instances, single-point corruptions, non-object documents"""
    from typedpy import Serializer
    cases = []
    for c in ctx.asts:
        cls = ctx.classes[c["name"]]
        compact_ok = compact_eligible(c, ctx)
        for kw, x in pools.get(c["name"], [])[:images_per_class]:
            try:
                doc = Serializer(x).serialize()
            except Exception:  # noqa   a C05 matter
                continue
            if not SG.only_json_types(doc):      # not a JSON-like document: a C05 matter
                continue
            docs = [("image", "class", doc, None)]
            # corrupt only images on which the property holds (a failing image is reported as such)
            image_ok = all(verdict(run_real(cls, doc, ku, ii, False), run_spec(c, doc, ctx, ku, ii, False)) is None
                           for ku in (True, False) for ii in (True, False))
            if image_ok:
                cor = corruptions(rnd, c, doc, ctx)
                rnd.shuffle(cor)
                docs += cor[:n_cor]
                if n_deep:
                    docs += deep_corruptions(rnd, c, doc, ctx, n_deep)
            docs += [("non-object-document", "class", rnd.choice(TOP_LEVEL), None)]
            for label, kind, d, inj in docs:
                combos = [(ku, ii) for ku in (True, False) for ii in (True, False)]
                if label not in ("image", "extra-key", "extra-member"):
                    combos = [rnd.choice(combos)]
                for ku, ii in combos:
                    compact = compact_ok and (label == "non-object-document" or rnd.random() < 0.3)
                    if label == "non-object-document" and compact:
                        inj = (c["fields"][0]["field"], d)
                    cases.append({"c": c, "doc": d, "label": label, "kind": kind, "ku": ku, "ii": ii,
                                  "compact": compact, "inst": x if label == "image" else None, "inj": inj})
    return cases


def judge(rep, stream, ctx, cases, model_world=True):
    """run the implementation and the oracle on every case; report spec failures as findings"""
    frag = {}
    for case in cases:
        c = case["c"]
        if model_world:
            # theorem C06_error_class has no hypothesis on the declarations beyond well-formedness (env_wf); how many
            # cases reach a positional container outside every wrapper (excluded by the theorem until F9 was repaired)
            if c["name"] not in frag:
                frag[c["name"]] = all(G6.posfree(fd["field"]) for n in class_closure(ctx, [c["name"]])
                                      for fd in ctx.ast(n)["fields"])
            rep.stat(stream, "C06_error_class-hypotheses:hold" + ("" if frag[c["name"]] else "(positional-outside-wrapper)"))
            # ... and inside those of C06_agree_scalar (scalar class; object document, string keys, no null member)?
            sc = all(fd["field"]["t"] in ("num", "str", "bool", "enumlit", "any") for fd in ctx.all_fields(c["name"]))
            d = case["doc"]
            if sc and type(d) is dict and all(isinstance(k, str) and x is not None for k, x in d.items()):
                rep.stat(stream, "C06_agree_scalar-hypotheses:hold")
        case["real"] = run_real(ctx.classes[c["name"]], case["doc"], case["ku"], case["ii"], case["compact"])
        case["spec"] = run_spec(c, case["doc"], ctx, case["ku"], case["ii"], case["compact"])
        v = verdict(case["real"], case["spec"])
        if v in ("different-instance", "over-accepts") and not model_world:
            # a formatted string / number for a field class outside the model also stands for itself
            EXT_AS_ITSELF[0] = True
            try:
                if verdict(case["real"], run_spec(c, case["doc"], ctx, case["ku"], case["ii"], case["compact"])) is None:
                    v = None
            finally:
                EXT_AS_ITSELF[0] = False
        case["verdict"] = v
        rep.count(stream, 1, (c["name"], case["label"], case["kind"], case["ku"], case["ii"], case["real"][0]))
        rep.stat(stream, "label:" + case["label"])
        rep.stat(stream, "outcome:" + (case["real"][0] if case["real"][0] == "ok" else case["real"][1]))
        rep.stat(stream, "flags:ku=%s,ii=%s" % (case["ku"], case["ii"]))
        # how often a document puts a wrapper alternative on trial with an input on which it fails the hard way: a
        # positional document that is too short, a non-numeric string for a DecimalNumber, a non-string for a
        # TimeString (ValueError/TypeError now; IndexError / InvalidOperation / NotImplementedError before the repairs)
        outside = G6.doc_escapes(c, case["doc"], ctx)
        inside = G6.doc_escapes(c, case["doc"], ctx, through_wrappers=True) - outside
        case["hard_trial"] = bool(inside)
        if inside:
            rep.stat(stream, "hard-trial-inside-wrapper:" + "+".join(sorted(inside)))
        nt = case["spec"][-1]
        if nt.amb_accept or nt.amb_value:
            rep.stat(stream, "ambiguous-reading:" + ("acceptance" if nt.amb_accept else "value"))
        if v is None:
            continue
        shape = "%s:%s" % (case["label"].split("/")[0] if case["label"].startswith("lattice/") else case["label"], case["kind"])
        attr = None
        if v.startswith("non-te-ve:"):
            if v.split(":", 1)[1] in outside:
                # an exception one of the REPAIRED defects let escape, at a call site outside every multi-field
                # wrapper (the key names the defect that has come back; it is listed nowhere: a VIOLATION)
                shape = G6.ESCAPE_SHAPE[v.split(":", 1)[1]]
            attr = True
        else:
            attr = attribute(case, ctx, v)
            shape = attr or shape
        if not attr and model_world and case["label"] == "image" and case["inst"] is not None:
            o = C5.observe(case["inst"], ctx.classes[c["name"]], False)
            if o["stage"] is not None:
                key5, _, _ = C5.diagnose(c, [(k, SG.reify_o(x)) for k, x in case["inst"].__dict__.items()
                                             if k not in ("_instantiated", "_none_fields", "_trust_supplied_values")],
                                         case["inst"], o, ctx)
                shape = "image/" + key5.split("/", 2)[2]
        case["shape"] = shape
        rep.finding("C06/%s/%s" % (v, shape),
                    "Deserializer(%s).deserialize(%r, keep_undefined=%r) [ignore_invalid=%r, compact=%r] -> %s; the "
                    "constructor on the documented reading -> %s" % (
                        c["name"], case["doc"], case["ku"], case["ii"], case["compact"],
                        case["real"][:2] if case["real"][0] == "raise" else "accepted " + repr(case["real"][1]),
                        case["spec"][:2] if case["spec"][0] == "raise" else "accepted " + repr(case["spec"][1])),
                    {"python": python_src(c, case["doc"], ctx, case["ku"], case["ii"], case["compact"]),
                     "label": case["label"], "verdict": v, "stream": stream})
    nfail = sum(1 for k in cases if k["verdict"] is not None)
    acc = sum(1 for k in cases if k["real"][0] == "ok")
    rep.obligation("spec-on-observed:constructor-on-documented-reading(%s)" % stream, True,
                   "%d documents (%d accepted), %d spec failures (each reported as a finding)" % (len(cases), acc, nfail))
    if cases and not (0.1 <= acc / len(cases) <= 0.9):
        rep.broken("generator:accept-rate(%s)" % stream, "accept rate %.2f outside [0.1, 0.9]: inconclusive" % (acc / len(cases)))
    for i in (0, len(cases) // 2, len(cases) - 1):
        if cases:
            k = cases[i]
            rep.sample({"stream": stream, "class": G6.class_src(k["c"]), "doc": repr(k["doc"])[:200], "label": k["label"],
                        "real": repr(k["real"][:2])[:200]}, limit=12)
    return cases


# ------------------------------------------------------------------ the trial-failure lattice

def lattice_cases(rnd, tier, ext):
    """deterministic enumeration (the PRNG only rotates which positions a wrapper is placed at in the quick tier)"""
    hard = G6.HARD_EXT if ext else G6.HARD_MODEL
    docs = G6.LATTICE_DOCS_EXT if ext else G6.LATTICE_DOCS
    ctx = G6.XContext() if ext else SG.SerContext([])
    cases = []
    wrappers = G6.lattice_wrappers(hard)
    npos = len(G6.POSITIONS)
    for wi, (wname, w) in enumerate(wrappers):
        if tier == "quick":
            positions = ["direct", G6.POSITIONS[1 + (wi + core.seed()) % (npos - 1)]]
        else:
            positions = list(G6.POSITIONS)
        for pos in positions:
            name = "L%s%d_%s" % ("x" if ext else "", wi, pos.replace("-", "_"))
            try:
                asts, mk, compact = G6.place(pos, w, name, name + "_inner")
                for a in asts:
                    ctx.add(a)
            except Exception:  # noqa   declaration rejected by typedpy
                continue
            c = asts[-1]
            for d in docs:
                for ku, ii in ((True, True), (False, False)) if pos == "direct" else ((True, True),):
                    doc = mk(copy.deepcopy(d))
                    cases.append({"c": c, "doc": doc, "label": "lattice/" + pos, "kind": w["t"], "wrapper": wname,
                                  "ku": ku, "ii": ii, "compact": compact, "inst": None, "inj": (w, d)})
    return ctx, cases


# ------------------------------------------------------------------ the nesting lattice

def nesting_cases(tier):
    """deterministic enumeration: a structure nested at every kind of position (directly, as a Map value, below two
    Maps, in an Array / Deque / Set / Tuple / positional Array, as a wrapper alternative, and their combinations) x the
    nested class allows / forbids additional properties x the top class allows / forbids them x documents with keys
    that are not fields at no / the top / the nested / both levels x keep_undefined in {True, False, default} x the
    configuration flag.  The flag must reach every nested structure alike: the oracle reads the document with one
    keep_undefined at every level."""
    ctx = SG.SerContext([])
    cases = []
    idx = 0
    for inner_add in (True, False):
        for top_add in (True, False):
            for pi in range(len(G6.nest_positions("X"))):
                idx += 1
                prefix = "Q%d" % idx
                pos_name, _, _ = G6.nest_positions("X")[pi]
                try:
                    asts = G6.nest_classes(prefix, inner_add, top_add, pos_name,
                                           lambda n, pi=pi: G6.nest_positions(n)[pi][1])
                    for a in asts:
                        ctx.add(a)
                except Exception:  # noqa   declaration rejected by typedpy
                    continue
                mk = G6.nest_positions(prefix + "N")[pi][2]
                c = asts[-1]
                for vi, (iname, objs) in enumerate(G6.NEST_INNER_DOCS):
                    for top_extra in (False, True):
                        # the names of the keys that are not fields rotate through the pool (underscore, dunder-shaped,
                        # camel/snake, non-ASCII...), so that every position meets several of them at every level
                        ni = idx * 2 + vi * 3 + (1 if top_extra else 0)
                        objs2 = [G6.rename_extras(o, ni) for o in copy.deepcopy(objs)]
                        doc = {"f": mk(objs2), "s": {"k": 1}, "g": copy.deepcopy(objs2[0])}
                        if top_extra:
                            doc[G6.EXTRA_NAMES[(ni + 1) % len(G6.EXTRA_NAMES)]] = 1
                        for ku in (True, False, None):
                            for ii in (True, False):
                                if tier == "quick" and ii is False and ku is True and not inner_add and iname == "no-extra":
                                    continue
                                cases.append({"c": c, "doc": doc, "label": "nesting/" + pos_name,
                                              "kind": "%s%s" % (iname, "+top" if top_extra else ""),
                                              "ku": ku, "ii": ii, "compact": False, "inst": None, "inj": None})
    return ctx, cases


# ------------------------------------------------------------------ the check

def run(rep, tier):
    rnd = random.Random(core.seed() * 1000003 + 6)
    proofs_ok, model_ok = core.standard_proof_obligations(rep, "C06", ["theories/Check/C06chk.vo"])
    quick = tier == "quick"
    # 1. fragment classes of sergen (as before)
    ctx, pools = SG.build_world(rnd, 40 if quick else 160, max_depth=2 if quick else 3)
    cases = judge(rep, "documents", ctx, image_cases(rnd, ctx, pools, tier, n_cor=10 if quick else 40))
    worlds = [("documents", ctx, cases)]
    # 2. wrapper-rich classes of the model fragment
    rnd2 = random.Random(core.seed() * 1000003 + 606)
    wctx, wpools = G6.build_wworld(rnd2, 70 if quick else 260, max_depth=2 if quick else 3)
    wcases = judge(rep, "wrappers", wctx, image_cases(rnd2, wctx, wpools, tier, n_cor=8 if quick else 30,
                                                       n_deep=4 if quick else 12))
    worlds.append(("wrappers", wctx, wcases))
    # 3. the trial-failure lattice (model part)
    rnd3 = random.Random(core.seed() * 1000003 + 607)
    lctx, lcases = lattice_cases(rnd3, tier, ext=False)
    judge(rep, "lattice", lctx, lcases)
    worlds.append(("lattice", lctx, lcases))
    # 3b. the nesting lattice: keys that are not fields at every level x keep_undefined in {True, False, default}
    nctx, ncases = nesting_cases(tier)
    judge(rep, "nesting", nctx, ncases)
    worlds.append(("nesting", nctx, ncases))
    n_kept = sum(1 for k in ncases if k["real"][0] == "ok" and "extra" in k["kind"] and not k["kind"].startswith("no-extra"))
    rep.obligation("generator:nesting-extras-accepted", n_kept >= 300,
                   "%d accepted documents with a key that is not a field inside a nested structure" % n_kept)
    if n_kept < 300:
        rep.broken("generator:nesting-extras-accepted", "only %d accepted nesting documents with nested extras: inconclusive" % n_kept)
    # 4. fields outside the Coq model: random world + lattice, oracle only
    rnd4 = random.Random(core.seed() * 1000003 + 608)
    xctx, xpools = G6.build_xworld(rnd4, 60 if quick else 240, max_depth=2 if quick else 3)
    xcases = judge(rep, "ext", xctx, image_cases(rnd4, xctx, xpools, tier, n_cor=8 if quick else 30,
                                                 n_deep=4 if quick else 12), model_world=False)
    lxctx, lxcases = lattice_cases(rnd4, tier, ext=True)
    judge(rep, "ext-lattice", lxctx, lxcases, model_world=False)
    # the class of inputs the wrapper clause is about must actually be exercised
    for stream, cs, floor in (("wrappers", wcases, 20 if quick else 80), ("lattice", lcases, 200),
                              ("ext", xcases, 10 if quick else 40), ("ext-lattice", lxcases, 100)):
        n = sum(1 for k in cs if k["hard_trial"])
        rep.obligation("generator:hard-trial-inside-wrapper(%s)" % stream, n >= floor,
                       "%d documents put a wrapper alternative on trial with a too-short positional document / a non-numeric "
                       "Decimal string / a non-string TimeString (floor %d)" % (n, floor))
        if n < floor:
            rep.broken("generator:hard-trial-inside-wrapper(%s)" % stream,
                       "only %d documents exercise a failing trial inside a multi-field wrapper (floor %d): inconclusive" % (n, floor))
    if model_ok:
        for stream, wc, cs in worlds:
            try:
                correspondence(rep, stream, wc, cs)
            except RuntimeError as ex:
                rep.broken("correspondence:coq-eval(%s)" % stream, str(ex))
    if not proofs_ok:
        from harness.props.c17 import broken_build
        broken_build(rep)
    rep.assumptions += [
        "re.match is an oracle (Section variable), instantiated per run by a table filled from the real re module",
        "keep_undefined ranges over {True, False} as in the property's quantifier (None is exercised by C05)",
        "the agreement clause is not proved: the two executable models (Ser/Deserialize.v, Ser/DocReading.v) are "
        "compared with each other and with the implementation on every generated document of the model fragment",
        "field classes outside Fields/FieldAst.v (DecimalNumber, date/time fields, formatted strings) are judged by the "
        "constructor-on-documented-reading oracle only (streams ext, ext-lattice)",
    ]
    return rep.finish(
        rule="documents = real serialized images of valid instances of generated fragment classes, up to 10 single-point "
             "corruptions each (null, wrong JSON type, numeric string, out-of-bound, unknown enum name, short/long array, "
             "bad element/member, missing required key, extra key/member, malformed formatted string; also at positions "
             "inside a field's value) and non-object documents; keep_undefined x ignore_invalid in {T,F}^2 for images and "
             "extra keys; wrapper-rich classes (AnyOf/OneOf/AllOf/NotField over overlapping alternatives) and a "
             "deterministic lattice wrapper kind x hard alternative x soft alternative x order x position x document; "
             "distinct = (class, label, field kind, flags, outcome)")


HEADER = """From Coq Require Import ZArith NArith String List Bool. Import ListNotations.
From TP Require Import Check.C06chk.
Local Open Scope string_scope.
"""


FNS = ["dmismatch", "dunmodelled", "dspec_fail6", "dspec_declines6", "dmodels_differ6", "dbadexn", "dambiguous"]


def class_closure(ctx, names):
    """the classes named, and every class their declarations refer to, in the order of the environment"""
    need, todo = set(), list(names)
    while todo:
        n = todo.pop()
        if n in need:
            continue
        need.add(n)
        for fd in ctx.ast(n)["fields"]:
            todo += [r for r in G6.refs_in(fd["field"]) if r not in need]
        todo += ctx.ancestors(n)
    return [c["name"] for c in ctx.asts if c["name"] in need]


def coq_eval(cases, items, ctx, tag, per=250):
    """items: emitted `dcase` records (one per case); every shard carries only the classes its cases need and
    evaluates `dsummary` (Check/C06chk.v) once per case.  Returns {fn: [indices]} for the functions FNS."""
    shards = []
    for s in range(0, len(items), per):
        names = class_closure(ctx, {k["c"]["name"] for k in cases[s:s + per]})
        env = "Definition env0 : env := %s." % E.lst(["\n  " + ctx.emit_classdef(n) for n in names])
        body = env + "\n" + ctx.coq_enums() + "\n"
        body += "Definition cases : list dcase := %s.\n" % E.lst(["\n " + i for i in items[s:s + per]])
        body += "Eval vm_compute in (map dsummary cases).\n"
        shards.append(body)
    res = core.eval_cases(shards, tag, HEADER)
    out = {fn: [] for fn in FNS}
    for si, (rc, so, se) in enumerate(res):
        vals = core.parse_eval(so)
        n = len(items[si * per:(si + 1) * per])
        codes = core.parse_nat_list(vals[0]) if (rc == 0 and len(vals) == 1) else None
        if codes is None or len(codes) != n:
            raise RuntimeError("case shard %d failed to evaluate: %s" % (si, (so + se)[-2000:]))
        for i, code in enumerate(codes):
            for bit, fn in enumerate(FNS):
                if code >> bit & 1:
                    out[fn].append(si * per + i)
    return out


def reify_obs(r):
    return ("ok", SG.reify_o(r[1])) if r[0] == "ok" else ("raise", r[1])


def correspondence(rep, stream, ctx, cases):
    if not cases:
        return
    docs = [SG.reify_o(k["doc"]) for k in cases]
    obs = [reify_obs(k["real"]) for k in cases]
    tbl = C5.tables_for(ctx, docs + [o[1] for o in obs if o[0] == "ok"])
    items = [C5.emit_dcase(k["c"]["name"], d, o, tbl, compact=k["compact"], ignore_invalid=k["ii"], ku=k["ku"])
             for k, d, o in zip(cases, docs, obs)]
    r = coq_eval(cases, items, ctx, "c06" + stream[:4])
    sname = "correspondence:deser" if stream == "documents" else "correspondence:deser(%s)" % stream
    rep.count(sname, len(items))
    s = rep.cov["streams"][sname]
    s["declined_by_model"] = len(r["dunmodelled"])
    s["declined_by_spec"] = len(r["dspec_declines6"])
    s["ambiguous_reading"] = len(r["dambiguous"])
    s["model_vs_spec_differ"] = len(r["dmodels_differ6"])
    oname = "correspondence:deserialize" if stream == "documents" else "correspondence:deserialize(%s)" % stream
    rep.obligation(oname, not r["dmismatch"], "%d documents, %d mismatches, %d outside the model" % (
        len(items), len(r["dmismatch"]), len(r["dunmodelled"])))
    # the Coq evaluation of the spec on the observation must agree with the Python-side oracle
    py_fail = {i for i, k in enumerate(cases) if k["verdict"] is not None}
    coq_fail = set(r["dspec_fail6"])
    declined = set(r["dspec_declines6"])
    diff = (py_fail ^ coq_fail) - declined
    rep.obligation("spec-on-observed:doc_to_kwargs(coq)=python-oracle" + ("" if stream == "documents" else "(%s)" % stream),
                   not diff, "%d spec failures (Coq) vs %d (Python), %d disagreements" % (len(coq_fail), len(py_fail), len(diff)))
    if diff:
        i = sorted(diff)[0]
        k = cases[i]
        rep.broken("spec-on-observed:doc_to_kwargs(%s)" % stream, "the Coq spec (Ser/DocReading.v) and its Python rendering "
                   "disagree on %d documents" % len(diff),
                   {"python": python_src(k["c"], k["doc"], ctx, k["ku"], k["ii"], k["compact"]),
                    "python_oracle": repr(k["verdict"]), "coq_spec_fail": i in coq_fail})
    if r["dmismatch"] and not any(not v["no_input"] for v in rep.violations):
        i = r["dmismatch"][0]
        k = cases[i]
        rep.broken(oname, "model (Ser/Deserialize.v) and typedpy differ on %d documents; the spec "
                   "holds on every explored document" % len(r["dmismatch"]),
                   {"python": python_src(k["c"], k["doc"], ctx, k["ku"], k["ii"], k["compact"]), "observed": repr(k["real"][:2])})


def replay(obj):
    src = obj.get("python")
    if not src:
        print("no replayable input recorded:", obj.get("detail", ""))
        return 2
    print(src[-1200:])
    ns = {}
    try:
        exec(src, ns)
        print("observed: accepted")
        bad = obj.get("verdict") in ("over-accepts", "different-instance")
    except Exception as ex:  # noqa
        print("observed: raises", type(ex).__name__, ex)
        bad = (E.exn_name(ex) not in TEVE) or obj.get("verdict") == "over-rejects"
    finally:
        from typedpy.structures import TypedPyDefaults as D
        D.ignore_invalid_additional_properties_in_deserialization = True
        D.compact_deserialization_default = False
    print("required:", {"over-accepts": "rejection (the constructor rejects the documented reading)",
                        "over-rejects": "acceptance (the constructor accepts the documented reading)",
                        "different-instance": "the instance the constructor builds"}.get(obj.get("verdict"), "TypeError/ValueError"))
    return 1 if bad else 0
