"""C06 — deserialization accepts exactly the JSON images of constructor-valid data.

Proof obligations: Props/C06.v (model Ser/Deserialize.v, spec Ser/DocReading.v).
Tie: correspondence of `deserialize` (model) with the real Deserializer on images of valid instances,
every single-point corruption named in the property and non-object documents, for keep_undefined and
ignore_invalid_additional_properties_in_deserialization in {True, False}.  Oracle on the implementation:
Deserializer(cls).deserialize(d) against cls(**lift(d)) where `lift` is the documented reading of the
document (a Python rendering of Ser/DocReading.v); the same spec is evaluated in Coq on the observation."""
import copy
import random

from harness import core
from harness import coqemit as E
from harness import fieldgen as G
from harness import sergen as SG
from harness.props import c05 as C5


class NotImage(Exception):
    """the document is not the JSON form of any constructor argument"""


class flags:
    def __init__(self, ignore_invalid, compact=False):
        self.ii, self.compact = ignore_invalid, compact

    def __enter__(self):
        from typedpy.structures import TypedPyDefaults as D
        self.old = (D.ignore_invalid_additional_properties_in_deserialization, D.compact_deserialization_default)
        D.ignore_invalid_additional_properties_in_deserialization = bool(self.ii)
        D.compact_deserialization_default = bool(self.compact)

    def __exit__(self, *a):
        from typedpy.structures import TypedPyDefaults as D
        D.ignore_invalid_additional_properties_in_deserialization, D.compact_deserialization_default = self.old


# ------------------------------------------------------------------ the documented reading, in Python

_accept_cache = {}


def option_accepts(g, w, ctx):
    key = repr(g)
    T = _accept_cache.get(key)
    if T is None:
        T = _accept_cache[key] = C5.single_field_class(g, ctx)
    try:
        T(f=w)
        return True
    except Exception:  # noqa
        return False


def compact_on():
    from typedpy.structures import TypedPyDefaults
    return bool(TypedPyDefaults.compact_deserialization_default)


def lift(f, j, ctx, ku, ii):
    t = f["t"]
    if t in ("num", "str", "bool", "enumlit", "any", "allof", "oneof", "not"):
        return j
    if t == "none":
        if j is None:
            return None
        raise NotImage()
    if t == "enumcls":
        cls = G.ENUMS[f["cls"]]
        if f["cls"] in SG.BY_VALUE:
            try:
                hash(j)
            except TypeError:
                raise NotImage()
            for m in cls:
                if m.value == j:
                    return m
            raise NotImage()
        if isinstance(j, str) and j in cls.__members__:
            return cls[j]
        raise NotImage()
    if t in ("seqany", "seqeach", "seqpos", "set", "tuple"):
        if type(j) is not list:
            raise NotImage()
        if t == "seqany" or (t == "set" and f.get("item") is None):
            r = list(j)
        elif t == "seqeach":
            r = [lift(f["item"], x, ctx, ku, ii) for x in j]
        elif t == "set":
            r = [lift(f["item"], x, ctx, ku, ii) for x in j]
        elif t == "tuple" and len(f["items"]) == 1:
            r = [lift(f["items"][0], x, ctx, ku, ii) for x in j]
        else:
            items = f["items"]
            r = [lift(items[i], x, ctx, ku, ii) if i < len(items) else x for i, x in enumerate(j)]
        if t == "set":
            if f.get("item") is not None and not all(option_accepts(f["item"], w, ctx) for w in r):
                raise NotImage()
            try:
                return set(r)
            except TypeError:
                raise NotImage()
        if t == "tuple":
            return tuple(r)
        import collections
        return r if f["k"] == "list" else collections.deque(r)
    if t == "mapany":
        if type(j) is not dict:
            raise NotImage()
        return j
    if t == "mapkv":
        if type(j) is not dict:
            raise NotImage()
        try:
            return {lift(f["kf"], k, ctx, ku, ii): lift(f["vf"], v, ctx, ku, ii) for k, v in j.items()}
        except TypeError:
            raise NotImage()
    if t == "anyof":
        for g in f["fs"]:
            try:
                w = lift(g, j, ctx, ku, ii)
            except NotImage:
                continue
            if option_accepts(g, w, ctx):
                return w
        raise NotImage()
    if t == "ref":
        try:
            return ctx.classes[f["cls"]](**doc_to_kwargs(ctx.ast(f["cls"]), j, ctx, ku, ii, compact_on()))
        except NotImage:
            raise
        except Exception:  # noqa  the constructor rejects the nested arguments
            raise NotImage()
    raise ValueError(f)


def doc_to_kwargs(c, d, ctx, ku, ii, compact):
    fields = {fd["name"]: fd["field"] for fd in ctx.all_fields(c["name"])}
    res = ctx.resolved(c["name"])
    if type(d) is not dict:
        if compact and len(fields) == 1 and res["required"] == list(fields) and not res["additional"]:
            (name, f), = fields.items()
            if res["ignore_none"] and d is None:
                return {name: None}
            return {name: lift(f, d, ctx, ku, ii)}
        raise NotImage()
    kw = {}
    for k, v in d.items():
        if not isinstance(k, str):
            raise NotImage()
        if k in fields:
            kw[k] = None if (res["ignore_none"] and v is None) else lift(fields[k], v, ctx, ku, ii)
        elif not ku:
            continue
        elif res["additional"]:
            kw[k] = v
        elif ii:
            continue
        else:
            raise NotImage()
    return kw


# ------------------------------------------------------------------ documents

JSON_POOL = [5, "5", True, 2.5, [1], {"k": 1}, "zz", -1, 0, [], {}, ""]


def corruptions(rnd, c, doc, ctx):
    """Single-point corruptions of the image `doc` of an instance of class AST c: [(label, field kind, doc')]."""
    out = []
    fields = {fd["name"]: fd["field"] for fd in c["fields"]}
    req = ctx.resolved(c["name"])["required"]
    if type(doc) is not dict:
        return out

    def put(label, kind, k, v):
        d = copy.deepcopy(doc)
        d[k] = v
        out.append((label, kind, d, (fields[k], v)))

    for k, f in fields.items():
        t = f["t"]
        if k in doc:
            jv = doc[k]
            put("null", t, k, None)
            wrong = [x for x in JSON_POOL if type(x) is not type(jv)]
            put("wrong-json-type", t, k, rnd.choice(wrong))
            if t == "num":
                put("numeric-string", t, k, str(jv))
                if f.get("min") is not None:
                    put("out-of-bound", t, k, G.unreify(f["min"]) - 1)
                if f.get("max") is not None:
                    put("out-of-bound", t, k, G.unreify(f["max"]) + 1)
                if f["s"] in ("Positive", "NonNegative"):
                    put("out-of-bound", t, k, -3 if f["k"] != "Float" else -3.5)
                if f["s"] in ("Negative", "NonPositive"):
                    put("out-of-bound", t, k, 3 if f["k"] != "Float" else 3.5)
            if t == "enumcls":
                put("unknown-enum-name", t, k, "NOPE")
                put("unknown-enum-name", t, k, 12345)
            if type(jv) is list:
                if jv:
                    put("short-array", t, k, jv[:-1])
                    i = rnd.randrange(len(jv))
                    bad = [x for x in JSON_POOL if type(x) is not type(jv[i])]
                    put("bad-element", t, k, jv[:i] + [rnd.choice(bad)] + jv[i + 1:])
                put("long-array", t, k, jv + [rnd.choice(JSON_POOL)])
                put("long-array", t, k, jv + jv[-1:])
            if type(jv) is dict and jv:
                kk = rnd.choice(list(jv))
                d2 = dict(jv)
                d2[kk] = rnd.choice([x for x in JSON_POOL if type(x) is not type(jv[kk])])
                put("bad-member", t, k, d2)
                d3 = dict(jv)
                del d3[kk]
                put("missing-member", t, k, d3)
                d4 = dict(jv)
                d4["zz_extra"] = 1
                put("extra-member", t, k, d4)
            if k in req:
                d = copy.deepcopy(doc)
                del d[k]
                out.append(("missing-required-key", t, d, None))
        else:
            put("wrong-json-type", t, k, rnd.choice(JSON_POOL))
    d = copy.deepcopy(doc)
    d["zz_extra"] = rnd.choice([1, "x", None, [1]])
    out.append(("extra-key", "class", d, None))
    return out


def empty_container_for_none(f, v):
    """an empty list/dict offered where a NoneField option can be reached (possibly as an element)"""
    def has_empty(x):
        if x == [] or x == {}:
            return True
        if type(x) is list:
            return any(has_empty(y) for y in x)
        if type(x) is dict:
            return any(has_empty(y) for y in x.values())
        return False
    return "none" in SG.field_kinds(f) and has_empty(v)


TOP_LEVEL = [5, "s", [1, 2], None, True, 2.5, [], ""]


# ------------------------------------------------------------------ running

def run_real(cls, d, ku, ii, compact):
    from typedpy import Deserializer
    with flags(ii, compact):
        try:
            y = Deserializer(cls).deserialize(copy.deepcopy(d), keep_undefined=ku)
            return ("ok", y)
        except Exception as ex:  # noqa
            return ("raise", E.exn_name(ex), str(ex)[:160])


def run_spec(c, d, ctx, ku, ii, compact):
    with flags(ii, compact):
        try:
            kw = doc_to_kwargs(c, copy.deepcopy(d), ctx, ku, ii, compact)
        except NotImage:
            return ("raise", "TypeError", "not a documented image")
        try:
            return ("ok", ctx.classes[c["name"]](**kw))
        except Exception as ex:  # noqa
            return ("raise", E.exn_name(ex), str(ex)[:160])


TEVE = ("TypeError", "ValueError", "InvalidStructureErr")


def verdict(real, spec):
    """None if the property holds on this case, else the kind of failure."""
    if real[0] == "raise" and real[1] not in TEVE:
        return "non-te-ve:" + real[1]
    if real[0] == "ok" and spec[0] == "ok":
        try:
            return None if real[1] == spec[1] else "different-instance"
        except Exception:  # noqa
            return "different-instance"
    if real[0] == "raise" and spec[0] == "raise":
        return None
    return "over-accepts" if real[0] == "ok" else "over-rejects"


def python_src(c, d, ctx, ku, ii, compact):
    return (SG.IMPORTS + "from typedpy import Deserializer\nfrom typedpy.structures import TypedPyDefaults\n" + ctx.source() +
            "\nTypedPyDefaults.ignore_invalid_additional_properties_in_deserialization = %r\n"
            "TypedPyDefaults.compact_deserialization_default = %r\n"
            "print(Deserializer(%s).deserialize(%r, keep_undefined=%r))\n" % (ii, compact, c["name"], d, ku))


def run(rep, tier):
    rnd = random.Random(core.seed() * 1000003 + 6)
    proofs_ok, model_ok = core.standard_proof_obligations(rep, "C06", ["theories/Check/C05chk.vo"])
    n_classes = 40 if tier == "quick" else 160
    ctx, pools = SG.build_world(rnd, n_classes, max_depth=2 if tier == "quick" else 3)
    from typedpy import Serializer
    cases = []      # dict(c, doc, label, kind, ku, ii, compact, real, spec, inst)
    for c in ctx.asts:
        cls = ctx.classes[c["name"]]
        res = ctx.resolved(c["name"])
        compact_ok = len(c["fields"]) == 1 and res["required"] == [c["fields"][0]["name"]] and not res["additional"]
        for kw, x in pools.get(c["name"], [])[:4]:
            try:
                doc = Serializer(x).serialize()
            except Exception:  # noqa   a C05 matter
                continue
            docs = [("image", "class", doc, None)]
            # corrupt only images on which the property holds (a failing image is reported as such)
            image_ok = all(verdict(run_real(cls, doc, ku, ii, False), run_spec(c, doc, ctx, ku, ii, False)) is None
                           for ku in (True, False) for ii in (True, False))
            if image_ok:
                cor = corruptions(rnd, c, doc, ctx)
                rnd.shuffle(cor)
                docs += cor[:10 if tier == "quick" else 40]
            docs += [("non-object-document", "class", rnd.choice(TOP_LEVEL), None)]
            for label, kind, d, inj in docs:
                combos = [(ku, ii) for ku in (True, False) for ii in (True, False)]
                if label not in ("image", "extra-key", "extra-member"):
                    combos = [rnd.choice(combos)]
                for ku, ii in combos:
                    compact = compact_ok and (label == "non-object-document" or rnd.random() < 0.3)
                    if label == "non-object-document" and compact:
                        inj = (c["fields"][0]["field"], d)
                    cases.append({"c": c, "doc": d, "label": label, "kind": kind, "ku": ku, "ii": ii,
                                  "compact": compact, "inst": x if label == "image" else None, "inj": inj})
    for case in cases:
        c = case["c"]
        case["real"] = run_real(ctx.classes[c["name"]], case["doc"], case["ku"], case["ii"], case["compact"])
        case["spec"] = run_spec(c, case["doc"], ctx, case["ku"], case["ii"], case["compact"])
        v = verdict(case["real"], case["spec"])
        case["verdict"] = v
        rep.count("documents", 1, (c["name"], case["label"], case["kind"], case["ku"], case["ii"], case["real"][0]))
        rep.stat("documents", "label:" + case["label"])
        rep.stat("documents", "outcome:" + (case["real"][0] if case["real"][0] == "ok" else case["real"][1]))
        rep.stat("documents", "flags:ku=%s,ii=%s" % (case["ku"], case["ii"]))
        if v is not None:
            shape = "%s:%s" % (case["label"], case["kind"])
            if v == "non-te-ve:IndexError" and case["inj"] is not None and \
                    SG.field_kinds(case["inj"][0]) & {"tuple", "seqpos"}:
                shape = "document-shorter-than-positional-items"
            if v == "over-accepts" and case["inj"] is not None and empty_container_for_none(*case["inj"]):
                shape = "nonefield-accepts-empty-container"
            if case["label"] == "image" and case["inst"] is not None:
                o = C5.observe(case["inst"], ctx.classes[c["name"]], False)
                if o["stage"] is not None:
                    key5, _, _ = C5.diagnose(c, [(k, SG.reify_o(x)) for k, x in case["inst"].__dict__.items()
                                                 if k not in ("_instantiated", "_none_fields", "_trust_supplied_values")],
                                             case["inst"], o, ctx)
                    shape = "image/" + key5.split("/", 2)[2]
            rep.finding("C06/%s/%s" % (v, shape),
                        "Deserializer(%s).deserialize(%r, keep_undefined=%r) [ignore_invalid=%r, compact=%r] -> %s; the "
                        "constructor on the documented reading -> %s" % (
                            c["name"], case["doc"], case["ku"], case["ii"], case["compact"],
                            case["real"][:2] if case["real"][0] == "raise" else "accepted " + repr(case["real"][1]),
                            case["spec"][:2] if case["spec"][0] == "raise" else "accepted " + repr(case["spec"][1])),
                        {"python": python_src(c, case["doc"], ctx, case["ku"], case["ii"], case["compact"]),
                         "label": case["label"], "verdict": v})
    nfail = sum(1 for k in cases if k["verdict"] is not None)
    acc = sum(1 for k in cases if k["real"][0] == "ok")
    rep.obligation("spec-on-observed:constructor-on-documented-reading", True,
                   "%d documents (%d accepted), %d spec failures (each reported as a finding)" % (len(cases), acc, nfail))
    if cases and not (0.1 <= acc / len(cases) <= 0.9):
        rep.broken("generator:accept-rate", "accept rate %.2f outside [0.1, 0.9]: inconclusive" % (acc / len(cases)))
    for i in (0, len(cases) // 2, len(cases) - 1):
        if cases:
            k = cases[i]
            rep.sample({"class": SG.class_src(k["c"]), "doc": repr(k["doc"])[:200], "label": k["label"],
                        "real": repr(k["real"][:2])[:200]})
    if model_ok:
        try:
            correspondence(rep, ctx, cases)
        except RuntimeError as ex:
            rep.broken("correspondence:coq-eval", str(ex))
    if not proofs_ok:
        from harness.props.c17 import broken_build
        broken_build(rep)
    rep.assumptions += [
        "re.match is an oracle (Section variable), instantiated per run by a table filled from the real re module",
        "keep_undefined ranges over {True, False} as in the property's quantifier (None is exercised by C05)",
        "C06_agree is proved for the fragment stated in Props/C06.v; elsewhere the two executable models are "
        "compared with each other and with the implementation on every generated document",
    ]
    return rep.finish(
        rule="documents = real serialized images of valid instances of generated fragment classes, up to 10 single-point "
             "corruptions each (null, wrong JSON type, numeric string, out-of-bound, unknown enum name, short/long array, "
             "bad element/member, missing required key, extra key/member) and non-object documents; keep_undefined x "
             "ignore_invalid in {T,F}^2 for images and extra keys; distinct = (class, label, field kind, flags, outcome)")


def reify_obs(r):
    return ("ok", SG.reify_o(r[1])) if r[0] == "ok" else ("raise", r[1])


def correspondence(rep, ctx, cases):
    docs = [SG.reify_o(k["doc"]) for k in cases]
    obs = [reify_obs(k["real"]) for k in cases]
    tbl = C5.tables_for(ctx, docs + [o[1] for o in obs if o[0] == "ok"])
    items = [C5.emit_dcase(k["c"]["name"], d, o, tbl, compact=k["compact"], ignore_invalid=k["ii"], ku=k["ku"])
             for k, d, o in zip(cases, docs, obs)]
    fns = ["dmismatch", "dunmodelled", "dspec_fail", "dspec_declines", "dmodels_differ", "dbadexn"]
    r = C5.coq_eval(items, "dcase", fns, ctx, "c06")
    rep.count("correspondence:deser", len(items))
    s = rep.cov["streams"]["correspondence:deser"]
    s["declined_by_model"] = len(r["dunmodelled"])
    s["declined_by_spec"] = len(r["dspec_declines"])
    s["model_vs_spec_differ"] = len(r["dmodels_differ"])
    rep.obligation("correspondence:deserialize", not r["dmismatch"], "%d documents, %d mismatches, %d outside the model" % (
        len(items), len(r["dmismatch"]), len(r["dunmodelled"])))
    # the Coq evaluation of the spec on the observation must agree with the Python-side oracle
    py_fail = {i for i, k in enumerate(cases) if k["verdict"] is not None}
    coq_fail = set(r["dspec_fail"])
    declined = set(r["dspec_declines"])
    diff = (py_fail ^ coq_fail) - declined
    rep.obligation("spec-on-observed:doc_to_kwargs(coq)=python-oracle", not diff,
                   "%d spec failures (Coq) vs %d (Python), %d disagreements" % (len(coq_fail), len(py_fail), len(diff)))
    if diff:
        i = sorted(diff)[0]
        k = cases[i]
        rep.broken("spec-on-observed:doc_to_kwargs", "the Coq spec (Ser/DocReading.v) and its Python rendering disagree on "
                   "%d documents" % len(diff),
                   {"python": python_src(k["c"], k["doc"], ctx, k["ku"], k["ii"], k["compact"]),
                    "python_oracle": repr(k["verdict"]), "coq_spec_fail": i in coq_fail})
    if r["dmismatch"] and not any(not v["no_input"] for v in rep.violations):
        i = r["dmismatch"][0]
        k = cases[i]
        rep.broken("correspondence:deserialize", "model (Ser/Deserialize.v) and typedpy differ on %d documents; the spec "
                   "holds on every explored document" % len(r["dmismatch"]),
                   {"python": python_src(k["c"], k["doc"], ctx, k["ku"], k["ii"], k["compact"]), "observed": repr(k["real"][:2])})


def replay(obj):
    src = obj.get("python")
    if not src:
        print("no replayable input recorded:", obj.get("detail", ""))
        return 2
    print(src[-1200:])
    ns = {}
    try:
        exec(src, ns)
        print("observed: accepted")
        bad = obj.get("verdict") in ("over-accepts", "different-instance")
    except Exception as ex:  # noqa
        print("observed: raises", type(ex).__name__, ex)
        bad = (E.exn_name(ex) not in TEVE) or obj.get("verdict") == "over-rejects"
    finally:
        from typedpy.structures import TypedPyDefaults as D
        D.ignore_invalid_additional_properties_in_deserialization = True
        D.compact_deserialization_default = False
    print("required:", {"over-accepts": "rejection (the constructor rejects the documented reading)",
                        "over-rejects": "acceptance (the constructor accepts the documented reading)",
                        "different-instance": "the instance the constructor builds"}.get(obj.get("verdict"), "TypeError/ValueError"))
    return 1 if bad else 0
