"""C09 — schema-to-code output always executes and is equivalent to the schema.

Proof obligations: Props/C09.v (exact characterisation, for all strings, of what every quoting
discipline of the generator emits correctly; repr is total; composition over a generated class).
Generated layer: Gen/EmitSites.v (harness/gen.py: AST of json_schema_mapping.py / commons.py ->
discipline of every emission site), re-derived each run.
Tie to the code, evaluated inside Coq (Check/C09chk.v):
  * stream lexer : the lexer model against CPython's tokenizer + literal_eval on arbitrary literal text;
  * stream probe : one schema string at one emission site: the literal text the real generator wrote
                   against the model's `emit`, and what CPython reads back against the model's `lex_tok`;
  * stream class : whole classes of the modelled fragment: real generated source against
                   `render (class_toks c)`, model prediction against compile/exec/back-mapping; the required list
                   structure_to_schema returns against `back_required (final_required ..)`;
  * stream module: (main schema, definitions referring to each other) through write_code_from_schema (harness/c09mod.py):
                   the written file against `render (module_toks ..)` under the GENERATED layout Gen/ModuleLayout.v,
                   CPython's NameError (which name) against `first_unbound`.
Spec clauses evaluated on the implementation alone (these give the replays): generated source compiles,
executes to Structure classes, structure_to_schema of them returns the input schema up to key order
and required order, the caller's schema is left intact, the docstring carries the description; on the
exact sub-fragment the generated class accepts a document iff an independent draft-4 validator does."""
import ast
import copy
import io
import json
import os
import random
import re
import subprocess
import sys
import tokenize
import warnings

from harness import core
from harness import coqemit as E

MARK = "QZMARKQZ"
VT_PY = "python3-vt"

# ------------------------------------------------------------------------------------ strings

PLAIN = ["a", "abc", "x1", " ", "A-Z", "[0-9]+", "$", "^ab", ".", "{x}", "%s", "#", ",", "=", "(b)", "Z_9"]
HOT = ["'", "'", '"', "\\", "\\", "\n", '"""', "'''", "é", "中", "😀", "​", "\x85", "\xa0", "\t",
       "\\d", "\\n", "\\\\", "\\'", '\\"', "\\x41", "\\u00e9", "\\1", "\\N", "\\U0001F600", "\\8", "\\x4"]
RARE = ["\r", "\x00", "\x1b", "\x7f", "\ud800", "\r\n", "\\\n", "\\\r"]
TRIGGERS = [("quote", "'"), ("triplequote", '"""'), ("backslash", "\\"), ("newline", "\n"), ("cr", "\r"),
            ("nul", "\x00")]


def gen_string(rnd, hot=0.6):
    n = rnd.choice([1, 1, 2, 2, 3, 4])
    out = []
    for _ in range(n):
        r = rnd.random()
        if r < hot * 0.9:
            out.append(rnd.choice(HOT))
        elif r < hot:
            out.append(rnd.choice(RARE))
        else:
            out.append(rnd.choice(PLAIN))
    return "".join(out)


IDENT_PIECES = ["a", "b1", "_x", "Name", "from", "class", "in", "is", "None", "type", "x y", "a-b", "9a", "a.b",
                "a'", 'q"', "", "a\\", "a#b", "a\nb", "lambda", "items", "a[0]", "async", "p"]


def gen_ident(rnd):
    if rnd.random() < 0.75:
        return rnd.choice(IDENT_PIECES)
    return rnd.choice(IDENT_PIECES) + rnd.choice(IDENT_PIECES)


def trigger_of(s, site):
    """The first character class in s that a raw discipline cannot carry ('plain' when there is none)."""
    if site == "description":
        order = ["triplequote", "backslash", "cr", "nul"]
    else:
        order = ["quote", "backslash", "newline", "cr", "nul"]
    d = dict(TRIGGERS)
    for k in order:
        if d[k] in s:
            return k
    if any(0xD800 <= ord(c) <= 0xDFFF for c in s):
        return "surrogate"
    return "plain"


def is_hot(s):
    return any(c in s for c in "'\"\\\n\r\x00") or any(0xD800 <= ord(c) <= 0xDFFF for c in s)


# ------------------------------------------------------------------------------------ the generator under test

def _api():
    from typedpy.json_schema.json_schema_mapping import (schema_to_struct_code, schema_definitions_to_code,
                                                         structure_to_schema)
    return schema_to_struct_code, schema_definitions_to_code, structure_to_schema


def run_generator(name, schema, defs):
    """-> ("ok", code, defs_code) | ("raise", exception class name, message)"""
    s2c, d2c, _ = _api()
    try:
        dcode = d2c(defs) if defs else ""
        code = s2c(name, schema, defs)
        return ("ok", code, dcode)
    except Exception as e:  # noqa
        return ("raise", E.exn_name(e), str(e)[:200])


def exec_code(code, dcode=""):
    """-> ("ok", namespace) | ("compile", msg) | ("exec", exception class, msg)"""
    src = "from typedpy import *\n\n" + (dcode + "\n\n\n" if dcode else "") + code + "\n"
    try:
        with warnings.catch_warnings():
            warnings.simplefilter("ignore")
            co = compile(src, "<generated>", "exec")
    except (SyntaxError, ValueError, UnicodeError) as e:
        return ("compile", "%s: %s" % (type(e).__name__, str(e)[:160]))
    ns = {}
    try:
        exec(co, ns)
    except Exception as e:  # noqa
        return ("exec", type(e).__name__, str(e)[:160])
    return ("ok", ns)


# ------------------------------------------------------------------------------------ site probes

def probe_schema(site, s):
    """(class name, schema, definitions) holding s at exactly one emission site."""
    name = "K"
    props = {"p": {"type": "integer"}}
    sch = {"type": "object", "properties": props, "required": ["p"], "additionalProperties": True}
    if site == "pattern":
        props["p"] = {"type": "string", "pattern": s}
    elif site == "default":
        props["p"] = {"type": "string", "default": s}
    elif site == "default_container":
        props["p"] = {"type": "array", "items": {"type": "string"}, "default": [s]}
    elif site == "enum":
        props["p"] = {"enum": [s]}
    elif site == "required":
        sch["required"] = [s]
    elif site == "nested_required":
        props["p"] = {"type": "object", "properties": {"z": {"type": "integer"}, "y": {"type": "integer"}},
                      "required": [s], "additionalProperties": True}
    elif site == "description":
        sch["description"] = s
    elif site == "property_name":
        sch["properties"] = {s: {"type": "integer"}}
        sch["required"] = []
    elif site == "nested_property_name":
        props["p"] = {"type": "object", "properties": {s: {"type": "integer"}, "y": {"type": "integer"}},
                      "required": ["y"], "additionalProperties": True}
    elif site == "struct_name":
        name = s
    elif site == "ref":
        props["p"] = {"$ref": "#/definitions/" + s}
    else:
        raise ValueError(site)
    return name, sch, {}


PROBE_SITES = ["pattern", "default", "default_container", "enum", "required", "nested_required", "description",
               "property_name", "nested_property_name", "struct_name", "ref"]
IDENT_SITES = {"property_name", "nested_property_name", "struct_name", "ref"}
_frames = {}


def probe_frame(site):
    """Fixed text before / after the literal of a site, learnt from a run with a plain marker."""
    if site not in _frames:
        name, sch, defs = probe_schema(site, MARK)
        r = run_generator(name, sch, defs)
        if r[0] != "ok" or r[1].count(MARK) != 1:
            _frames[site] = None
        else:
            code = r[1]
            i = code.index(MARK)
            pre, post = code[:i], code[i + len(MARK):]
            if '"""' in pre:
                pre = pre[:pre.rindex('"""')]
                post = post[post.index('"""') + 3:] if '"""' in post else post
            else:
                pre, post = pre.rstrip("'\""), post.lstrip("'\"")
            _frames[site] = (pre, post)
    return _frames[site]


def probe_literal(site, code):
    fr = probe_frame(site)
    if fr is None:
        return None
    pre, post = fr
    if code.startswith(pre) and code.endswith(post) and len(code) >= len(pre) + len(post):
        return code[len(pre):len(code) - len(post)]
    return None


def _const_str(node):
    if isinstance(node, ast.Constant) and isinstance(node.value, str):
        return ("val", node.value)
    return ("other",)


def observe_site(site, code):
    """What CPython's parser finds at the site: ("err",) | ("other",) | ("val", str)."""
    try:
        with warnings.catch_warnings():
            warnings.simplefilter("ignore")
            tree = ast.parse(code)
    except (SyntaxError, ValueError, UnicodeError, MemoryError, RecursionError):
        return ("err",)
    try:
        if len(tree.body) != 1 or not isinstance(tree.body[0], ast.ClassDef):
            return ("other",)
        cls = tree.body[0]
        if site == "struct_name":
            ok = len(cls.bases) == 1 and isinstance(cls.bases[0], ast.Name) and cls.bases[0].id == "Structure"
            return ("val", cls.name) if ok else ("other",)
        if site == "description":
            first = cls.body[0]
            return _const_str(first.value) if isinstance(first, ast.Expr) else ("other",)
        anns = [n for n in cls.body if isinstance(n, ast.AnnAssign)]
        if site == "required":
            asg = [n for n in cls.body if isinstance(n, ast.Assign) and isinstance(n.targets[0], ast.Name)
                   and n.targets[0].id == "_required"]
            if len(asg) != 1 or len(anns) != 1 or len(cls.body) != 2 or not isinstance(asg[0].value, ast.List) \
                    or len(asg[0].value.elts) != 1:
                return ("other",)
            return _const_str(asg[0].value.elts[0])
        if len(anns) != 1 or len(cls.body) != 2:
            return ("other",)
        a = anns[0]
        if site == "property_name":
            return ("val", a.target.id) if isinstance(a.target, ast.Name) and isinstance(a.annotation, ast.Call) \
                else ("other",)
        if not (isinstance(a.target, ast.Name) and a.target.id == "p"):
            return ("other",)
        if site == "ref":
            return ("val", a.annotation.id) if isinstance(a.annotation, ast.Name) else ("other",)
        call = a.annotation
        if not isinstance(call, ast.Call) or call.args:
            return ("other",)
        kws = {k.arg: k.value for k in call.keywords}
        if site == "pattern":
            return _const_str(kws["pattern"]) if set(kws) == {"pattern"} else ("other",)
        if site == "default":
            return _const_str(kws["default"]) if set(kws) == {"default"} else ("other",)
        if site == "default_container":
            v = kws.get("default")
            if set(kws) != {"items", "default"} or not isinstance(v, ast.Lambda) or not isinstance(v.body, ast.List) \
                    or len(v.body.elts) != 1:
                return ("other",)
            return _const_str(v.body.elts[0])
        if site == "enum":
            v = kws.get("values")
            if set(kws) != {"values"} or not isinstance(v, ast.List) or len(v.elts) != 1:
                return ("other",)
            return _const_str(v.elts[0])
        if site == "nested_required":
            v = kws.get("_required")
            if set(kws) != {"_required", "z", "y"} or not isinstance(v, ast.List) or len(v.elts) != 1:
                return ("other",)
            return _const_str(v.elts[0])
        if site == "nested_property_name":
            names = [k.arg for k in call.keywords]
            if len(names) != 3 or names[0] != "_required" or names[2] != "y" or names[1] is None:
                return ("other",)
            return ("val", names[1])
    except (AttributeError, IndexError, KeyError, TypeError):
        return ("other",)
    return ("other",)


def observe_compiles(code):
    try:
        with warnings.catch_warnings():
            warnings.simplefilter("ignore")
            ast.parse(code)
        return True
    except (SyntaxError, ValueError, UnicodeError, MemoryError, RecursionError):
        return False


def norm_schema(s, top=False):
    """Input schema up to what the statement allows: key order, required order; absent
    additionalProperties means true."""
    if isinstance(s, list):
        return [norm_schema(x) for x in s]
    if not isinstance(s, dict):
        return s
    out = {}
    for k, v in s.items():
        if k == "required" and isinstance(v, list):
            out[k] = sorted(v, key=repr)
        elif k == "properties" and isinstance(v, dict):
            out[k] = {n: norm_schema(x) for n, x in v.items()}
        elif k in ("items", "additionalProperties", "allOf", "anyOf", "oneOf", "not", "additionalItems"):
            out[k] = norm_schema(v)
        else:
            out[k] = v
    if out.get("type", None) == "object" and "properties" in out:
        out.setdefault("additionalProperties", True)
    return out


def back_map(ns, name):
    """structure_to_schema of the generated class -> ("ok", schema, defs) | ("raise", cls, msg)"""
    _, _, s2s = _api()
    try:
        sch, defs = s2s(ns[name], {})
        return ("ok", json.loads(json.dumps(sch)), json.loads(json.dumps(defs)))
    except Exception as e:  # noqa
        return ("raise", type(e).__name__, str(e)[:160])


def probe_in_domain(site, s):
    """Is (site, s) inside the fragment the statement speaks about (exec-level clause)?"""
    if site in IDENT_SITES:
        return s.isascii() and s.isidentifier() and not s.startswith("_") and s not in ("Structure",)
    if site in ("required", "nested_required"):
        return False          # entries of required are property names: covered by the identifier sites
    if site == "pattern":
        try:
            with warnings.catch_warnings():
                warnings.simplefilter("ignore")
                re.compile(s)
        except (re.error, RecursionError, OverflowError):
            return False
    if any(0xD800 <= ord(c) <= 0xDFFF for c in s):
        return False          # not a JSON-interchangeable string
    return True


_probe_cache = {}


def probe_spec(site, s):
    """Exec-level clause on the minimal schema holding s at `site`: None if it holds, else a description."""
    key = (site, s)
    if key in _probe_cache:
        return _probe_cache[key]
    name, sch, defs = probe_schema(site, s)
    if site == "ref":
        defs = {s: {"type": "object", "properties": {"n": {"type": "integer"}}, "required": ["n"],
                    "additionalProperties": True}}
    inp = copy.deepcopy(sch)
    r = run_generator(name, sch, defs)
    res = None
    if r[0] == "raise":
        res = "generator raised %s: %s" % (r[1], r[2])
    else:
        x = exec_code(r[1], r[2])
        if x[0] == "compile":
            res = "generated source does not compile (%s)" % x[1]
        elif x[0] == "exec":
            res = "generated source raises %s at exec: %s" % (x[1], x[2])
        else:
            ns = x[1]
            if site == "description":
                doc = ns[name].__doc__
                if doc is None or doc.strip(" \n") != s.strip(" \n"):
                    res = "class docstring %r is not the description %r" % (doc, s)
            else:
                b = back_map(ns, name)
                if b[0] == "raise":
                    res = "structure_to_schema of the generated class raised %s: %s" % (b[1], b[2])
                else:
                    want = norm_schema(inp)
                    if site in ("default", "default_container"):
                        pass
                    if norm_schema(b[1]) != want:
                        res = "schema mapped back %r differs from the input %r" % (b[1], inp)
    _probe_cache[key] = res
    return res


def probe_python(site, s):
    name, sch, defs = probe_schema(site, s)
    return ("from typedpy import *\nfrom typedpy.json_schema.json_schema_mapping import schema_to_struct_code\n"
            "code = schema_to_struct_code(%r, %r, {})\nprint(code)\nexec(code)\n" % (name, sch))


# ------------------------------------------------------------------------------------ lexer stream

LEX_ALPHA = ["'", "'", '"', '"', "\\", "\\", "\n", "a", "n", "x", "u", "U", "N", "0", "1", "7", "8", "9", "f",
             "4", "{", "}", " ", "é", "😀", "t", "r", "b", "v", "A", "F", "g", "d"]


def gen_lex_text(rnd):
    r = rnd.random()
    q = rnd.choice(["'", '"'])
    if r < 0.25:
        # a repr() output followed by arbitrary text
        return repr(gen_string(rnd)) + "".join(rnd.choice(LEX_ALPHA) for _ in range(rnd.randint(0, 3)))
    if r < 0.40:
        body = "".join(rnd.choice(LEX_ALPHA) for _ in range(rnd.randint(0, 8)))
        return q * 3 + body + q * rnd.choice([3, 3, 3, 2, 4]) + rnd.choice(["", "x", q])
    if r < 0.55:
        # hex / octal / unicode escapes, well and ill formed
        esc = rnd.choice(["\\x", "\\u", "\\U", "\\", "\\N"]) + "".join(
            rnd.choice("0123456789abcdefABCDEFg") for _ in range(rnd.choice([1, 2, 3, 4, 5, 8, 8, 9])))
        return q + rnd.choice(["", "a"]) + esc + rnd.choice(["", "z", "7"]) + q
    body = "".join(rnd.choice(LEX_ALPHA) for _ in range(rnd.randint(0, 9)))
    return q + body + rnd.choice([q, q, ""])


def py_lex(text):
    """CPython's tokenizer on `text`: value of the string literal at its head and the remaining text."""
    try:
        tok = next(tokenize.generate_tokens(io.StringIO(text).readline))
    except (tokenize.TokenError, SyntaxError, IndentationError, StopIteration):
        return None
    if tok.type != tokenize.STRING or tok.start != (1, 0) or not text.startswith(tok.string):
        return None
    try:
        with warnings.catch_warnings():
            warnings.simplefilter("ignore")
            v = ast.literal_eval(tok.string)
    except (SyntaxError, ValueError):
        return None
    if not isinstance(v, str):
        return None
    return (v, text[len(tok.string):])


# ------------------------------------------------------------------------------------ schemas

NAMES = ["a", "b", "name", "kind", "tags", "n", "x1", "items", "type", "val", "sub"]
KEYWORD_NAMES = ["from", "class", "in", "is", "import", "global", "pass", "with", "not", "None"]


def gen_payload(rnd, hotness):
    return gen_string(rnd, hot=0.7) if rnd.random() < hotness else rnd.choice(PLAIN + ["abc", "hello", "x y", "é"])


def valid_regex(s):
    try:
        with warnings.catch_warnings():
            warnings.simplefilter("ignore")
            re.compile(s)
        return True
    except Exception:  # noqa
        return False


def gen_field(rnd, depth, defs, hotness, ext, prop=False):
    """A property schema.  ext: allow constructs outside the modelled/clean fragment."""
    r = rnd.random()
    if depth >= 2:
        r = r * 0.55
    sch = None
    if r < 0.20:
        sch = {"type": "string"}
        if rnd.random() < 0.3:
            sch["minLength"] = rnd.randint(0, 3)
        if rnd.random() < 0.3:
            sch["maxLength"] = rnd.randint(3, 9)
        if rnd.random() < 0.5:
            p = gen_payload(rnd, hotness)
            if not valid_regex(p) or any(0xD800 <= ord(c) <= 0xDFFF for c in p) or "\x00" in p:
                p = rnd.choice(["^[a-z]+$", "a'b", "\\d+", "x\\\\y", "q\"q", "a\nb"]) if rnd.random() < hotness else "^[a-z]+$"
            sch["pattern"] = p
        if prop and rnd.random() < 0.3:
            sch = {"type": "string", "default": clean_json_str(gen_payload(rnd, hotness)).replace("\x00", "")}
    elif r < 0.32:
        sch = {"type": rnd.choice(["integer", "number"])}
        if rnd.random() < 0.4:
            sch["minimum"] = rnd.choice([0, 1, -5, 2.5]) if sch["type"] == "number" else rnd.choice([0, 1, -5])
        if rnd.random() < 0.4:
            sch["maximum"] = rnd.choice([10, 100, 7.25]) if sch["type"] == "number" else rnd.choice([10, 100])
            if rnd.random() < 0.3:
                sch["exclusiveMaximum"] = True
        if ext and "minimum" in sch and rnd.random() < 0.25:
            sch["exclusiveMinimum"] = True
        if prop and rnd.random() < 0.2:
            sch["default"] = sch.get("minimum", 3) if not sch.get("exclusiveMaximum") else 3
    elif r < 0.38:
        sch = {"type": "boolean"}
        if prop and rnd.random() < 0.2:
            sch["default"] = rnd.choice([True, False])
    elif r < 0.50:
        vals = []
        for _ in range(rnd.randint(1, 3)):
            v = clean_json_str(gen_payload(rnd, hotness)) if rnd.random() < 0.75 else rnd.choice([1, 2, 3, 2.5])
            if v not in vals:
                vals.append(v)
        sch = {"enum": vals}
        if prop and rnd.random() < 0.15:
            sch["default"] = vals[0]
    elif r < 0.55 and defs:
        sch = {"$ref": "#/definitions/" + rnd.choice(sorted(defs))}
    elif r < 0.70:
        sch = {"type": "array"}
        k = rnd.random()
        if rnd.random() < 0.3:
            sch["uniqueItems"] = rnd.choice([True, False])
        if k < 0.45:
            sch["items"] = gen_field(rnd, depth + 1, defs, hotness, ext)
        elif k < 0.8:
            if rnd.random() < 0.5:
                sch["additionalItems"] = rnd.choice([True, False])
            sch["items"] = [gen_field(rnd, depth + 1, defs, hotness, ext) for _ in range(rnd.randint(1, 3))]
        if ext and rnd.random() < 0.4:
            sch[rnd.choice(["minItems", "maxItems"])] = rnd.randint(1, 4)
        if prop and rnd.random() < 0.3 and sch.get("items") == {"type": "string"} and not sch.get("uniqueItems") \
                and "minItems" not in sch and "maxItems" not in sch:
            sch["default"] = [clean_json_str(gen_payload(rnd, hotness))]
    elif r < 0.80:
        kw = rnd.choice(["allOf", "anyOf", "oneOf", "not"])
        if kw == "not" and ext and rnd.random() < 0.6:
            sch = {"not": gen_field(rnd, depth + 1, defs, hotness, ext)}        # the draft-4 form
        else:
            sch = {kw: [gen_field(rnd, depth + 1, defs, hotness, ext) for _ in range(rnd.randint(1, 3))]}
    elif r < 0.92:
        props = {}
        for n in rnd.sample(NAMES, rnd.randint(1, 3)):
            props[n] = gen_field(rnd, depth + 1, defs, hotness, ext, prop=True)
        sch = {"type": "object", "properties": props}
        names = list(props)
        req = [n for n in names if "default" in props[n] or rnd.random() < 0.6]
        if ext and rnd.random() < 0.15:
            req = [n for n in req if "default" not in props[n]]
        if len(names) == 1 and not ext:
            sch["additionalProperties"] = True
        elif rnd.random() < 0.7:
            sch["additionalProperties"] = rnd.choice([True, False])
        if not ext or rnd.random() < 0.85:
            sch["required"] = req
        if not ext and sch.get("additionalProperties") is False and len(names) == 1:
            sch["additionalProperties"] = True
    else:
        sch = {"type": "object"}
        if rnd.random() < 0.7:
            sch["additionalProperties"] = gen_field(rnd, depth + 1, defs, hotness, ext)
            if prop and rnd.random() < 0.4 and sch["additionalProperties"] == {"type": "integer"}:
                sch["default"] = {clean_json_str(gen_payload(rnd, hotness)): 0}
        elif ext and rnd.random() < 0.3:
            sch["additionalProperties"] = False
        if ext and rnd.random() < 0.2:
            sch[rnd.choice(["minProperties", "maxProperties"])] = rnd.randint(1, 3)
    if ext and rnd.random() < 0.04 and "$ref" not in sch:
        sch["description"] = gen_payload(rnd, hotness)
    return sch


def clean_json_str(s):
    """Strings exchanged as JSON: no lone surrogates."""
    return "".join(c for c in s if not 0xD800 <= ord(c) <= 0xDFFF)


def gen_class_schema(rnd, hotness, ext):
    if ext and rnd.random() < 0.05:
        # a top-level schema that is not an object (the generator's `wrapped` convention)
        sch = rnd.choice([{"type": "string", "maxLength": 5}, {"type": "integer", "minimum": 0}, {"enum": ["a", "b", 3]},
                          {"type": "array", "items": {"type": "integer"}}])
        return "Gen%d" % rnd.randint(0, 10 ** 6), copy.deepcopy(sch), {}
    defs = {}
    for i in range(rnd.choice([0, 0, 1, 2])):
        dn = "Def%d" % i
        props = {n: gen_field(rnd, 1, {}, hotness, False, prop=False) for n in rnd.sample(NAMES, rnd.randint(1, 2))}
        defs[dn] = {"type": "object", "properties": props, "required": sorted(props), "additionalProperties": True}
        for p in props.values():
            p.pop("default", None)
    names = rnd.sample(NAMES, rnd.randint(1, 4))
    if ext and rnd.random() < 0.08:
        names[0] = rnd.choice(KEYWORD_NAMES)
    props = {n: gen_field(rnd, 0, defs, hotness, ext, prop=True) for n in names}
    sch = {"type": "object", "properties": props}
    if rnd.random() < 0.3:
        sch["description"] = clean_json_str(gen_payload(rnd, hotness))
    r = rnd.random()
    has_default = any("default" in p for p in props.values())
    if r < 0.9 or (not ext):
        req = []
        for n in names:
            # a property with a default is listed (the generator takes it out, the back-mapping puts it back)
            if "default" in props[n] or rnd.random() < 0.6:
                req.append(n)
        if ext and has_default and rnd.random() < 0.25:
            req = [n for n in req if "default" not in props[n]]
        rnd.shuffle(req)
        sch["required"] = req
    if rnd.random() < 0.7:
        sch["additionalProperties"] = rnd.choice([True, True, False])
    if not ext and sch.get("additionalProperties") is False and len(names) == 1 and sch.get("required") == names:
        sch["additionalProperties"] = True
    return "Gen%d" % rnd.randint(0, 10 ** 6), sch, defs


# ------------------------------------------------------------------------------------ schema -> model AST

class Unmodelled(Exception):
    pass


def py_text(v):
    return "%s" % (v,)


def to_lit(v):
    if isinstance(v, str):
        return ("str", v)
    if isinstance(v, (bool, int, float)):
        return ("raw", py_text(v))
    raise Unmodelled("literal %r" % (v,))


def to_default(sch):
    if "default" not in sch:
        return None
    d = sch["default"]
    if isinstance(d, list):
        return ("list", [to_lit(x) for x in d])
    if isinstance(d, dict):
        return ("dict", [(k, to_lit(v)) for k, v in d.items()])
    if d is None:
        raise Unmodelled("null default")
    return ("scalar", to_lit(d))


def nums(sch, keys):
    return [(k, py_text(sch[k])) for k in keys if sch.get(k) is not None]


def to_field(sch):
    if not isinstance(sch, dict):
        raise Unmodelled("schema is not a dict")
    if "$ref" in sch:
        if set(sch) != {"$ref"} or not sch["$ref"].startswith("#/definitions/"):
            raise Unmodelled("$ref with siblings")
        return ("ref", sch["$ref"][len("#/definitions/"):])
    known = {"type", "minLength", "maxLength", "pattern", "default", "minimum", "maximum", "exclusiveMaximum", "enum", "items",
             "uniqueItems", "additionalItems", "minItems", "maxItems", "allOf", "anyOf", "oneOf", "not", "properties", "required",
             "additionalProperties"}
    if set(sch) - known:
        raise Unmodelled("keyword %s" % sorted(set(sch) - known))
    multi = [k for k in ("allOf", "anyOf", "oneOf", "not") if k in sch]
    if multi:
        if len(multi) != 1 or list(sch)[0] != multi[0] or set(sch) - {multi[0], "default"}:
            raise Unmodelled("multi with siblings")
        ctor = {"allOf": "AllOf", "anyOf": "AnyOf", "oneOf": "OneOf", "not": "NotField"}[multi[0]]
        v = sch[multi[0]]
        if isinstance(v, list):
            return ("multi", ctor, "many", [to_field(x) for x in v], to_default(sch))
        return ("multi", ctor, "one", [to_field(v)], to_default(sch))
    if "enum" in sch:
        if set(sch) - {"enum", "default"}:
            raise Unmodelled("enum with siblings")
        return ("enum", [to_lit(x) for x in sch["enum"]], to_default(sch))
    t = sch.get("type", "object")
    if t == "string":
        if set(sch) - {"type", "minLength", "maxLength", "pattern", "default"}:
            raise Unmodelled("string keywords")
        return ("string", nums(sch, ["minLength", "maxLength"]), sch.get("pattern"), to_default(sch))
    if t in ("integer", "number"):
        if set(sch) - {"type", "minimum", "maximum", "exclusiveMaximum", "default"}:
            raise Unmodelled("number keywords")
        return ("numeric", "Integer" if t == "integer" else "Number",
                nums(sch, ["minimum", "maximum", "exclusiveMaximum"]), to_default(sch))
    if t == "boolean":
        if set(sch) - {"type", "default"}:
            raise Unmodelled("boolean keywords")
        return ("boolean", to_default(sch))
    if t == "array":
        if set(sch) - {"type", "items", "uniqueItems", "additionalItems", "minItems", "maxItems", "default"}:
            raise Unmodelled("array keywords")
        items = sch.get("items")
        flags = nums(sch, ["uniqueItems", "additionalItems", "minItems", "maxItems"])
        if isinstance(sch.get("additionalItems"), dict):
            raise Unmodelled("additionalItems schema")
        if items is None:
            return ("array", flags, "none", [], to_default(sch))
        if isinstance(items, list):
            return ("array", flags, "many", [to_field(x) for x in items], to_default(sch))
        return ("array", flags, "one", [to_field(items)], to_default(sch))
    if t == "object":
        if "properties" in sch:
            if set(sch) - {"type", "properties", "required", "additionalProperties", "default"}:
                raise Unmodelled("object keywords")
            ap = sch.get("additionalProperties", True)
            if isinstance(ap, dict):
                raise Unmodelled("additionalProperties schema beside properties")
            return ("object", not ap, sch.get("required"), [(k, to_field(v)) for k, v in sch["properties"].items()],
                    to_default(sch))
        if set(sch) - {"type", "additionalProperties", "default"}:
            raise Unmodelled("map keywords")
        ap = sch.get("additionalProperties")
        if isinstance(ap, dict) and ap:
            return ("map", to_field(ap), to_default(sch))
        return ("map", None, to_default(sch))
    raise Unmodelled("type %r" % (t,))


def to_class(name, sch):
    if set(sch) - {"type", "properties", "required", "additionalProperties", "description"}:
        raise Unmodelled("class keywords")
    if sch.get("type") != "object" or "properties" not in sch:
        raise Unmodelled("top-level non-object")
    ap = sch.get("additionalProperties", True)
    if isinstance(ap, dict) and ap:
        raise Unmodelled("additionalProperties schema")
    return (name, sch.get("description"), not ap, sch.get("required"),
            [(k, to_field(v)) for k, v in sch["properties"].items()])


def c_lit(l):
    return "(LStr %s)" % E.pstr(l[1]) if l[0] == "str" else "(LRaw %s)" % E.pstr(l[1])


def c_default(d):
    if d is None:
        return "None"
    if d[0] == "scalar":
        return "(Some (DScalar %s))" % c_lit(d[1])
    if d[0] == "list":
        return "(Some (DList %s))" % E.lst([c_lit(x) for x in d[1]])
    return "(Some (DDict %s))" % E.lst(["(%s, %s)" % (E.pstr(k), c_lit(v)) for k, v in d[1]])


def c_pairs(ps):
    return E.lst(["(%s, %s)" % (E.pstr(k), E.pstr(v)) for k, v in ps])


KIND = {"none": "INone", "one": "IOne", "many": "IMany"}


def c_field(f):
    t = f[0]
    if t == "string":
        return "(FString %s %s %s)" % (c_pairs(f[1]), E.opt(f[2], E.pstr), c_default(f[3]))
    if t == "numeric":
        return "(FNumeric %s %s %s)" % (E.pstr(f[1]), c_pairs(f[2]), c_default(f[3]))
    if t == "boolean":
        return "(FBoolean %s)" % c_default(f[1])
    if t == "enum":
        return "(FEnum %s %s)" % (E.lst([c_lit(x) for x in f[1]]), c_default(f[2]))
    if t == "ref":
        return "(FRef %s)" % E.pstr(f[1])
    if t == "array":
        return "(FArray %s %s %s %s)" % (c_pairs(f[1]), KIND[f[2]], E.lst([c_field(x) for x in f[3]]), c_default(f[4]))
    if t == "multi":
        return "(FMulti %s %s %s %s)" % (E.pstr(f[1]), KIND[f[2]], E.lst([c_field(x) for x in f[3]]), c_default(f[4]))
    if t == "object":
        return "(FObject %s %s %s %s)" % (E.blit(f[1]), E.opt(f[2], lambda r: E.lst([E.pstr(x) for x in r])),
                                         E.lst(["(%s, %s)" % (E.pstr(k), c_field(v)) for k, v in f[3]]), c_default(f[4]))
    if t == "map":
        return "(FMap %s %s)" % (E.opt(f[1], c_field), c_default(f[2]))
    raise ValueError(f)


def c_class(c):
    name, desc, closed, req, props = c
    return ("{| c_name := %s; c_description := %s; c_closed := %s; c_required := %s; c_props := %s |}"
            % (E.pstr(name), E.opt(desc, E.pstr), E.blit(closed),
               E.opt(req, lambda r: E.lst([E.pstr(x) for x in r])),
               E.lst(["(%s, %s)" % (E.pstr(k), c_field(v)) for k, v in props])))


def codepoints(s):
    if s == "":
        return "(@nil N)"
    return "[" + ";".join(str(ord(c)) for c in s) + "]%N"


def printable_def(strings):
    cps = sorted({ord(c) for s in strings for c in s if ord(c) >= 128 and c.isprintable()})
    return "Definition printable (c : N) : bool := existsb (N.eqb c) %s.\n" % (
        "[" + ";".join(str(c) for c in cps) + "]%N" if cps else "(@nil N)")


# ------------------------------------------------------------------------------------ whole-schema clauses

def schema_leaves(sch, top=True, out=None):
    """(site, string) for every schema string that reaches the generated source."""
    out = [] if out is None else out
    if isinstance(sch, list):
        for x in sch:
            schema_leaves(x, False, out)
        return out
    if not isinstance(sch, dict):
        return out
    if top and isinstance(sch.get("description"), str):
        out.append(("description", sch["description"]))
    if isinstance(sch.get("pattern"), str):
        out.append(("pattern", sch["pattern"]))
    d = sch.get("default")
    if isinstance(d, str):
        out.append(("default", d))
    elif isinstance(d, list):
        out += [("default_container", x) for x in d if isinstance(x, str)]
    elif isinstance(d, dict):
        for k, v in d.items():
            out.append(("default_container", k))
            if isinstance(v, str):
                out.append(("default_container", v))
    for v in sch.get("enum", []) or []:
        if isinstance(v, str):
            out.append(("enum", v))
    for n in sch.get("required", []) or []:
        out.append(("required" if top else "nested_required", n))
    if isinstance(sch.get("properties"), dict):
        for n, x in sch["properties"].items():
            out.append(("property_name" if top else "nested_property_name", n))
            schema_leaves(x, False, out)
    for k in ("items", "additionalProperties", "allOf", "anyOf", "oneOf", "not"):
        if isinstance(sch.get(k), (dict, list)):
            schema_leaves(sch[k], False, out)
    return out


def diff_field(inp, back, where, out):
    """Structural differences between an input property schema and the mapped-back one -> finding keys."""
    if inp == back:
        return
    if not isinstance(inp, dict) or not isinstance(back, dict):
        if isinstance(inp, list) and isinstance(back, list) and len(inp) == len(back):
            for a, b in zip(inp, back):
                diff_field(a, b, where, out)
            return
        out.append(("C09/back/%s/shape" % where, "mapped back %r, input %r" % (back, inp)))
        return
    typ = inp.get("type") or next((k for k in ("enum", "$ref", "allOf", "anyOf", "oneOf", "not") if k in inp), "object")
    if typ == "object":
        typ = "object" if "properties" in inp else "map"
    if typ == "object":
        names = list(inp.get("properties", {}))
        if len(names) == 1 and set(inp.get("required", names)) == set(names) and inp.get("additionalProperties", True) is False:
            # this shape is always collapsed into its property's schema (which may itself be an object with a
            # property of the same name): every difference here has that root cause
            out.append(("C09/back/object/single-required-closed-collapsed",
                        "nested object %r mapped back as %r" % (inp, back)))
            return
        if "properties" not in back or set(back["properties"]) != set(names):
            out.append(("C09/back/object/shape", "nested object %r mapped back as %r" % (inp, back)))
            return
    for k in sorted(set(inp) | set(back)):
        a, b = inp.get(k, None), back.get(k, None)
        if k in inp and k in back and a == b:
            continue
        if k == "required" and typ == "object":
            if k not in inp and set(b or []) == set(inp.get("properties", {})):
                out.append(("C09/back/object/required/absent-means-all",
                            "no required list in %r, mapped back with required=%r" % (inp, b)))
                continue
            if sorted(a or [], key=repr) == sorted(b or [], key=repr):
                continue
            extra, missing = set(b or []) - set(a or []), set(a or []) - set(b or [])
            if k in inp and extra and not missing and all("default" in inp.get("properties", {}).get(n, {}) for n in extra):
                out.append(("C09/back/object/required/default-listed",
                            "properties %r of %r have a default and are not required; mapped back as required" % (sorted(extra), inp)))
                continue
        if k == "additionalProperties" and typ == "object" and k not in inp and b is True:
            continue
        if k in ("properties",) and isinstance(a, dict) and isinstance(b, dict) and set(a) == set(b):
            for n in a:
                diff_field(a[n], b[n], where, out)
            continue
        if k in ("items", "additionalProperties", "allOf", "anyOf", "oneOf", "not") and isinstance(a, (dict, list)) \
                and type(a) is type(b):
            diff_field(a, b, where, out)
            continue
        kind = "dropped" if k not in back else ("added" if k not in inp else "changed")
        out.append(("C09/back/%s/%s/%s" % (typ, k, kind), "keyword %r of %r: input %r, mapped back %r" % (k, inp, a, b)))


def class_spec(name, sch, defs, probe_disc):
    """Evaluate the statement's clauses on one schema.  Returns (findings [(key, what)], outcome tag, code)."""
    fails = []
    inp, inp_defs = copy.deepcopy(sch), copy.deepcopy(defs)
    r = run_generator(name, sch, defs)
    if sch != inp or defs != inp_defs:
        only_req = {k: v for k, v in sch.items() if k != "required"} == {k: v for k, v in inp.items() if k != "required"}
        fails.append(("C09/mutates-input/" + ("required" if only_req and defs == inp_defs else "other"),
                      "the caller's schema was modified: %r -> %r" % (inp.get("required"), sch.get("required"))))
    if r[0] == "raise":
        has_default = any(isinstance(p, dict) and "default" in p for p in inp.get("properties", {}).values())
        if r[1] == "TypeError" and "required" not in inp and has_default:
            fails.append(("C09/crash/default-without-required", "generator raised TypeError: " + r[2]))
        else:
            fails.append(("C09/crash/" + r[1], "generator raised %s: %s" % (r[1], r[2])))
        return fails, "generator-raised", None
    code = r[1]
    # which strings of the schema does their site get wrong (exec-level clause on the minimal schema)?
    explained = set()
    for site, s in schema_leaves(inp):
        in_dom = probe_in_domain(site, s)
        if site in IDENT_SITES and s in KW_SET:
            in_dom = True
        if (is_hot(s) or s in KW_SET) and in_dom and probe_spec(site, s) is not None:
            trig = "keyword" if (site in IDENT_SITES and s in KW_SET) else trigger_of(s, site)
            fails.append(("C09/emit/%s/%s/%s" % (site, probe_disc.get(site, "?"), trig), probe_spec(site, s)))
            explained.add(site)
    for dn, d in inp_defs.items():
        for site, s in schema_leaves(d):
            if is_hot(s) and probe_in_domain(site, s) and probe_spec(site, s) is not None:
                fails.append(("C09/emit/%s/%s/%s" % (site, probe_disc.get(site, "?"), trigger_of(s, site)),
                              probe_spec(site, s)))
                explained.add(site)
    x = exec_code(code, r[2])
    if x[0] == "compile":
        if not explained:
            fails.append(("C09/compile/unexplained", "generated source does not compile: " + x[1]))
        return fails, "no-compile", code
    if x[0] == "exec":
        if not_schema_symptom(x) and (has_not_schema(inp) or any(has_not_schema(d) for d in inp_defs.values())):
            fails.append(("C09/exec/not-schema", "a draft-4 'not' (schema valued) is generated as NotField(fields=<field>): "
                                                 "%s at exec: %s" % (x[1], x[2])))
        elif not explained:
            fails.append(("C09/exec/unexplained/" + x[1], "generated source raises %s at exec: %s" % (x[1], x[2])))
        return fails, "exec-raised", code
    ns = x[1]
    if "description" in inp and "description" not in explained:
        doc = ns[name].__doc__
        if doc is None or doc.strip(" \n") != inp["description"].strip(" \n"):
            fails.append(("C09/doc/unexplained", "docstring %r is not the description %r" % (doc, inp["description"])))
    b = back_map(ns, name)
    if b[0] == "raise":
        if not explained:
            fails.append(("C09/back/raises/" + b[1], "structure_to_schema of the generated class raised: " + b[2]))
        return fails, "back-raised", code
    want = norm_schema({k: v for k, v in inp.items() if k != "description"})
    got = norm_schema(b[1])
    diffs = []
    if want != got:
        top_diff(want, got, diffs)
    for dn, d in inp_defs.items():
        # definitions referenced by the class come back in the second component
        if dn in b[2] and norm_schema(d) != norm_schema(b[2][dn]):
            diff_field(norm_schema(d), norm_schema(b[2][dn]), "definition", diffs)
    # a string that a RAW site (wrap_val / pasted docstring) writes wrongly can swallow the text after it and still
    # compile (default 'a\\' eats the closing quote and the next parameter): the source is then not the intended token
    # sequence, and every structural difference of this schema has that (reported) lexical root cause
    raw_broken = bool(explained & {"pattern", "default", "description"})
    for k, w in diffs:
        m = re.match(r"C09/back/\w+/(pattern|default|enum)/changed", k)
        if raw_broken or (m and ({"pattern": "pattern", "default": "default", "enum": "enum"}[m.group(1)] in explained
                                 or (m.group(1) == "default" and "default_container" in explained))):
            continue
        fails.append((k, w))
    return fails, ("ok" if not fails else "differs"), code


def top_diff(want, got, out):
    if want.get("type", "object") != "object" or "properties" not in want:
        out.append(("C09/back/class/non-object-schema",
                    "schema %r is generated as a class with a single property 'wrapped' and mapped back as %r" % (want, got)))
        return
    names = list(want.get("properties", {}))
    collapsed_shape = (len(names) == 1 and set(want.get("required", names)) == set(names)
                       and want.get("additionalProperties") is False)
    if collapsed_shape:
        out.append(("C09/back/class/single-required-closed-collapsed",
                    "class schema %r mapped back as %r" % (want, got)))
        return
    if "properties" not in got or got.get("type") != "object":
        if len(names) == 1 and set(want.get("required", names)) == set(names) and want.get("additionalProperties") is False:
            out.append(("C09/back/class/single-required-closed-collapsed",
                        "class schema %r mapped back as %r" % (want, got)))
        else:
            out.append(("C09/back/class/shape", "class schema %r mapped back as %r" % (want, got)))
        return
    wreq, greq = want.get("required"), got.get("required")
    props = want.get("properties", {})
    if wreq is None:
        if set(greq or []) == set(props):
            out.append(("C09/back/class/required/absent-means-all",
                        "no required list in the schema; the generated class requires every property %r" % (greq,)))
        else:
            out.append(("C09/back/class/required/changed", "required absent, mapped back %r" % (greq,)))
    elif sorted(wreq, key=repr) != sorted(greq or [], key=repr):
        extra = set(greq or []) - set(wreq)
        missing = set(wreq) - set(greq or [])
        if not missing and extra and all("default" in props.get(n, {}) for n in extra):
            out.append(("C09/back/class/required/default-listed",
                        "properties %r have a default and are not required; mapped back as required" % sorted(extra)))
        else:
            out.append(("C09/back/class/required/changed", "required %r mapped back as %r" % (wreq, greq)))
    if want.get("additionalProperties", True) != got.get("additionalProperties", True):
        out.append(("C09/back/class/additionalProperties/changed",
                    "additionalProperties %r mapped back as %r" % (want.get("additionalProperties"), got.get("additionalProperties"))))
    gp = got.get("properties", {})
    if set(gp) != set(props):
        out.append(("C09/back/class/properties/changed", "properties %r mapped back as %r" % (sorted(props), sorted(gp))))
        return
    for n in props:
        diff_field(props[n], gp[n], "property", out)


def not_schema_symptom(x):
    """The exec failure of NotField(fields=<a field, not a list>) (the generator wraps the schema of a draft-4
    'not' in a list since the repair: another exec failure of a schema that happens to hold a 'not' is judged
    by the other clauses)."""
    return x[1] == "TypeError" and "Expected a Field class or instance" in x[2]


def has_not_schema(s):
    if isinstance(s, list):
        return any(has_not_schema(x) for x in s)
    if not isinstance(s, dict):
        return False
    if isinstance(s.get("not"), dict):
        return True
    return any(has_not_schema(v) for k, v in s.items() if k in ("properties", "items", "additionalProperties",
                                                                 "allOf", "anyOf", "oneOf", "not")
               or isinstance(v, dict))


import keyword as _keyword
KW_SET = set(_keyword.kwlist)


def class_python(name, sch, defs):
    return ("from typedpy import *\nfrom typedpy.json_schema.json_schema_mapping import (schema_to_struct_code,\n"
            "    schema_definitions_to_code, structure_to_schema)\n"
            "schema = %r\ndefinitions = %r\n"
            "exec(schema_definitions_to_code(definitions))\ncode = schema_to_struct_code(%r, schema, definitions)\n"
            "print(code)\nexec(code)\nprint(structure_to_schema(%s, {}))\n" % (sch, defs, name, name))


# ------------------------------------------------------------------------------------ documents (exact sub-fragment)

def exact_field(rnd, depth):
    """Property schemas on which typedpy's fields and draft-4 are meant to agree exactly."""
    r = rnd.random()
    if depth >= 1:
        r *= 0.6
    if r < 0.2:
        s = {"type": "string"}
        if rnd.random() < 0.5:
            s["minLength"] = rnd.randint(1, 2)
        if rnd.random() < 0.5:
            s["maxLength"] = rnd.randint(2, 4)
        if rnd.random() < 0.4:
            s["pattern"] = rnd.choice(["^[a-z]+$", "^a", "^[0-9]{2}$"])
        return s
    if r < 0.35:
        s = {"type": "integer"}
        if rnd.random() < 0.6:
            s["minimum"] = rnd.randint(0, 2)
        if rnd.random() < 0.6:
            s["maximum"] = rnd.randint(3, 5)
            if rnd.random() < 0.35:
                s["exclusiveMaximum"] = True
        return s
    if r < 0.45:
        s = {"type": "number"}
        if rnd.random() < 0.6:
            s["minimum"] = rnd.choice([0, 0.5])
        if rnd.random() < 0.6:
            s["maximum"] = rnd.choice([3, 2.5])
            if rnd.random() < 0.35:
                s["exclusiveMaximum"] = True
        return s
    if r < 0.5:
        return {"type": "boolean"}
    if r < 0.6:
        return {"enum": rnd.sample(["a", "b", "it's", 1, 2, 3], rnd.randint(1, 3))}
    if r < 0.72:
        s = {"type": "array", "items": exact_field(rnd, depth + 1)}
        if rnd.random() < 0.4:
            s["uniqueItems"] = True
        if rnd.random() < 0.3:
            s["minItems"] = rnd.randint(1, 2)
        if rnd.random() < 0.3:
            s["maxItems"] = rnd.randint(2, 3)
        return s
    if r < 0.80:
        return {"type": "array", "items": [exact_field(rnd, depth + 1) for _ in range(rnd.randint(1, 2))],
                "additionalItems": rnd.choice([True, False])}
    if r < 0.88:
        return {rnd.choice(["anyOf", "oneOf", "allOf"]): [exact_field(rnd, depth + 1) for _ in range(2)]}
    if r < 0.95:
        props = {n: exact_field(rnd, depth + 1) for n in rnd.sample(["u", "v", "w"], 2)}
        req = [n for n in props if rnd.random() < 0.6] or [sorted(props)[0]]
        return {"type": "object", "properties": props, "required": req,
                "additionalProperties": rnd.choice([True, False])}
    return {"type": "object", "additionalProperties": exact_field(rnd, depth + 1)}


def exact_class(rnd):
    names = rnd.sample(["a", "b", "c", "d"], rnd.randint(1, 3))
    props = {n: exact_field(rnd, 0) for n in names}
    req = [n for n in names if rnd.random() < 0.7] or [names[0]]
    closed = rnd.choice([True, False])
    if closed and len(names) == 1 and req == names:
        closed = False
    return {"type": "object", "properties": props, "required": req, "additionalProperties": not closed}


def near_values(s, rnd, depth=0):
    """Documents near the boundary of a property schema (valid and invalid)."""
    out = []
    if "enum" in s:
        return list(s["enum"]) + ["zz", 99, None]
    for k in ("anyOf", "oneOf", "allOf"):
        if k in s:
            for x in s[k]:
                out += near_values(x, rnd, depth + 1)[:4]
            return out + [None]
    t = s.get("type")
    if t == "string":
        lo, hi = s.get("minLength", 0), s.get("maxLength", 5)
        base = ["", "a", "ab", "abc", "abcde", "A1", "12", "1a", "a" * max(lo - 1, 0), "b" * lo, "c" * hi, "d" * (hi + 1), 5, None]
        return base
    if t == "integer":
        lo, hi = s.get("minimum", 0), s.get("maximum", 5)
        return [lo - 1, lo, lo + 1, hi - 1, hi, hi + 1, 2.5, "1", None]
    if t == "number":
        lo, hi = s.get("minimum", 0), s.get("maximum", 5)
        return [lo - 1, lo, lo + 0.25, hi - 0.25, hi, hi + 1, 2, "x", None]
    if t == "boolean":
        return [True, False, "true", None]
    if t == "array":
        it = s.get("items")
        if isinstance(it, dict):
            vs = near_values(it, rnd, depth + 1)
            picks = [rnd.choice(vs) for _ in range(3)]
            return [[], [vs[0]], [vs[0], vs[0]], picks, [vs[1], vs[0]] if len(vs) > 1 else [vs[0]], "x", None, {}]
        vss = [near_values(x, rnd, depth + 1) for x in it]
        full = [rnd.choice(v) for v in vss]
        good = [v[1] if len(v) > 1 else v[0] for v in vss]
        return [good, good + [good[0]], good + ["extra"], full, [rnd.choice(v) for v in vss], "x", None]
    if t == "object" and "properties" in s:
        props = s["properties"]
        docs = []
        for _ in range(4):
            d = {}
            for n, x in props.items():
                if rnd.random() < 0.8:
                    d[n] = rnd.choice(near_values(x, rnd, depth + 1))
            if rnd.random() < 0.3:
                d["zz"] = 1
            docs.append(d)
        return docs + [{}, "x", None]
    if t == "object":
        vs = near_values(s["additionalProperties"], rnd, depth + 1)
        return [{}, {"k": vs[0]}, {"k": rnd.choice(vs), "j": rnd.choice(vs)}, "x", None, []]
    return [None]


def gen_docs(sch, rnd, n):
    props = sch["properties"]
    docs = []
    per = {k: near_values(v, rnd) for k, v in props.items()}
    for _ in range(n):
        d = {}
        for k in props:
            if k in sch["required"] or rnd.random() < 0.6:
                d[k] = rnd.choice(per[k])
        r = rnd.random()
        if r < 0.12 and sch["required"]:
            d.pop(rnd.choice(sch["required"]), None)
        elif r < 0.24:
            d["extra_"] = 1
        docs.append(d)
    return docs


def balanced_docs(rnd, schemas, n):
    """Documents for each (inlined) object schema: ~45% meant valid (every property takes a value the validator
    accepts for that property alone), ~30% with exactly one property at an invalid neighbour, the rest with a
    missing required / an undeclared property / independent random neighbours.  The per-property verdicts come
    from the independent validator in one batch."""
    pers = [{k: near_values(v, rnd) for k, v in sch["properties"].items()} for sch in schemas]
    items = [{"schema": {"type": "object", "properties": {"p": sch["properties"][k]}}, "docs": [{"p": x} for x in vals]}
             for sch, per in zip(schemas, pers) for k, vals in per.items()]
    verdicts, _ = run_validator(items) if items else ([], "")
    if verdicts is None or any(isinstance(v, str) for v in verdicts):
        return [gen_docs(sch, rnd, n) for sch in schemas]
    out, idx = [], 0
    for sch, per in zip(schemas, pers):
        good, bad = {}, {}
        for k, vals in per.items():
            vs = verdicts[idx]
            idx += 1
            good[k] = [x for x, f in zip(vals, vs) if f]
            bad[k] = [x for x, f in zip(vals, vs) if not f]
        docs = []
        for _ in range(n):
            r = rnd.random()
            d = {}
            for k in sch["properties"]:
                if k in sch["required"] or rnd.random() < 0.6:
                    d[k] = copy.deepcopy(rnd.choice(per[k] if r >= 0.93 else (good[k] or per[k])))
            if 0.45 <= r < 0.75:
                ks = [k for k in d if bad[k]]
                if ks:
                    k = rnd.choice(ks)
                    d[k] = copy.deepcopy(rnd.choice(bad[k]))
            elif 0.75 <= r < 0.84 and sch["required"]:
                d.pop(rnd.choice(sch["required"]), None)
            elif 0.84 <= r < 0.93:
                d["extra_"] = 1
            docs.append(d)
        out.append(docs)
    return out


VALIDATOR_SRC = r"""
import json, sys
from jsonschema import Draft4Validator
data = json.load(sys.stdin)
out = []
for item in data:
    try:
        Draft4Validator.check_schema(item["schema"])
        v = Draft4Validator(item["schema"])
        out.append([v.is_valid(d) for d in item["docs"]])
    except Exception as e:
        out.append("schema-error: %s" % type(e).__name__)
json.dump(out, sys.stdout)
"""


def run_validator(items):
    try:
        p = subprocess.run([VT_PY, "-c", VALIDATOR_SRC], input=json.dumps(items), capture_output=True, text=True,
                           timeout=300)
    except (OSError, subprocess.TimeoutExpired) as e:
        return None, str(e)
    if p.returncode != 0:
        return None, p.stderr[-500:]
    try:
        return json.loads(p.stdout), ""
    except ValueError as e:
        return None, str(e)


def class_accepts(cls, doc):
    from typedpy import Deserializer
    try:
        Deserializer(cls).deserialize(copy.deepcopy(doc))
        return True, None
    except (TypeError, ValueError) as e:
        return False, type(e).__name__
    except Exception as e:  # noqa
        return False, "other:" + type(e).__name__


def doc_kind(sch, doc, accepts_class):
    """Shape key of a disagreement: the keyword of the first property whose value the two sides judge differently
    cannot be isolated here cheaply; key by coarse shape instead."""
    return "class-accepts" if accepts_class else "class-rejects"


# ------------------------------------------------------------------------------------ replay

def replay(obj):
    kind = obj.get("kind")
    if kind == "probe":
        site, s = obj["site"], obj["string"]
        _probe_cache.clear()
        res = probe_spec(site, s)
        name, sch, defs = probe_schema(site, s)
        r = run_generator(name, sch, defs)
        print("site     :", site, "(discipline %s)" % obj.get("discipline"))
        print("string   : %r" % s)
        print("schema   :", sch)
        print("generated:", r[1] if r[0] == "ok" else r)
        print("required : the generated source compiles, executes, and maps back to the schema")
        print("observed :", res or "holds")
        return 1 if res else 0
    if kind == "class":
        name, sch, defs = obj["name"], obj["schema"], obj["definitions"]
        disc = dict(_site_table())
        fails, tag, code = class_spec(name, copy.deepcopy(sch), copy.deepcopy(defs), disc)
        print("schema   :", sch)
        print("defs     :", defs)
        print("generated:\n%s" % code)
        for k, w in fails:
            print("FAILS    :", k, "-", w)
        want = obj.get("finding_key")
        still = [k for k, _ in fails if want is None or k == want]
        if not still:
            print("the clause reported in this replay holds now")
        return 1 if still else 0
    if kind == "module":
        from harness import c09mod as M
        name, sch, defs = obj["name"], obj["schema"], obj["definitions"]
        d = core.workdir("c09replay")
        try:
            fails, tag, text, ran = M.module_spec(sys.modules[__name__], name, copy.deepcopy(sch), copy.deepcopy(defs),
                                                  dict(_site_table()), os.path.join(d, "generated_c09_module.py"))
        finally:
            core.cleanup(d)
        print("schema     :", sch)
        print("definitions:", defs)
        print("written by write_code_from_schema:\n%s" % text)
        print("required   : the file compiles and executes; main class and reached definitions are Structure classes; "
              "structure_to_schema returns the schema and definitions")
        print("observed   :", tag, ran or "")
        for k, w in fails:
            print("FAILS      :", k, "-", w)
        want = obj.get("finding_key")
        still = [k for k, _ in fails if want is None or want.startswith("broken:") or k == want]
        if not still:
            print("the clause reported in this replay holds now")
        return 1 if still else 0
    if kind == "docs":
        sch, doc = obj["schema"], obj["doc"]
        if obj.get("definitions"):
            from harness import c09mod as M
            d = core.workdir("c09replay")
            try:
                path = os.path.join(d, "generated_c09_docs.py")
                r = M.run_module("R", copy.deepcopy(obj["main"]), copy.deepcopy(obj["definitions"]), path)
                x = M.exec_module(r[1], path) if r[0] == "ok" else ("raise",)
            finally:
                core.cleanup(d)
            print("definitions:", obj["definitions"])
            sch = obj["main"]
        else:
            r = run_generator("R", copy.deepcopy(sch), {})
            x = exec_code(r[1]) if r[0] == "ok" else ("raise",)
        if x[0] != "ok":
            print("generated class cannot be built:", x)
            return 1
        acc, why = class_accepts(x[1]["R"], doc)
        print("schema   :", sch)
        print("document :", doc)
        print("generated class accepts:", acc, why or "")
        print("draft-4 validator says :", obj.get("validator"))
        return 1 if acc != obj.get("validator") else 0
    print("nothing to replay on the implementation alone:", obj.get("what", ""))
    return 1


def _site_table():
    from harness.genmods import emit_sites as gen
    rows, _ = gen.emit_sites()
    return rows


# ------------------------------------------------------------------------------------ the check

HEADER = """From Coq Require Import ZArith NArith String List Bool. Import ListNotations.
From TP Require Import Check.C09chk.
Local Open Scope string_scope.
"""


def obs_term(o):
    if o[0] == "err":
        return "None"
    if o[0] == "other":
        return "(Some None)"
    return "(Some (Some %s))" % codepoints(o[1])


def run(rep, tier):
    rnd = random.Random(core.seed() * 1000003 + 9)
    quick = tier == "quick"
    n_probe_per_site = 45 if quick else 400
    n_lex = 700 if quick else 6000
    n_class = 320 if quick else 3000
    n_doc_classes = 60 if quick else 500
    n_module = 260 if quick else 2600
    n_doc_modules = 50 if quick else 400
    proofs_ok, model_ok = core.standard_proof_obligations(
        rep, "C09", ["theories/Check/C09chk.vo", "theories/Schema/CodeGenProofs.vo"])
    rep.assumptions += [
        "lexer model: str literals without prefixes; named escapes (backslash N{...}) answered as failure; ASCII identifiers only",
        "numbers and booleans of a schema are carried as the text Python writes for them",
        "str.isprintable and the keyword list are those of the running CPython (instantiated per shard / generated)",
        "class correspondence on the modelled fragment (string, integer/number, boolean, enum, $ref, array, allOf/anyOf/oneOf/not, "
        "nested object, map with value schema, scalar/list/dict defaults); other keywords are exercised by the spec clauses only",
        "module name resolution: class bodies evaluate field expressions eagerly and in textual order; the names bound by "
        "`from typedpy import *` are disjoint from the definition names of the modelled stream (a definition that shadows one "
        "is judged by the spec clauses only)",
    ]
    table = _site_table()
    disc = dict(table)
    rep.cov["emit_sites"] = table
    rep.obligation("regen:Gen/EmitSites.v", all(q != "Unrecognised" for _, q in table),
                   "; ".join("%s=%s" % kv for kv in table))

    # ------------------------------------------------------------ witnesses for every site that is not total
    unrecognised_ok = []
    for site, q in table:
        if q == "Repr" or site not in PROBE_SITES:
            continue
        if site in IDENT_SITES:
            w, trig = "from", "keyword"
        elif q == "TripleQuoted":
            w, trig = '"""', "triplequote"
        else:
            w, trig = "'", "quote"
        res = probe_spec(site, w)
        rep.count("witness", 1, (site, q))
        if res is not None:
            rep.finding("C09/emit/%s/%s/%s" % (site, q, trig), "site %s (%s): %s" % (site, q, res),
                        {"kind": "probe", "site": site, "string": w, "discipline": q, "python": probe_python(site, w)})
        elif q == "Unrecognised":
            unrecognised_ok.append(site)

    # ------------------------------------------------------------ probes
    probes = []
    fixed = ["", "plain", "a'b", 'a"b', "a\\b", "a\nb", '"""', "a\\", "\\d+", "it's \"x\"", "é中", "a\\nb", "\\x41", "''"]
    for site in PROBE_SITES:
        strs = list(fixed) if site not in IDENT_SITES else list(IDENT_PIECES)
        while len(strs) < n_probe_per_site:
            strs.append(gen_ident(rnd) if site in IDENT_SITES else gen_string(rnd))
        for s in strs:
            if site in IDENT_SITES and not s.isascii():
                continue
            name, sch, defs = probe_schema(site, s)
            r = run_generator(name, sch, defs)
            if r[0] != "ok":
                rep.finding("C09/probe-crash/%s/%s" % (site, r[1]), "generator raised %s on %r" % (r[1], sch),
                            {"kind": "probe", "site": site, "string": s, "discipline": disc.get(site)})
                continue
            lit = probe_literal(site, r[1])
            obs = observe_site(site, r[1])
            probes.append((site, s, lit if lit is not None else r[1], obs))
            rep.count("probe", 1, (site, trigger_of(s, site), obs[0]))
            rep.stat("probe", "%s:%s" % (site, obs[0] if obs[0] != "val" else ("reads-back" if obs[1] == s else "reads-other")))
            # exec-level clause
            in_dom = probe_in_domain(site, s) or (site in IDENT_SITES and s in KW_SET)
            if in_dom:
                res = probe_spec(site, s)
                rep.count("probe-exec", 1)
                if res is not None:
                    trig = "keyword" if (site in IDENT_SITES and s in KW_SET) else trigger_of(s, site)
                    rep.finding("C09/emit/%s/%s/%s" % (site, disc.get(site, "?"), trig),
                                "site %s (%s): %s" % (site, disc.get(site), res),
                                {"kind": "probe", "site": site, "string": s, "discipline": disc.get(site),
                                 "python": probe_python(site, s)})
    rep.sample({"stream": "probe", "site": probes[5][0], "string": probes[5][1], "literal": probes[5][2],
                "observed": probes[5][3]})

    # ------------------------------------------------------------ lexer stream
    lexcases = []
    seen = set()
    while len(lexcases) < n_lex:
        t = gen_lex_text(rnd)
        if "\r" in t or "\x00" in t or any(0xD800 <= ord(c) <= 0xDFFF for c in t) or "\\N{" in t:
            continue
        o = py_lex(t)
        lexcases.append((t, o))
        rep.count("lexer", 1, t if t not in seen else None)
        seen.add(t)
        rep.stat("lexer", "accepted" if o is not None else "rejected")
    rep.sample({"stream": "lexer", "text": lexcases[0][0], "observed": lexcases[0][1]})

    # ------------------------------------------------------------ classes
    classes = []
    n_unmodelled = 0
    for i in range(n_class):
        ext = rnd.random() < 0.35
        hotness = rnd.choice([0.0, 0.15, 0.4])
        name, sch, defs = gen_class_schema(rnd, hotness, ext)
        if not ext and rnd.random() < 0.04:
            sch.pop("required", None)       # crash / all-required shapes in the modelled stream too
        fails, tag, code = class_spec(name, copy.deepcopy(sch), copy.deepcopy(defs), disc)
        rep.stat("class", "outcome:" + tag)
        shape = tuple(sorted({k.split("/")[1] + "/" + k.split("/")[2] for k, _ in fails})) or ("clean",)
        rep.count("class", 1, (tag, shape, len(sch.get("properties", {}))))
        for k, w in fails:
            rep.finding(k, w, {"kind": "class", "name": name, "schema": sch, "definitions": defs,
                               "python": class_python(name, sch, defs)})
        try:
            model = to_class(name, sch)
        except Unmodelled:
            model = None
            n_unmodelled += 1
        back_req = None
        collapsible = len(sch.get("properties", {})) == 1 and sch.get("additionalProperties", True) is False
        if model is not None and tag in ("ok", "differs") and not collapsible:
            r2 = run_generator(name, copy.deepcopy(sch), copy.deepcopy(defs))
            x2 = exec_code(r2[1], r2[2]) if r2[0] == "ok" else ("raise",)
            b2 = back_map(x2[1], name) if x2[0] == "ok" else ("raise",)
            if b2[0] == "ok" and b2[1].get("type") == "object" and isinstance(b2[1].get("required"), list) \
                    and set(b2[1].get("properties", {})) == set(sch["properties"]):
                back_req = b2[1]["required"]
        classes.append((name, sch, defs, model, code, tag, [k for k, _ in fails], back_req))
    rep.cov["streams"]["class"]["outside_modelled_fragment"] = n_unmodelled
    ex = next((c for c in classes if c[5] == "ok" and c[3] is not None), classes[0])
    rep.sample({"stream": "class", "schema": ex[1], "generated": ex[4]})

    # ------------------------------------------------------------ modules: write_code_from_schema, schema_definitions_to_code
    modules = run_modules(rep, rnd, disc, n_module)

    # ------------------------------------------------------------ documents near the boundary
    run_documents(rep, rnd, n_doc_classes)
    run_module_documents(rep, rnd, n_doc_modules)

    # ------------------------------------------------------------ correspondence in Coq
    if model_ok:
        coq_correspondence(rep, probes, lexcases, classes, modules)
    if unrecognised_ok and not any(not v["no_input"] for v in rep.violations):
        rep.broken("regen:Gen/EmitSites.v", "the emission sites %s are no longer recognised by harness/gen.py (fail closed) and "
                   "the witness strings are emitted correctly: the table cannot vouch for them" % unrecognised_ok,
                   {"kind": "sites", "sites": unrecognised_ok})
    if not proofs_ok:
        from harness.props.c17 import broken_build
        broken_build(rep)
    return rep.finish(
        rule="probe = (emission site, string over {plain, quote, double quote, backslash, newline, triple quote, "
             "non-ASCII, escapes, rare control/surrogate}) on a minimal schema; lexer = random literal text; class = seeded "
             "schemas over the supported keyword set with string payloads from the same alphabet; module = every "
             "(reference position x holder x spare definition) deterministically + seeded definition DAGs (declared in "
             "dependency order / shuffled / recursive) through write_code_from_schema and the string entry points; "
             "documents = per property a value the validator accepts or one neighbour it rejects, at each bound of each "
             "keyword, with and without $ref into definitions. distinct = distinct (site, trigger class, outcome) / "
             "literal texts / (outcome, finding shapes, size) / (shape, outcome, reference positions, #definitions)")


def run_modules(rep, rnd, disc, n_random):
    """Stream "module": (main schema, definitions) through write_code_from_schema and the string entry points."""
    from harness import c09mod as M
    P = sys.modules[__name__]
    layout, joiner = M_layout()
    rep.cov["module_layout"] = {"layout": layout, "joiner": joiner}
    rep.obligation("regen:Gen/ModuleLayout.v", layout is not None and joiner is not None,
                   "write_code_from_schema: %s; schema_definitions_to_code joiner: %r" % (
                       "unrecognised" if layout is None else " | ".join(
                           ("" if c == "always" else "if definitions: ") + (l[0] if l[0] != "const" else repr(l[1]))
                           for c, l in layout), joiner))
    d = core.workdir("c09mod")
    path = os.path.join(d, "generated_c09_module.py")
    out = []
    try:
        cases = [(n, s, df, tag, True) for n, s, df, tag in M.lattice(P)]
        for _ in range(n_random):
            ext = rnd.random() < 0.25
            hotness = rnd.choice([0.0, 0.0, 0.15, 0.4])
            n, s, df, shape = M.gen_module(rnd, P, hotness, ext)
            cases.append((n, s, df, "random:" + shape, False))
        for name, sch, defs, tag, is_lattice in cases:
            fails, outcome, text, ran = M.module_spec(P, name, copy.deepcopy(sch), copy.deepcopy(defs), disc, path)
            rep.stat("module", "outcome:" + outcome)
            rep.stat("module", "shape:" + (tag if not is_lattice else "lattice"))
            rep.stat("module", "definitions:%d" % len(defs))
            positions = sorted({M.position_key(p) + ("@main" if i == 0 else "@definition")
                                for i, owner in enumerate([sch] + list(defs.values())) for _, p in M.walk_refs(owner)})
            for p in positions:
                rep.stat("module", "ref-position:" + p)
            unref = [dn for dn in defs if dn not in M.reachable(sch, defs)]
            rep.stat("module", "unreferenced-definitions:" + ("yes" if unref else "no"))
            rep.count("module", 1, tag if is_lattice else (tag, outcome, tuple(positions), len(defs)))
            for k, w in fails:
                rep.finding(k, w, {"kind": "module", "name": name, "schema": sch, "definitions": defs,
                                   "python": M.module_python(name, sch, defs)})
            out.append((name, sch, defs, M.to_model(P, name, sch, defs), text, ran, outcome, tag))
    finally:
        core.cleanup(d)
    rep.cov["streams"]["module"]["outside_modelled_fragment"] = sum(1 for m in out if m[3] is None)
    ex = next((m for m in out if m[6] == "ok" and m[3] is not None and len(m[2]) >= 2), out[0])
    rep.sample({"stream": "module", "schema": ex[1], "definitions": ex[2], "written": ex[4]})
    return out


def M_layout():
    from harness.genmods import module_layout as gen
    try:
        return gen.module_layout()
    except Exception:  # noqa
        return None, None


def coq_correspondence(rep, probes, lexcases, classes, modules=()):
    per = 300
    shards = []
    kinds = []
    for s0 in range(0, len(probes), per):
        chunk = probes[s0:s0 + per]
        body = printable_def([p[1] for p in chunk] + [p[2] for p in chunk])
        items = ["(%s, %s, %s, %s)" % (E.pstr(site), codepoints(s), codepoints(lit), obs_term(obs))
                 for site, s, lit, obs in chunk]
        body += "Definition cases : list probecase := %s.\n" % E.lst(["\n " + i for i in items])
        body += "Eval vm_compute in (indices_where (probe_emit_mismatch printable) cases 0).\n"
        body += "Eval vm_compute in (indices_where probe_lex_mismatch cases 0).\n"
        body += "Eval vm_compute in (indices_where (probe_theorem_violated printable) cases 0).\n"
        body += "Eval vm_compute in (indices_where probe_model_ok cases 0).\n"
        shards.append(body)
        kinds.append(("probe", s0))
    for s0 in range(0, len(lexcases), per):
        chunk = lexcases[s0:s0 + per]
        items = ["(%s, %s)" % (codepoints(t), "None" if o is None else "(Some (%s, %s))" % (codepoints(o[0]), codepoints(o[1])))
                 for t, o in chunk]
        body = "Definition cases : list lexcase := %s.\n" % E.lst(["\n " + i for i in items])
        body += "Eval vm_compute in (indices_where lex_mismatch cases 0).\n"
        body += "Eval vm_compute in (length (filter lex_accepts cases)).\n"
        shards.append(body)
        kinds.append(("lexer", s0))
    modelled = [c for c in classes if c[3] is not None]
    cper = 100
    for s0 in range(0, len(modelled), cper):
        chunk = modelled[s0:s0 + cper]
        strs = []
        for c in chunk:
            strs.append(c[4] or "")
            strs += [s for _, s in schema_leaves(c[1])]
        body = printable_def(strs)
        items = ["(%s, %s)" % (c_class(c[3]), "None" if c[4] is None else "(Some %s)" % codepoints(c[4])) for c in chunk]
        body += "Definition cases : list classcase := %s.\n" % E.lst(["\n " + i for i in items])
        body += "Eval vm_compute in (indices_where (class_mismatch printable) cases 0).\n"
        body += "Eval vm_compute in (indices_where class_bad_sep cases 0).\n"
        body += "Eval vm_compute in (indices_where class_predicted_ok cases 0).\n"
        body += "Eval vm_compute in (indices_where class_real_relex_ok cases 0).\n"
        reqs = [(c[3], c[7]) for c in chunk if c[7] is not None]
        body += "Definition reqcases : list reqcase := %s.\n" % E.lst(
            ["\n (%s, %s)" % (c_class(m), E.lst([E.pstr(x) for x in br])) for m, br in reqs])
        body += "Eval vm_compute in (indices_where required_mismatch reqcases 0).\n"
        body += "Eval vm_compute in (indices_where required_theorem_violated reqcases 0).\n"
        body += "Eval vm_compute in (length (filter required_hypotheses reqcases), length reqcases).\n"
        shards.append(body)
        kinds.append(("class", s0))
    from harness import c09mod as M
    P = sys.modules[__name__]
    mmod = [m for m in modules if m[3] is not None]
    mper = 50
    for s0 in range(0, len(mmod), mper):
        chunk = mmod[s0:s0 + mper]
        strs = []
        for m in chunk:
            strs.append(m[4] or "")
            for owner in [m[1]] + list(m[2].values()):
                strs += [s for _, s in schema_leaves(owner)]
        body = printable_def(strs)
        items = [M.c_modcase(P, m[3], m[4], m[5]) for m in chunk]
        body += "Definition cases : list modcase := %s.\n" % E.lst(["\n " + i for i in items])
        body += "Eval vm_compute in (indices_where (module_mismatch printable) cases 0).\n"
        body += "Eval vm_compute in (indices_where module_names_mismatch cases 0).\n"
        body += "Eval vm_compute in (indices_where module_bad_sep cases 0).\n"
        body += "Eval vm_compute in (indices_where module_predicted_ok cases 0).\n"
        body += "Eval vm_compute in (indices_where module_sites_predicted_ok cases 0).\n"
        body += "Eval vm_compute in (indices_where module_real_relex_ok cases 0).\n"
        shards.append(body)
        kinds.append(("module", s0))
    res = core.eval_cases(shards, "c09", HEADER)
    mism = {"probe-emit": [], "probe-lex": [], "probe-theorem": [], "lexer": [], "class": [], "class-sep": [],
            "module": [], "module-names": [], "module-sep": []}
    mod_names_ok, mod_sites_ok, mod_relex_ok = set(), set(), set()
    req_bad, req_thm_bad, req_hyp = [], [], [0, 0]
    model_ok_probe = set()
    predicted_ok, relex_ok = set(), set()
    bad = None
    bad_kinds = set()
    for (kind, s0), (rc, out, err) in zip(kinds, res):
        vals = core.parse_eval(out)
        want = {"probe": 4, "lexer": 2, "class": 7, "module": 6}[kind]
        if rc != 0 or len(vals) != want:
            bad = bad or (kind, s0, (out + err)[-1200:])
            bad_kinds.add(kind)
            continue
        if kind == "probe":
            mism["probe-emit"] += [s0 + i for i in core.parse_nat_list(vals[0])]
            mism["probe-lex"] += [s0 + i for i in core.parse_nat_list(vals[1])]
            mism["probe-theorem"] += [s0 + i for i in core.parse_nat_list(vals[2])]
            model_ok_probe |= {s0 + i for i in core.parse_nat_list(vals[3])}
        elif kind == "lexer":
            mism["lexer"] += [s0 + i for i in core.parse_nat_list(vals[0])]
        elif kind == "module":
            mism["module"] += [s0 + i for i in core.parse_nat_list(vals[0])]
            mism["module-names"] += [s0 + i for i in core.parse_nat_list(vals[1])]
            mism["module-sep"] += [s0 + i for i in core.parse_nat_list(vals[2])]
            mod_names_ok |= {s0 + i for i in core.parse_nat_list(vals[3])}
            mod_sites_ok |= {s0 + i for i in core.parse_nat_list(vals[4])}
            mod_relex_ok |= {s0 + i for i in core.parse_nat_list(vals[5])}
        else:
            mism["class"] += [s0 + i for i in core.parse_nat_list(vals[0])]
            mism["class-sep"] += [s0 + i for i in core.parse_nat_list(vals[1])]
            predicted_ok |= {s0 + i for i in core.parse_nat_list(vals[2])}
            relex_ok |= {s0 + i for i in core.parse_nat_list(vals[3])}
            chunk_req = [c for c in modelled[s0:s0 + cper] if c[7] is not None]
            req_bad += [chunk_req[i] for i in core.parse_nat_list(vals[4])]
            req_thm_bad += [chunk_req[i] for i in core.parse_nat_list(vals[5])]
            nums_ = [int(t) for t in re.findall(r"\d+", vals[6])]
            req_hyp[0] += nums_[0]
            req_hyp[1] += nums_[1]
    if bad is not None:
        rep.broken("correspondence:coq-eval", "case shard %s@%d failed to evaluate: %s" % bad)
    for k in sorted(bad_kinds):
        rep.obligation("correspondence:%s:all-shards-evaluated" % k, False, "a case shard of stream %s did not evaluate" % k)
    rep.obligation("correspondence:probe-emitted-text", not mism["probe-emit"],
                   "%d probes, %d where the generator's literal differs from the model's emit" % (len(probes), len(mism["probe-emit"])))
    rep.obligation("correspondence:probe-read-back", not mism["probe-lex"],
                   "%d probes, %d where CPython and the lexer model read the literal differently" % (len(probes), len(mism["probe-lex"])))
    rep.obligation("instantiated:C09_lex_roundtrip/break", not mism["probe-theorem"],
                   "%d probes, %d contradict the characterisation" % (len(probes), len(mism["probe-theorem"])))
    rep.obligation("correspondence:lexer", not mism["lexer"], "%d texts, %d mismatches" % (len(lexcases), len(mism["lexer"])))
    rep.obligation("correspondence:class-source", not mism["class"],
                   "%d classes of the modelled fragment, %d where the generated source differs from render(class_toks)"
                   % (len(modelled), len(mism["class"])))
    rep.obligation("hypothesis:well_sep", not mism["class-sep"], "%d classes, %d not well separated" % (len(modelled), len(mism["class-sep"])))
    rep.cov["streams"].setdefault("probe", {})["model_says_safe"] = len(model_ok_probe)
    rep.cov["streams"].setdefault("class", {})["model_predicts_reads_back"] = len(predicted_ok)
    # model verdict against the exec-level clause on the implementation
    verdict_bad = []
    for i, (site, s, lit, obs) in enumerate(probes):
        in_dom = probe_in_domain(site, s) or (site in IDENT_SITES and s in KW_SET)
        if not in_dom:
            continue
        fails = probe_spec(site, s) is not None
        if fails == (i in model_ok_probe):
            verdict_bad.append(i)
    rep.obligation("correspondence:probe-verdict-vs-exec", not verdict_bad,
                   "%d in-domain probes, %d where the model's safe/unsafe verdict and compile+exec+back-mapping disagree"
                   % (sum(1 for p in probes if probe_in_domain(p[0], p[1])), len(verdict_bad)))
    # prediction on classes: read-back of the real text (model lexer) must agree with compile success
    cls_bad = []
    for i, c in enumerate(modelled):
        if c[4] is None:
            continue
        compiled = observe_compiles(c[4])      # the class alone (definitions are generated separately)
        if (i in relex_ok) and not compiled:
            cls_bad.append(i)
        if (i in predicted_ok) != (i in relex_ok):
            cls_bad.append(i)
    rep.obligation("correspondence:class-prediction", not cls_bad,
                   "%d classes, %d where model prediction, model read-back of the real source and real compile disagree"
                   % (len(modelled), len(cls_bad)))
    rep.obligation("correspondence:required-roundtrip", not req_bad,
                   "%d classes mapped back, %d where structure_to_schema's required differs (as a set) from the model's "
                   "back_required(final_required)" % (req_hyp[1], len(req_bad)))
    rep.obligation("instantiated:C09_required_roundtrip", not req_thm_bad,
                   "%d classes satisfy the hypotheses (every defaulted property listed, no duplicates); %d of them "
                   "contradict the theorem's conclusion on the implementation" % (req_hyp[0], len(req_thm_bad)))
    # modules: text, name resolution, lexical prediction
    rep.obligation("correspondence:module-source", not mism["module"],
                   "%d modules of the modelled fragment (%d with definitions), %d where the file written by "
                   "write_code_from_schema differs from render(module_toks) under the generated layout"
                   % (len(mmod), sum(1 for m in mmod if m[2]), len(mism["module"])))
    n_ran = sum(1 for m in mmod if m[5] is not None)
    rep.obligation("correspondence:module-name-resolution", not mism["module-names"],
                   "%d executed modules (%d NameError), %d where CPython and the model's first_unbound/names_ok disagree"
                   % (n_ran, sum(1 for m in mmod if m[5] is not None and m[5][0] == "nameerror"), len(mism["module-names"])))
    rep.obligation("hypothesis:well_sep(module)", not mism["module-sep"],
                   "%d modules, %d not well separated" % (len(mmod), len(mism["module-sep"])))
    mod_bad = []
    for i, m in enumerate(mmod):
        if m[4] is None:
            continue
        compiled = m[6] != "no-compile"
        if (i in mod_relex_ok) and not compiled:
            mod_bad.append(i)
        if (i in mod_sites_ok) != (i in mod_relex_ok):
            mod_bad.append(i)
    rep.obligation("correspondence:module-prediction", not mod_bad,
                   "%d modules, %d where model prediction, model read-back of the written file and real compile disagree"
                   % (len(mmod), len(mod_bad)))
    rep.cov["streams"].setdefault("module", {})["model_predicts_executes"] = len(mod_names_ok)
    rep.cov["streams"].setdefault("module", {})["model_predicts_reads_back"] = len(mod_sites_ok)
    have_concrete = any(not v["no_input"] for v in rep.violations)

    def report(stream, idx, payload):
        if have_concrete:
            rep.obligation("correspondence:%s:explained-by-violation" % stream, True,
                           "mismatching cases accompany a concrete violation reported above")
        else:
            rep.broken("correspondence:" + stream, "model and implementation differ on %d generated cases; no clause of "
                       "C09 failed on any explored input" % len(idx), payload)
    if mism["probe-emit"] or mism["probe-lex"] or mism["probe-theorem"] or verdict_bad:
        idx = mism["probe-emit"] or mism["probe-lex"] or mism["probe-theorem"] or verdict_bad
        p = probes[idx[0]]
        report("probe", idx, {"kind": "probe", "site": p[0], "string": p[1], "literal": p[2], "observed": list(p[3]),
                              "discipline": dict(_site_table()).get(p[0])})
    if mism["lexer"]:
        t, o = lexcases[mism["lexer"][0]]
        report("lexer", mism["lexer"], {"kind": "lexer", "text": t, "cpython": o})
    if mism["class"] or cls_bad or mism["class-sep"]:
        idx = mism["class"] or cls_bad or mism["class-sep"]
        c = modelled[idx[0]]
        report("class", idx, {"kind": "class", "name": c[0], "schema": c[1], "definitions": c[2], "generated": c[4]})
    if req_bad or req_thm_bad:
        c = (req_bad or req_thm_bad)[0]
        report("required-roundtrip", req_bad or req_thm_bad,
               {"kind": "class", "name": c[0], "schema": c[1], "definitions": c[2], "mapped_back_required": c[7]})
    if mism["module"] or mism["module-names"] or mism["module-sep"] or mod_bad:
        idx = mism["module"] or mism["module-names"] or mod_bad or mism["module-sep"]
        m = mmod[idx[0]]
        report("module", idx, {"kind": "module", "name": m[0], "schema": m[1], "definitions": m[2], "written": m[4],
                               "ran": list(m[5]) if m[5] else None})


def run_documents(rep, rnd, n_classes):
    from typedpy import Structure  # noqa
    built = []
    for i in range(n_classes):
        sch = exact_class(rnd)
        r = run_generator("D%d" % i, copy.deepcopy(sch), {})
        if r[0] != "ok":
            rep.finding("C09/crash/" + r[1], "generator raised on an exact-fragment schema: " + r[2],
                        {"kind": "class", "name": "D%d" % i, "schema": sch, "definitions": {}})
            continue
        x = exec_code(r[1])
        if x[0] != "ok":
            rep.finding("C09/exec/unexplained/" + str(x[1])[:30], "exact-fragment schema does not build: %r" % (x,),
                        {"kind": "class", "name": "D%d" % i, "schema": sch, "definitions": {}})
            continue
        built.append((sch, sch, None, x[1]["D%d" % i], {}))
    all_docs = balanced_docs(rnd, [b[1] for b in built], 12)
    built = [(vs, inl, docs, cls, extra) for (vs, inl, _, cls, extra), docs in zip(built, all_docs)]
    judge_documents(rep, built, "documents")


def inline_refs(s, defs, depth=0):
    """The schema with every $ref replaced by the definition it names (acyclic definitions)."""
    if depth > 12:
        raise ValueError("cyclic definitions")
    if isinstance(s, list):
        return [inline_refs(x, defs, depth) for x in s]
    if not isinstance(s, dict):
        return s
    if isinstance(s.get("$ref"), str):
        return inline_refs(defs[s["$ref"][len("#/definitions/"):]], defs, depth + 1)
    out = {}
    for k, v in s.items():
        if k == "properties" and isinstance(v, dict):
            out[k] = {n: inline_refs(x, defs, depth) for n, x in v.items()}
        elif k in ("default", "enum", "required"):
            out[k] = v
        else:
            out[k] = inline_refs(v, defs, depth)
    return out


def run_module_documents(rep, rnd, n_modules):
    """Exact-fragment schemas WITH definitions, built through write_code_from_schema; the validator resolves the
    $refs itself (schema + "definitions"), documents are generated from the inlined schema."""
    from harness import c09mod as M
    d = core.workdir("c09moddoc")
    path = os.path.join(d, "generated_c09_docs.py")
    built = []
    try:
        for i in range(n_modules):
            name = "MD%d" % i
            dnames = rnd.sample(["Addr", "Pt", "Unit"], rnd.choice([1, 1, 2, 3]))
            defs = {}
            for j, dn in enumerate(dnames):
                props = {n: exact_field(rnd, 1) for n in rnd.sample(["u", "v", "w"], 2)}
                if j > 0 and rnd.random() < 0.6:
                    props["r"] = M.ref_at(rnd.choice(M.DOC_POSITIONS), rnd.choice(dnames[:j]))
                req = [n for n in props if rnd.random() < 0.6] or [sorted(props)[0]]
                defs[dn] = {"type": "object", "properties": props, "required": req,
                            "additionalProperties": rnd.choice([True, False])}
            sch = exact_class(rnd)
            pnames = list(sch["properties"])
            for n in rnd.sample(pnames, rnd.randint(1, len(pnames))):
                pos = rnd.choice(M.DOC_POSITIONS)
                sch["properties"][n] = M.ref_at(pos, rnd.choice(dnames))
                rep.stat("module-documents", "ref-position:" + pos)
            r = M.run_module(name, copy.deepcopy(sch), copy.deepcopy(defs), path)
            x = M.exec_module(r[1], path) if r[0] == "ok" else r
            if x[0] != "ok" or not M.is_structure(x[1].get(name)):
                rep.finding("C09/module/exec/unexplained/exact-fragment",
                            "exact-fragment schema with definitions does not build through write_code_from_schema: %r" % (x[:3],),
                            {"kind": "module", "name": name, "schema": sch, "definitions": defs,
                             "python": M.module_python(name, sch, defs)})
                continue
            inl = inline_refs(sch, defs)
            built.append((dict(sch, definitions=defs), inl, None, x[1][name], {"definitions": defs, "name": name, "main": sch}))
    finally:
        core.cleanup(d)
    all_docs = balanced_docs(rnd, [b[1] for b in built], 12)
    built = [(vs, inl, docs, cls, extra) for (vs, inl, _, cls, extra), docs in zip(built, all_docs)]
    judge_documents(rep, built, "module-documents")


def judge_documents(rep, built, stream):
    """built: [(schema given to the validator, the same schema without $ref, documents, generated class, replay extras)]"""
    items = [{"schema": vs, "docs": docs} for vs, inl, docs, cls, extra in built]
    verdicts, err = run_validator(items)
    if verdicts is None:
        rep.obligation("oracle:draft4-validator(%s)" % stream, False, "python3-vt / jsonschema unavailable: " + err)
        rep.broken("oracle:draft4-validator", "the independent validator could not be run: " + err)
        return
    rep.obligation("oracle:draft4-validator(%s)" % stream, True,
                   "%d schemas validated by jsonschema.Draft4Validator (python3-vt)" % len(items))
    pending = []
    for (vs, sch, docs, cls, extra), vds in zip(built, verdicts):
        if isinstance(vds, str):
            rep.broken("oracle:schema-rejected", "the validator rejects a generated schema: %s %r" % (vds, vs))
            continue
        for d, v in zip(docs, vds):
            acc, why = class_accepts(cls, d)
            rep.count(stream, 1, (json.dumps(d, sort_keys=True, default=str)[:60], v))
            rep.stat(stream, ("valid" if v else "invalid") + "/" + ("accepted" if acc else "rejected"))
            if why and why.startswith("other:"):
                rep.finding("C09/equiv/error-class/" + why[6:], "deserializing %r raised %s" % (d, why[6:]),
                            dict({"kind": "docs", "schema": sch, "doc": d, "validator": v}, **extra))
            elif acc != v:
                pending.append((sch, d, v, acc, cls, extra))
    # narrow each disagreement: which repair of the document makes the two sides agree?
    items2 = [{"schema": sch, "docs": [x for _, x in repairs(sch, d)]} for sch, d, v, acc, cls, extra in pending]
    verdicts2, err = run_validator(items2) if items2 else ([], "")
    keys = {}
    for n, (sch, d, v, acc, cls, extra) in enumerate(pending):
        if verdicts2 is not None and not v and acc:
            for (label, d2), v2 in zip(repairs(sch, d), verdicts2[n]):
                if d2 != d and v2 and class_accepts(cls, d2)[0]:
                    keys[n] = "class-accepts-invalid/" + label
                    break
    # the rest: isolate the smallest (sub-schema, value) pair on which the two sides differ
    cands = {n: atomic_candidates(sch, d) for n, (sch, d, v, acc, cls, extra) in enumerate(pending) if n not in keys}
    flat = [(n, depth, s, val) for n, cs in cands.items() for depth, s, val in cs]
    items3 = [{"schema": {"type": "object", "properties": {"p": s}, "required": ["p"]}, "docs": [{"p": val}]}
              for _, _, s, val in flat]
    verdicts3, err = run_validator(items3) if items3 else ([], "")
    best = {}
    for (n, depth, s, val), vs in zip(flat, verdicts3 or []):
        if not isinstance(vs, list):
            continue
        r = run_generator("One", {"type": "object", "properties": {"p": copy.deepcopy(s)}, "required": ["p"]}, {})
        x = exec_code(r[1]) if r[0] == "ok" else ("raise",)
        if x[0] != "ok":
            continue
        a, _ = class_accepts(x[1]["One"], {"p": val})
        if a != vs[0] and (n not in best or depth > best[n][0]):
            best[n] = (depth, ("class-rejects-valid/" if vs[0] else "class-accepts-invalid/") + field_signature(s, val))
    for n, (sch, d, v, acc, cls, extra) in enumerate(pending):
        key = keys.get(n) or (best[n][1] if n in best else
                              ("class-rejects-valid" if v else "class-accepts-invalid") + "/unclassified"
                              + ("-with-definitions" if extra else ""))
        rep.finding("C09/equiv/" + key,
                    "document %r: draft-4 validator says %s, generated class %s" % (d, "valid" if v else "invalid",
                                                                                      "accepts" if acc else "rejects"),
                    dict({"kind": "docs", "schema": sch, "doc": d, "validator": v}, **extra))


def _descend(fn, sch, doc):
    """apply fn below arrays, map values and the branches of allOf/anyOf/oneOf"""
    if not isinstance(sch, dict):
        return doc
    for k in ("allOf", "anyOf", "oneOf"):
        for b in sch.get(k, []) or []:
            if isinstance(b, dict):
                doc = fn(b, doc)
    if sch.get("type") == "array" and isinstance(doc, list):
        it = sch.get("items")
        if isinstance(it, dict):
            return [fn(it, x) for x in doc]
        if isinstance(it, list):
            return [fn(it[i], x) if i < len(it) else x for i, x in enumerate(doc)]
    if sch.get("type") == "object" and "properties" not in sch and isinstance(sch.get("additionalProperties"), dict) \
            and isinstance(doc, dict):
        return {k: fn(sch["additionalProperties"], v) for k, v in doc.items()}
    return doc


def strip_undeclared(sch, doc):
    """doc without the keys a closed object schema does not declare (recursively, also inside combinators)."""
    if isinstance(sch, dict) and sch.get("type") == "object" and "properties" in sch and isinstance(doc, dict):
        out = {}
        for k, v in doc.items():
            if k in sch["properties"]:
                out[k] = strip_undeclared(sch["properties"][k], v)
            elif sch.get("additionalProperties", True) is not False:
                out[k] = v
        return out
    return _descend(strip_undeclared, sch, doc)


def strip_null_optional(sch, doc):
    """doc without the optional properties whose value is null (recursively, also inside combinators)."""
    if isinstance(sch, dict) and sch.get("type") == "object" and "properties" in sch and isinstance(doc, dict):
        out = {}
        for k, v in doc.items():
            if k in sch["properties"]:
                if v is None and k not in sch.get("required", []):
                    continue
                out[k] = strip_null_optional(sch["properties"][k], v)
            else:
                out[k] = v
        return out
    return _descend(strip_null_optional, sch, doc)


def repairs(sch, doc):
    a = strip_undeclared(sch, doc)
    b = strip_null_optional(sch, doc)
    return [("additional-property-ignored", a), ("null-for-optional-property", b),
            ("additional-property-ignored+null-for-optional-property", strip_null_optional(sch, a))]


def atomic_candidates(sch, doc, depth=0, out=None):
    """(depth, sub-schema, value) pairs inside a (schema, document) pair, for isolating a disagreement."""
    out = [] if out is None else out
    if not isinstance(sch, dict) or depth > 6:
        return out
    if depth > 0:
        out.append((depth, sch, doc))
    for k in ("allOf", "anyOf", "oneOf"):
        for s in sch.get(k, []) or []:
            atomic_candidates(s, doc, depth + 1, out)
    t = sch.get("type")
    if t == "object" and isinstance(doc, dict):
        if "properties" in sch:
            for n, s in sch["properties"].items():
                if n in doc:
                    atomic_candidates(s, doc[n], depth + 1, out)
        elif isinstance(sch.get("additionalProperties"), dict):
            for v in doc.values():
                atomic_candidates(sch["additionalProperties"], v, depth + 1, out)
    if t == "array" and isinstance(doc, list):
        it = sch.get("items")
        if isinstance(it, dict):
            for v in doc:
                atomic_candidates(it, v, depth + 1, out)
        elif isinstance(it, list):
            for s, v in zip(it, doc):
                atomic_candidates(s, v, depth + 1, out)
    return out


def field_signature(s, v):
    vt = "null" if v is None else type(v).__name__
    if "enum" in s:
        return "enum/" + vt
    for k in ("anyOf", "oneOf", "allOf"):
        if k in s:
            return k + "/" + vt
    t = s.get("type", "object")
    if t == "array":
        it = s.get("items")
        return "array-%s%s/%s" % ("tuple" if isinstance(it, list) else "list", "-unique" if s.get("uniqueItems") else "", vt)
    if t == "object":
        return ("object" if "properties" in s else "map") + "/" + vt
    return t + "/" + vt
