"""C19 — operations never mutate caller data and never hand out live internal state.

Proof obligations: Props/C19.v -- (1) store model with sharing: noninterference for every operation whose effect summary is
copy-only, by induction over arbitrary client mutation histories, a witness per unsafe effect kind; (2) intake model
(Struct/AliasIntake.v): which isinstance tables of typedpy's defensive-copy decisions keep an ImmutableStructure / a field
declared immutable from sharing caller-mutable objects, for every declared type and every argument shape; a leaking value for
every unsafe table entry; typed fields of mutable owners by induction over the type.  PARTIAL by design: the deciding work is
the differential below.

Tie to the code:
  * Gen/AliasSites.v (harness/aliasgen.py) and Gen/AliasTables.v (harness/genmods/alias_tables.py) are regenerated from the
    AST of /repo on every run: the effect kind of each copy / alias site (_ListStruct.__init__, Array.serialize short-cuts,
    convert_dict, required.remove, ...) and the isinstance tuples of Structure.__setattr__, Field.__set__,
    ImmutableMixin._get_defensive_copy_if_needed (module constants resolved), the wrappers' copy gates, the Map exception.
  * correspondence: for every generated (operation, owner kind, field type, ARGUMENT SHAPE) the effect OBSERVED on the real
    implementation -- deep snapshot of every argument before/after, then mutation of every caller-mutable object of every
    argument (below tuples, frozensets, plain objects, wrappers of other instances; Structure instances too when the owner
    promises a copy) and of every returned object, comparing instance / class fingerprints -- is compared inside Coq with the
    effect the model predicts from the generated facts (Check/C19chk.v, vm_compute).
  * the property's clauses are evaluated directly on the observations; a violation is keyed by effect kind, call site and the
    path (declared types, then python kinds below an untyped position) of the offending object.
Streams: random classes (plain / FastSerializable / ImmutableStructure, fields declared immutable); the deterministic lattice
owner kind x field type with an untyped position x python kind of the value there; wrapper mutators; failing construction /
deserialization; Versioned deserialization; schema_to_struct_code; structure_to_schema; derivation; convert_dict."""
import collections
import copy
import inspect
import json
import random
import re

from harness import core
from harness import coqemit as E

MUT = "MUT"
SCALARS = ("int", "str", "float", "bool")


# ===================================================================================== type AST

def gen_scalar_t(rnd):
    return [rnd.choice(["int", "int", "str", "float", "bool"])]


def gen_type(rnd, depth=0, allow_untyped=True, allow_struct=True, allow_deque=True):
    r = rnd.random()
    if depth >= 2 or r < 0.18:
        return gen_scalar_t(rnd)
    if allow_untyped and r < 0.30:
        return rnd.choice([["any"], ["any"], ["arr", None], ["map", None], ["set", False], ["deque", None]]
                          if allow_deque else [["any"], ["any"], ["arr", None], ["map", None], ["set", False]])
    if r < 0.58:
        return ["arr", gen_type(rnd, depth + 1, allow_untyped, allow_struct, allow_deque)]
    if r < 0.70:
        return ["map", gen_type(rnd, depth + 1, allow_untyped, allow_struct, allow_deque)]
    if r < 0.75:
        return ["set", True]
    if r < 0.81:
        return ["tuple", [gen_tuple_item(rnd, depth + 1, allow_untyped) for _ in range(rnd.randint(2, 3))]]
    if r < 0.86 and allow_deque:
        # (the regular serializer cannot serialize a Deque nested in a Tuple / positional Array: not generated)
        return ["deque", gen_type(rnd, depth + 1, allow_untyped, allow_struct, allow_deque)]
    if r < 0.90:
        return ["arrpos", [gen_tuple_item(rnd, depth + 1, allow_untyped) for _ in range(rnd.randint(1, 2))]]
    if r < 0.95 and allow_struct and depth < 2:
        return ["struct", [gen_type(rnd, depth + 1, allow_untyped, False, allow_deque) for _ in range(rnd.randint(1, 2))]]
    inner = gen_type(rnd, depth + 1, False, allow_struct, allow_deque)
    return ["opt", inner] if inner[0] not in ("opt", "any") else inner


def gen_tuple_item(rnd, depth, allow_untyped):
    """Item of a Tuple / positional Array: a typed one, or (one in four when untyped positions are allowed) Anything."""
    if allow_untyped and rnd.random() < 0.25:
        return ["any"]
    return gen_type(rnd, depth, False, False, False)


def gen_simple_type(rnd, depth=0):
    """Types of the 'simple' classes trusted deserialization applies to."""
    r = rnd.random()
    if r < 0.35:
        return gen_scalar_t(rnd)
    if r < 0.75:
        return ["arr", gen_scalar_t(rnd)]
    if r < 0.85:
        return ["set", True]
    if depth == 0:
        return ["struct", [gen_simple_type(rnd, 1) for _ in range(rnd.randint(1, 2))]]
    return ["arr", gen_scalar_t(rnd)]


def typed_inside(t):
    k = t[0]
    if k in SCALARS:
        return True
    if k == "any":
        return False
    if k in ("arr", "map", "deque", "opt"):
        return t[1] is not None and typed_inside(t[1])
    if k == "set":
        return bool(t[1])
    return all(typed_inside(x) for x in t[1])


def leaf(t):
    if t is None:
        return "untyped"
    return {"arr": "Array", "arrpos": "ArrayPos", "map": "Map", "set": "Set", "tuple": "Tuple", "deque": "Deque",
            "struct": "Struct", "opt": "Optional", "any": "Anything"}.get(t[0], t[0])


def label(t):
    """Label of a container position of type t: its kind and the kind of what it holds."""
    if t is None:
        return "untyped"
    k = t[0]
    if k in ("arr", "deque", "map"):
        return "%s[%s]" % (leaf(t), leaf(t[1]))
    return leaf(t)


def emit_aty(t):
    k = t[0]
    if k in ("int", "str", "float"):
        return "(TScalar true)"
    if k == "bool":
        return "(TScalar false)"
    if k == "any":
        return "TAny"
    if k in ("arr", "map", "deque"):
        c = {"arr": "TArray", "map": "TMap", "deque": "TDeque"}[k]
        return "(%s %s)" % (c, "None" if t[1] is None else "(Some %s)" % emit_aty(t[1]))
    if k == "set":
        return "(TSet %s)" % E.blit(bool(t[1]))
    if k == "opt":
        return "(TOpt %s)" % emit_aty(t[1])
    c = {"arrpos": "TArrayPos", "tuple": "TTuple", "struct": "TStruct"}[k]
    return "(%s %s)" % (c, E.lst([emit_aty(x) for x in t[1]]))


# ===================================================================================== classes

class ClassSpec:
    """A generated class: name, kind (plain | immutable | fast), fields [(name, aty)], inner classes."""

    def __init__(self, name, kind, fields, mapper=None, defaults=None, required=None, immfields=None):
        self.name, self.kind, self.fields = name, kind, fields
        self.immfields = list(immfields or [])   # fields declared with the Immutable* variant of their field class
        self.mapper = mapper or {}
        self.defaults = defaults or {}        # field -> python source of the default
        self.required = required
        self.inner = {}                        # id(aty list) -> (inner class name, [(fname, aty)])
        self._n = 0

    def to_json(self):
        return {"name": self.name, "kind": self.kind, "fields": self.fields, "mapper": self.mapper,
                "defaults": self.defaults, "required": self.required, "immfields": self.immfields}

    @staticmethod
    def from_json(o):
        return ClassSpec(o["name"], o["kind"], [tuple(f) for f in o["fields"]], o.get("mapper"), o.get("defaults"),
                         o.get("required"), o.get("immfields"))

    def owner(self, fname):
        """Who promises what about the value of this field: an ImmutableStructure, a field declared immutable, nobody."""
        if self.kind == "immutable":
            return "immstruct"
        return "immfield" if fname in self.immfields else "plain"

    # ---- source
    def inner_name(self, t):
        key = json.dumps(t)
        if key not in self.inner:
            self._n += 1
            self.inner[key] = ("%s_I%d" % (self.name, self._n), [("g%d" % i, x) for i, x in enumerate(t[1])])
        return self.inner[key][0]

    def inner_fields(self, t):
        self.inner_name(t)
        return self.inner[json.dumps(t)][1]

    def field_src(self, t, imm=False):
        k = t[0]
        if imm:
            # the library's Immutable* classes where they exist, the documented mixin recipe otherwise
            plain = self.field_src(t)
            cls = plain.split("(", 1)[0]
            return IMM_CLASS[cls] + plain[len(cls):]
        if k == "int":
            return "Integer()"
        if k == "str":
            return "String()"
        if k == "float":
            return "Float()"
        if k == "bool":
            return "Boolean()"
        if k == "any":
            return "Anything()"
        if k == "arr":
            return "Array()" if t[1] is None else "Array(items=%s)" % self.field_src(t[1])
        if k == "arrpos":
            return "Array(items=[%s])" % ", ".join(self.field_src(x) for x in t[1])
        if k == "map":
            return "Map()" if t[1] is None else "Map(items=[String(), %s])" % self.field_src(t[1])
        if k == "set":
            return "Set(items=Integer())" if t[1] else "Set()"
        if k == "tuple":
            return "Tuple(items=[%s])" % ", ".join(self.field_src(x) for x in t[1])
        if k == "deque":
            return "Deque()" if t[1] is None else "Deque(items=%s)" % self.field_src(t[1])
        if k == "struct":
            return "ClassReference(%s)" % self.inner_name(t)
        if k == "opt":
            return "AnyOf(fields=[%s, NoneField()])" % self.field_src(t[1])
        raise ValueError(t)

    def source(self):
        body = []
        for fname, t in self.fields:
            src = self.field_src(t, imm=fname in self.immfields)
            if fname in self.defaults:
                src = src[:-1] + (", " if not src.endswith("()") else "") + "default=%s)" % self.defaults[fname]
            body.append("    %s = %s" % (fname, src))
        req = self.required if self.required is not None else [f for f, t in self.fields if t[0] != "opt"]
        body.append("    _required = %r" % (req,))
        if self.mapper:
            body.append("    _serialization_mapper = {%s}" % ", ".join(
                "%r: %s" % (k, v if v == "DoNotSerialize" else repr(v)) for k, v in self.mapper.items()))
        bases = {"plain": "Structure", "immutable": "ImmutableStructure", "fast": "Structure, FastSerializable"}[self.kind]
        inner_bases = "Structure, FastSerializable" if self.kind == "fast" else "Structure"
        out = []
        done = set()
        # inner classes may be discovered while rendering: iterate to a fixpoint
        outer = "class %s(%s):\n%s\n" % (self.name, bases, "\n".join(body))
        while True:
            pending = [(k, v) for k, v in self.inner.items() if k not in done]
            if not pending:
                break
            for k, (iname, ifields) in pending:
                done.add(k)
                ib = ["    %s = %s" % (f, self.field_src(t)) for f, t in ifields]
                ib.append("    _required = %r" % ([f for f, t in ifields if t[0] != "opt"],))
                out.append("class %s(%s):\n%s\n" % (iname, inner_bases, "\n".join(ib)))
        return "\n".join(reversed(out)) + "\n" + outer


IMPORTS = ("from typedpy import (Structure, ImmutableStructure, Array, Map, Set, Tuple, Deque, Integer, String, Float, "
           "Boolean, Anything, AnyOf, NoneField, ClassReference, FastSerializable, create_serializer, DoNotSerialize, "
           "ImmutableField, ImmutableArray, ImmutableMap, ImmutableSet, ImmutableDeque)\n"
           "class ImmutableAnything(ImmutableField, Anything): pass\n"
           "class ImmutableTuple(ImmutableField, Tuple): pass\n")
IMM_CLASS = {"Anything": "ImmutableAnything", "Array": "ImmutableArray", "Map": "ImmutableMap", "Set": "ImmutableSet",
             "Deque": "ImmutableDeque", "Tuple": "ImmutableTuple"}
IMM_ELIGIBLE = ("any", "arr", "arrpos", "map", "set", "deque", "tuple")


def realize(spec):
    ns = {}
    src = IMPORTS + spec.source()
    exec(src, ns)  # noqa: S102 -- generated source, explicit imports
    if spec.kind == "fast":
        for iname, _ in spec.inner.values():
            ns["create_serializer"](ns[iname])
        ns["create_serializer"](ns[spec.name])
    return ns[spec.name], ns, src


# ===================================================================================== values

# Documents are kept JSON-able (they go into replay files).  What JSON cannot say -- the python kinds an UNTYPED
# position may be handed: tuple, set, frozenset, deque, an object of a user class, a list / dict wrapper taken from a
# field of some other instance -- is written {"$": kind, "v": payload} and turned into the real thing by decode().
TAG = "$"


class Obj:
    """A plain user object with a (re-assignable, mutable) attribute."""

    def __init__(self, items):
        self.items = items

    def __eq__(self, other):
        return isinstance(other, Obj) and other.items == self.items

    def __hash__(self):
        return 7

    def __repr__(self):
        return "Obj(%r)" % (self.items,)


_HOLDER = {}


def holder():
    """A mutable structure whose fields' wrappers (_ListStruct / _DictStruct) serve as argument values."""
    if "cls" not in _HOLDER:
        ns = {}
        exec(IMPORTS + "class C19Holder(Structure):\n    arr = Array(items=Array(items=Integer()))\n"
                       "    m = Map(items=[String(), Array(items=Integer())])\n    _required = []\n", ns)  # noqa: S102
        _HOLDER["cls"] = ns["C19Holder"]
    return _HOLDER["cls"]


def T(kind, payload):
    return {TAG: kind, "v": payload}


def is_tagged(v):
    return isinstance(v, dict) and TAG in v


def decode(v):
    """The python value a (possibly tagged) document value stands for; always a fresh object graph."""
    if is_tagged(v):
        kind, payload = v[TAG], v["v"]
        if kind == "tuple":
            return tuple(decode(x) for x in payload)
        if kind == "set":
            return {decode(x) for x in payload}
        if kind == "frozenset":
            return frozenset(decode(x) for x in payload)
        if kind == "deque":
            return collections.deque(decode(x) for x in payload)
        if kind == "obj":
            return Obj([decode(x) for x in payload])
        if kind == "wrap-list":
            return holder()(arr=copy.deepcopy(payload)).arr
        if kind == "wrap-dict":
            return holder()(m=copy.deepcopy(payload)).m
        raise ValueError(v)
    if isinstance(v, list):
        return [decode(x) for x in v]
    if isinstance(v, dict):
        return {k: decode(x) for k, x in v.items()}
    return v


def has_exotic(v):
    """Does the document contain something the serializers are not expected to cope with (anything tagged)?"""
    if is_tagged(v):
        return True
    if isinstance(v, list):
        return any(has_exotic(x) for x in v)
    if isinstance(v, dict):
        return any(has_exotic(x) for x in v.values())
    return False


def gen_hashable(rnd, depth=0):
    r = rnd.random()
    if depth >= 2 or r < 0.5:
        return rnd.choice([1, 2, 5, "h", 0.5])
    if r < 0.85:
        return T("tuple", [gen_hashable(rnd, depth + 1) for _ in range(rnd.randint(1, 2))])
    return T("frozenset", [gen_hashable(rnd, depth + 1) for _ in range(rnd.randint(1, 2))])


def gen_anyval(rnd, depth=0):
    """What a caller may hand to an untyped position: JSON-like nests, and the python kinds around them."""
    r = rnd.random()
    if depth >= 3 or r < 0.10:
        return rnd.choice([1, "s", 2.5, True, None, 0, ""])
    sub = lambda: gen_anyval(rnd, depth + 1)
    n = rnd.randint(1, 2)
    if r < 0.30:
        return [sub() for _ in range(rnd.randint(0, 2))] if rnd.random() < 0.8 else copy.deepcopy(rnd.choice(JSON_NESTS))
    if r < 0.45:
        return {k: sub() for k in rnd.sample(["p", "q", "r"], n)}
    if r < 0.72:
        return T("tuple", [sub() for _ in range(rnd.randint(0, 3))])
    if r < 0.77:
        return T("set", [gen_hashable(rnd, 1) for _ in range(n)])
    if r < 0.81:
        return T("frozenset", [gen_hashable(rnd, 1) for _ in range(n)])
    if r < 0.87:
        return T("deque", [sub() for _ in range(n)])
    if r < 0.92:
        return T("obj", [sub() for _ in range(n)])
    if r < 0.96:
        return T("wrap-list", [[rnd.choice([1, 2, 3]) for _ in range(rnd.randint(1, 2))] for _ in range(n)])
    return T("wrap-dict", {k: [rnd.choice([1, 2, 3])] for k in rnd.sample(["wa", "wb"], n)})


JSON_NESTS = [{"p": [1, 2]}, [1, {"q": [2]}], [[1], [2]], {"a": {"b": [3]}}]
UNTYPED_LISTS = [[[1], {"a": [2]}], [{"z": [1]}, [3]], [[5, 6]]]
UNTYPED_DICTS = [{"z": [1, {"q": 2}]}, {"k": {"n": [1]}}]

# the deterministic value lattice of the untyped-position stream: every python kind at the top, mutable and immutable
# content below it, one and two levels down
ZOO = [
    ("scalar", 7),
    ("list-of-scalars", [1, 2]),
    ("list-of-lists", [[1], [2]]),
    ("dict-of-lists", {"p": [1, 2]}),
    ("tuple-of-scalars", T("tuple", [1, "a"])),
    ("empty-tuple", T("tuple", [])),
    ("tuple-of-list", T("tuple", [[1, 2, 3], "tag"])),
    ("tuple-of-dict", T("tuple", [{"k": [1]}])),
    ("tuple-of-set", T("tuple", [T("set", [1, 2]), 3])),
    ("tuple-of-tuple-of-list", T("tuple", [T("tuple", ["x", [1]]), 2])),
    ("list-of-tuple-of-list", [T("tuple", [[1], 2])]),
    ("dict-of-tuple-of-list", {"a": T("tuple", [[1], 2])}),
    ("set-of-scalars", T("set", [1, 2])),
    ("set-of-tuples", T("set", [T("tuple", [1, 2])])),
    ("frozenset-of-tuples", T("frozenset", [T("tuple", [1, 2]), 3])),
    ("deque-of-lists", T("deque", [[1], [2]])),
    ("tuple-of-deque", T("tuple", [T("deque", [1])])),
    ("object", T("obj", [1, 2])),
    ("tuple-of-object", T("tuple", [T("obj", [1]), 1])),
    ("frozenset-of-object", T("frozenset", [T("obj", [1])])),
    ("wrapper-list", T("wrap-list", [[1], [2]])),
    ("wrapper-dict", T("wrap-dict", {"wa": [1]})),
    ("tuple-of-wrapper", T("tuple", [T("wrap-list", [[1]]), 0])),
]


def gen_doc(rnd, t, spec, anygen=None):
    """A document value valid for type t (the Deserializer's input form); untyped positions are filled by anygen."""
    k = t[0]
    def anyval():
        if anygen is not None:
            return anygen()
        v = copy.deepcopy(rnd.choice(JSON_NESTS)) if rnd.random() < 0.45 else gen_anyval(rnd, 1)
        return 0 if v is None else v          # None at the top of a required field means "absent"
    if k == "int":
        return rnd.choice([0, 1, 7, -3, 12])
    if k == "str":
        return rnd.choice(["a", "bc", "", "joe"])
    if k == "float":
        return rnd.choice([0.5, 1.5, -2.25])
    if k == "bool":
        return rnd.choice([True, False])
    if k == "any":
        return anyval()
    if k in ("arr", "deque"):
        if t[1] is None:
            if anygen is None and rnd.random() < 0.4:
                return copy.deepcopy(rnd.choice(UNTYPED_LISTS))
            return [anyval() for _ in range(rnd.randint(1, 2))]
        return [gen_doc(rnd, t[1], spec, anygen) for _ in range(rnd.randint(1, 3))]
    if k in ("arrpos", "tuple"):
        return [gen_doc(rnd, x, spec, anygen) for x in t[1]]
    if k == "map":
        if t[1] is None:
            if anygen is None and rnd.random() < 0.4:
                return copy.deepcopy(rnd.choice(UNTYPED_DICTS))
            return {key: anyval() for key in rnd.sample(["k1", "k2", "x"], rnd.randint(1, 2))}
        return {key: gen_doc(rnd, t[1], spec, anygen) for key in rnd.sample(["k1", "k2", "x"], rnd.randint(1, 2))}
    if k == "set":
        if t[1]:
            return rnd.choice([[1, 2], [5], [3, 4, 9]])
        xs = [gen_hashable(rnd, 1) for _ in range(rnd.randint(1, 3))]
        return [x for i, x in enumerate(xs) if x not in xs[:i]]
    if k == "struct":
        return {f: gen_doc(rnd, x, spec, anygen) for f, x in spec.inner_fields(t) if not (x[0] == "opt" and rnd.random() < 0.2)}
    if k == "opt":
        return gen_doc(rnd, t[1], spec, anygen)
    raise ValueError(t)


def doc_to_ctor(t, v, spec, ns):
    """The constructor-argument form of a document value (sets, tuples, deques, nested instances); always fresh."""
    k = t[0]
    if v is None:
        return None
    if k in SCALARS:
        return v
    if k == "any":
        return decode(v)
    if k == "arr":
        return decode(v) if t[1] is None else [doc_to_ctor(t[1], x, spec, ns) for x in v]
    if k == "deque":
        return collections.deque(decode(v) if t[1] is None else [doc_to_ctor(t[1], x, spec, ns) for x in v])
    if k == "arrpos":
        return [doc_to_ctor(x, y, spec, ns) for x, y in zip(t[1], v)]
    if k == "tuple":
        return tuple(doc_to_ctor(x, y, spec, ns) for x, y in zip(t[1], v))
    if k == "map":
        return decode(v) if t[1] is None else {kk: doc_to_ctor(t[1], x, spec, ns) for kk, x in v.items()}
    if k == "set":
        return set(decode(v))
    if k == "struct":
        cls = ns[spec.inner_name(t)]
        fs = dict(spec.inner_fields(t))
        return cls(**{f: doc_to_ctor(fs[f], x, spec, ns) for f, x in v.items()})
    if k == "opt":
        return doc_to_ctor(t[1], v, spec, ns)
    raise ValueError(t)


# ---- shapes (the model's view of an argument value: Struct/AliasIntake.v)

def any_shape(v):
    from typedpy.fields.collections_impl import _ListStruct, _DictStruct, _DequeStruct
    if isinstance(v, (_ListStruct, _DequeStruct)):
        return "(VWrapper %s)" % E.lst([any_shape(x) for x in (list.__iter__(v) if isinstance(v, list) else collections.deque.__iter__(v))])
    if isinstance(v, _DictStruct):
        return "(VWrapper %s)" % E.lst([any_shape(x) for x in dict.values(v)])
    if is_struct(v):
        return "VInst"
    if isinstance(v, list):
        return "(VList %s)" % E.lst([any_shape(x) for x in v])
    if isinstance(v, tuple):
        return "(VTuple %s)" % E.lst([any_shape(x) for x in v])
    if isinstance(v, collections.deque):
        return "(VDeque %s)" % E.lst([any_shape(x) for x in v])
    if isinstance(v, frozenset):
        return "(VFrozenset %s)" % E.lst(sorted(any_shape(x) for x in v))
    if isinstance(v, set):
        return "(VSet %s)" % E.lst(sorted(any_shape(x) for x in v))
    if isinstance(v, dict):
        return "(VDict %s)" % E.lst([any_shape(x) for x in v.values()])
    if isinstance(v, Obj):
        return "(VObj %s)" % E.lst([any_shape(v.items)])
    return "VAtom"


def is_wrapper(v):
    from typedpy.fields.collections_impl import _ListStruct, _DictStruct, _DequeStruct
    return isinstance(v, (_ListStruct, _DictStruct, _DequeStruct))


def shape_of(t, v, spec, deser):
    """Gallina vshape of the argument object v handed to a field of type t."""
    k = t[0]
    if k in SCALARS:
        return "VAtom"
    if k == "any":
        return any_shape(v)
    if k == "opt":
        return shape_of(t[1], v, spec, deser)
    if is_wrapper(v) and k in ("arr", "arrpos", "deque", "map"):
        # the live value of another instance's field (a donor): elements read off the base container
        elems = list(dict.values(v)) if isinstance(v, dict) else list(list.__iter__(v)) if isinstance(v, list) \
            else list(collections.deque.__iter__(v))
        if k == "arrpos":
            return "(VWrapper %s)" % E.lst([shape_of(x, y, spec, deser) for x, y in zip(t[1], elems)])
        return "(VWrapper %s)" % E.lst([any_shape(x) if t[1] is None else shape_of(t[1], x, spec, deser) for x in elems])
    if k in ("arr", "deque", "set"):
        con = "VDeque" if isinstance(v, collections.deque) else "VFrozenset" if isinstance(v, frozenset) else \
            "VSet" if isinstance(v, set) else "VList"
        if k == "set" or t[1] is None:
            elems = [any_shape(x) for x in v]
            return "(%s %s)" % (con, E.lst(sorted(elems) if k == "set" else elems))
        return "(%s %s)" % (con, E.lst([shape_of(t[1], x, spec, deser) for x in v]))
    if k in ("arrpos", "tuple"):
        con = "VTuple" if isinstance(v, tuple) else "VList"
        return "(%s %s)" % (con, E.lst([shape_of(x, y, spec, deser) for x, y in zip(t[1], v)]))
    if k == "map":
        return "(VDict %s)" % E.lst([any_shape(x) if t[1] is None else shape_of(t[1], x, spec, deser) for x in v.values()])
    if k == "struct":
        if is_struct(v):
            return "VInst"
        return "(VRec %s)" % E.lst(["(Some %s)" % shape_of(ft, v[f], spec, deser) if f in v else "None"
                                    for f, ft in spec.inner_fields(t)])
    raise ValueError(t)


def corrupt_doc(rnd, t, v):
    """A single-point corruption that must be rejected (None = no corruption available)."""
    k = t[0]
    if k == "int":
        return "bad"
    if k == "str":
        return 12
    if k == "float":
        return "bad"
    if k == "bool":
        return "maybe"
    if k in ("arr", "deque") and t[1] is not None and t[1][0] in SCALARS and isinstance(v, list):
        return list(v) + [corrupt_doc(rnd, t[1], None)]
    if k == "map" and t[1] is not None and t[1][0] in SCALARS and isinstance(v, dict):
        return dict(v, zz=corrupt_doc(rnd, t[1], None))
    if k in ("arr", "map", "set", "deque", "struct", "tuple", "arrpos"):
        return 17
    return None


# ===================================================================================== snapshots, fingerprints

def is_struct(o):
    from typedpy import Structure
    return isinstance(o, Structure)


def asnap(o):
    """Deep snapshot of an ARGUMENT: identity-insensitive, but sensitive to everything a caller can see in its own
    data afterwards -- contents of nested lists, key sets AND key order of dicts."""
    return snap(o, 0, True)


def snap(o, depth=0, ordered=False):
    """Canonical deep snapshot (base container kind, element snapshots); wrappers count as their base type."""
    if depth > 30:
        return ("deep",)
    if is_struct(o):
        return ("struct", type(o).__name__,
                tuple(sorted((k, snap(v, depth + 1, ordered)) for k, v in o.__dict__.items() if not k.startswith("_"))))
    if isinstance(o, dict):
        items = [(snap(k, depth + 1, ordered), snap(v, depth + 1, ordered)) for k, v in dict.items(o)]
        return ("dict", tuple(items if ordered else sorted(items, key=repr)))
    if isinstance(o, collections.deque):
        return ("deque", tuple(snap(x, depth + 1, ordered) for x in collections.deque.__iter__(o)))
    if isinstance(o, list):
        return ("list", tuple(snap(x, depth + 1, ordered) for x in list.__iter__(o)))
    if isinstance(o, tuple):
        return ("tuple", tuple(snap(x, depth + 1, ordered) for x in o))
    if isinstance(o, (set, frozenset)):
        return ("set", tuple(sorted((snap(x, depth + 1, ordered) for x in o), key=repr)))
    if isinstance(o, type):
        return ("class", o.__name__)
    return (type(o).__name__, repr(o))


def inst_fp(x, ref=None):
    """Observable state of an instance: every field read, str, regular serialization, == to a reference copy."""
    from typedpy import Serializer
    out = []
    for name in type(x).get_all_fields_by_name():
        try:
            out.append((name, snap(getattr(x, name))))
        except Exception as e:  # noqa
            out.append((name, ("raise", type(e).__name__)))
    try:
        s = str(x)
    except Exception as e:  # noqa
        s = "raise " + type(e).__name__
    try:
        ser = snap(Serializer(x).serialize())
    except Exception as e:  # noqa
        ser = ("raise", type(e).__name__)
    try:
        eq = None if ref is None else bool(x == ref)
    except Exception as e:  # noqa
        eq = "raise " + type(e).__name__
    return (tuple(out), s, ser, eq)


def class_fp(cls):
    """Observable state of a class: str, required list, field names, defaults, signature, schema."""
    from typedpy import structure_to_schema
    fields = cls.get_all_fields_by_name()
    defaults = []
    for n, f in fields.items():
        d = getattr(f, "_default", None)
        try:
            defaults.append((n, snap(d() if callable(d) else d)))
        except Exception as e:  # noqa
            defaults.append((n, ("raise", type(e).__name__)))
    req = getattr(cls, "_required", None)
    saved = list(req) if isinstance(req, list) else None
    try:
        sch = snap(structure_to_schema(cls, {})[0])
    except Exception as e:  # noqa
        sch = ("raise", type(e).__name__)
    finally:
        if saved is not None:        # structure_to_schema may edit cls._required (a C19 finding): observe, do not disturb
            req[:] = saved
    try:
        sig = str(inspect.signature(cls))
    except Exception as e:  # noqa
        sig = "raise " + type(e).__name__
    return (str(cls), tuple(saved) if saved is not None else None, tuple(fields), tuple(defaults), sig, sch)


# ===================================================================================== walking and mutating

def kind_of(o):
    """Label of an object sitting at an untyped position: its python kind."""
    from typedpy.fields.collections_impl import _ListStruct, _DictStruct, _DequeStruct
    if isinstance(o, (_ListStruct, _DequeStruct)):
        return "wrapper-list"
    if isinstance(o, _DictStruct):
        return "wrapper-dict"
    if is_struct(o):
        return "instance"
    for ty, name in ((list, "list"), (tuple, "tuple"), (collections.deque, "deque"), (frozenset, "frozenset"), (set, "set"),
                     (dict, "dict"), (Obj, "object")):
        if isinstance(o, ty):
            return name
    return "scalar"


def containers(o, t, spec, chain=(), out=None, seen=None, into_instances=False):
    """Every caller-mutable object reachable from o through lists / tuples / dicts / sets / frozensets / deques / plain
    objects, each with the path that leads to it: declared types where there are any, python kinds below an untyped
    position.  Structure instances are objects with identity, shared by design by a mutable owner: they are entered
    (and listed) only when the owner promises a defensive copy (into_instances)."""
    out = [] if out is None else out
    seen = set() if seen is None else seen
    if id(o) in seen:
        return out
    if is_struct(o):
        if into_instances:
            seen.add(id(o))
            out.append((o, ".".join(chain + ("instance",))))
        return out
    k = t[0] if t is not None else None
    if k == "opt":
        return containers(o, t[1], spec, chain + ("Optional",), out, seen, into_instances)
    untyped = t is None or k == "any"
    here = kind_of(o) if t is None else (label(t) + "." + kind_of(o) if k == "any" else label(t))
    down = kind_of(o) if t is None else (leaf(t) + "." + kind_of(o) if k == "any" else leaf(t))
    if isinstance(o, (list, collections.deque, set, dict, Obj)):
        seen.add(id(o))
        out.append((o, ".".join(chain + (here,))))
    if isinstance(o, Obj):
        containers(o.items, None, spec, chain + (down,), out, seen, into_instances)
    elif isinstance(o, (list, tuple, collections.deque, set, frozenset)):
        elems = list(list.__iter__(o)) if isinstance(o, list) else list(o)
        for i, x in enumerate(elems):
            if not untyped and k in ("arr", "deque") and t[1] is not None:
                sub = t[1]
            elif not untyped and k in ("arrpos", "tuple") and i < len(t[1]):
                sub = t[1][i]
            else:
                sub = None
            containers(x, sub, spec, chain + (down,), out, seen, into_instances)
    elif isinstance(o, dict):
        inner = dict(spec.inner_fields(t)) if k == "struct" else None
        for kk, x in list(dict.items(o)):
            if not untyped and k == "map" and t[1] is not None:
                sub = t[1]
            elif inner is not None:
                sub = inner.get(kk)
            else:
                sub = None
            containers(x, sub, spec, chain + (down,), out, seen, into_instances)
    return out


def mutate_instance(o):
    """What a client does to a Structure instance it made: assign one of its fields (a valid value first)."""
    before = snap(o)
    for name in type(o).get_all_fields_by_name():
        val = o.__dict__.get(name)
        if isinstance(val, bool):
            cands = [not val]
        elif isinstance(val, int):
            cands = [val + 1000]
        elif isinstance(val, float):
            cands = [val + 1000.5]
        elif isinstance(val, str):
            cands = [val + "M"]
        elif isinstance(val, list):
            cands = [list(list.__iter__(val)) + list(list.__iter__(val))[:1]]
        elif isinstance(val, dict):
            cands = [{}]
        else:
            cands = []
        for c in cands:
            try:
                setattr(o, name, c)
            except Exception:  # noqa
                continue
            if snap(o) != before:
                return
    for name in type(o).get_all_fields_by_name():          # no valid reassignment found: write through
        o.__dict__[name] = MUT
        return


def mutate(o):
    """What a client does to an object it believes is its own: add an element (a plausible one first)."""
    if is_struct(o):
        mutate_instance(o)
    elif isinstance(o, Obj):
        o.items = list(o.items) + [MUT]
    elif isinstance(o, (list, collections.deque)):
        base = list if isinstance(o, list) else collections.deque
        elems = list(base.__iter__(o))
        dup = elems[0] if elems and isinstance(elems[0], (int, float, str, bool)) else MUT
        try:
            n = len(o)
            o.append(dup)
            if len(o) == n + 1:
                return
        except Exception:  # noqa
            pass
        base.append(o, dup)
    elif isinstance(o, dict):
        vals = list(dict.values(o))
        dup = vals[0] if vals and isinstance(vals[0], (int, float, str, bool)) else MUT
        try:
            o[MUT] = dup
            if MUT in o:
                return
        except Exception:  # noqa
            pass
        dict.__setitem__(o, MUT, dup)
    elif isinstance(o, set):
        set.add(o, 424242)


def probe(objs_by_field, fp, types, spec):
    """Mutate every container of every given object, field by field; return {field: [type paths whose mutation
    changed the fingerprint]}."""
    base = fp()
    hits = {}
    for fname, obj in objs_by_field.items():
        own = spec.owner(fname)
        for c, path in containers(obj, types.get(fname), spec, into_instances=own != "plain"):
            mutate(c)
            now = fp()
            if now != base:
                hits.setdefault(fname, []).append(("Immutable" + path) if own == "immfield" else path)
                base = now
    return hits


# ===================================================================================== operations on classes

def kwargs_of(spec, ns, doc):
    ts = dict(spec.fields)
    return {f: doc_to_ctor(ts[f], v, spec, ns) for f, v in doc.items() if v is not None}


def run_field_op(op, spec, doc, rnd=None, extra=None):
    """Runs one operation of the property on the real implementation.
    Returns dict field -> [written, retained, live, detail, shape of the argument] and a list of extra failures
    [(key, what)]."""
    from typedpy import Deserializer, Serializer, serialize, deserialize_structure
    cls, ns, src = realize(spec)
    ts = dict(spec.fields)
    res = {f: [False, False, False, [], "VAtom"] for f, _ in spec.fields}
    extras = []
    cfp0 = class_fp(cls)
    exotic = has_exotic(doc)

    def check_written(args, before, what):
        for f in args:
            if asnap(args[f]) != before[f]:
                res[f][0] = True
                res[f][3].append(("written", label(ts[f])))

    if op in ("ctor", "setattr"):
        kw = kwargs_of(spec, ns, doc)
        for f, v in kw.items():
            res[f][4] = shape_of(ts[f], v, spec, False)
        if op == "ctor":
            before = {f: asnap(v) for f, v in kw.items()}
            x = cls(**kw)
            check_written(kw, before, "constructor")
            args = kw
        else:
            x = cls(**kwargs_of(spec, ns, doc))
            args = {}
            for f, v in kw.items():
                b = asnap(v)
                try:
                    setattr(x, f, v)
                except ValueError:
                    if spec.owner(f) == "plain":
                        raise
                if asnap(v) != b:
                    res[f][0] = True
                    res[f][3].append(("written", label(ts[f])))
                args[f] = v
        ref = copy.deepcopy(x)
        hits = probe(args, lambda: inst_fp(x, ref), ts, spec)
        for f, paths in hits.items():
            res[f][1] = True
            res[f][3] += [("retained", p) for p in paths]
    elif op in ("deser", "deser-fn", "deser-mapper", "deser-trusted"):
        d = decode(doc)
        for f, v in d.items():
            res[f][4] = shape_of(ts[f], v, spec, True)
        before = {f: asnap(v) for f, v in d.items()}
        whole = asnap(d)
        mapper = None
        if op == "deser-mapper":
            ren = {f: f + "_in" for f in list(d)[:2]}
            mapper = dict(ren)
            for f, t in spec.fields:
                if t[0] == "struct" and f in d and isinstance(d[f], dict) and d[f]:
                    g = next(iter(d[f]))
                    mapper[f + "._mapper"] = {g: g + "_in"}
                    d[f] = {(k + "_in" if k == g else k): v for k, v in d[f].items()}
                    break
            d = {ren.get(k, k): v for k, v in d.items()}
            before = {f: asnap(d[ren.get(f, f)]) for f in doc if ren.get(f, f) in d}
            whole = asnap(d)
            msnap = asnap(mapper)
            x = Deserializer(cls, mapper=mapper).deserialize(d)
            if asnap(mapper) != msnap:
                extras.append(("writes-arg/Deserializer/mapper", "Deserializer modified the mapper dict it was given"))
            argobjs = {f: d[ren.get(f, f)] for f in doc if ren.get(f, f) in d}
        else:
            if op == "deser":
                x = Deserializer(cls).deserialize(d)
            elif op == "deser-fn":
                x = deserialize_structure(cls, d)
            else:
                x = Deserializer(cls).deserialize(d, direct_trusted_mapping=True)
                if not x.used_trusted_instantiation():
                    return None, [], src
            argobjs = {f: d[f] for f in d}
        if asnap(d) != whole:
            for f, o in argobjs.items():
                if asnap(o) != before.get(f):
                    res[f][0] = True
                    res[f][3].append(("written", label(ts[f])))
            if not any(r[0] for r in res.values()):
                extras.append(("writes-arg/Deserializer/document-keys", "deserialization changed the key set of its input document"))
        ref = copy.deepcopy(x)
        fp = lambda: inst_fp(x, ref)
        hits = probe(argobjs, fp, ts, spec)
        for f, paths in hits.items():
            res[f][1] = True
            res[f][3] += [("retained", p) for p in paths]
        b = fp()
        dict.__setitem__(d, MUT, MUT)            # the document dict itself
        if mapper is not None:
            for c, _ in containers(mapper, None, spec):
                mutate(c)
        if fp() != b:
            extras.append(("retains-arg/Deserializer/document-or-mapper",
                           "mutating the input dict / mapper after deserialization changed the instance"))
    elif op in ("ser", "ser-fn", "ser-mapper", "ser-fast"):
        x = cls(**kwargs_of(spec, ns, doc))
        ref = copy.deepcopy(x)
        fp_before = inst_fp(x, ref)
        keymap = {f: f for f, _ in spec.fields}
        try:
            if op == "ser":
                r = Serializer(x).serialize()
            elif op == "ser-fn":
                r = serialize(x)
            elif op == "ser-fast":
                r = x.serialize()
            else:
                fs = [f for f, _ in spec.fields][:2]
                mapper = {f: f + "_out" for f in fs}
                msnap = asnap(mapper)
                r = Serializer(x, mapper=mapper).serialize()
                keymap.update(mapper)
                if asnap(mapper) != msnap:
                    extras.append(("writes-arg/Serializer/mapper", "Serializer modified the mapper dict it was given"))
        except Exception:  # noqa
            if not exotic:
                raise
            return None, [], src      # a tuple / set / deque / object at an untyped position the serializers reject
        if not isinstance(r, dict):
            return None, [], src
        parts = {f: r[keymap[f]] for f in keymap if keymap[f] in r}
        fp = lambda: inst_fp(x, ref)
        if fp() != fp_before:         # the instance is the argument of a serialization
            extras.append(("writes-arg/%s/instance" % site_of(op, spec.kind), "serializing changed the observable state of the instance"))
        hits = probe(parts, fp, ts, spec)
        for f, paths in hits.items():
            res[f][2] = True
            res[f][3] += [("live", p) for p in paths]
        b = fp()
        dict.__setitem__(r, MUT, MUT)
        if fp() != b:
            extras.append(("returns-live/%s/document" % op, "adding a key to the returned document changed the instance"))
    else:
        raise ValueError(op)
    if class_fp(cls) != cfp0:
        extras.append(("class-state/%s" % op, "the operation (or mutation of its arguments / results) changed the class's observable state"))
    return res, extras, src


MUTATORS = {"arr": ["append", "extend", "insert", "setitem"], "deque": ["append", "appendleft", "extend"],
            "map": ["setitem", "update", "setdefault"]}
CONTAINER_NAME = {"arr": "Array", "deque": "Deque", "map": "Map"}


def plan_mutators(rnd, spec, doc):
    """For every collection field of a mutable owner: one mutator of its wrapper and a valid element to hand to it."""
    out = {}
    for f, t in spec.fields:
        if spec.owner(f) != "plain" or t[0] not in MUTATORS or not doc.get(f):
            continue
        et = t[1] if t[1] is not None else ["any"]
        out[f] = [rnd.choice(MUTATORS[t[0]]), gen_doc(rnd, et, spec)]
    return out


def run_mutator(spec, doc, extra):
    """Assignment through the collection wrappers (x.f.append(e), x.f[0] = e, x.m.update({k: e}), ...): the element
    handed over is an argument like any other.  Returns [(field, method, element type, shape, written, retained, paths)]."""
    cls, ns, src = realize(spec)
    ts = dict(spec.fields)
    x = cls(**kwargs_of(spec, ns, doc))
    out = []
    for f, (method, edoc) in extra.items():
        t = ts[f]
        et = t[1] if t[1] is not None else ["any"]
        e = doc_to_ctor(et, edoc, spec, ns)
        shape = shape_of(et, e, spec, False)
        before = asnap(e)
        w = getattr(x, f)
        if t[0] == "map":
            if method == "setitem":
                w["nk"] = e
            elif method == "update":
                w.update({"nk": e})
            else:
                w.setdefault("nk", e)
        elif method == "setitem":
            w[0] = e
        elif method == "insert":
            w.insert(0, e)
        elif method == "extend":
            w.extend([e])
        else:
            getattr(w, method)(e)
        written = asnap(e) != before
        ref = copy.deepcopy(x)
        hits = probe({f: e}, lambda: inst_fp(x, ref), {f: et}, spec)
        out.append((f, method, et, shape, written, bool(hits.get(f)), hits.get(f, [])))
    return out, src


# ---- donors: the value handed over is the LIVE value of a collection field of another instance

COLLECTION_KINDS = ("arr", "arrpos", "map", "deque")
DONOR_ENTRIES = {"same": ["ctor", "setattr", "clone", "cast_to", "from_other_class", "deser", "ctor-inner", "mutator-inner"],
                 "immstruct": ["ctor", "from_other_class", "deser", "ctor-inner"],
                 "immfield": ["ctor", "from_other_class", "deser", "ctor-inner"]}
DONOR_TYPES = [["arr", ["arr", ["int"]]], ["arr", ["map", ["int"]]], ["map", ["arr", ["int"]]], ["map", ["map", ["str"]]],
               ["arr", ["arr", ["arr", ["int"]]]], ["deque", ["arr", ["int"]]], ["arr", ["deque", ["int"]]],
               ["arrpos", [["arr", ["int"]], ["int"]]], ["arr", ["tuple", [["arr", ["int"]], ["int"]]]],
               ["opt", ["arr", ["arr", ["int"]]]], ["arr", ["struct", [["arr", ["int"]]]]],
               ["arr", ["arr", ["any"]]], ["arr", None], ["map", None], ["arr", ["int"]]]


def coll_kind(t):
    return t[1][0] if t[0] == "opt" else t[0]


def deser_plain_type(t):
    """Types whose constructor-form value is also an acceptable document (no tuple / set / deque / instance inside)."""
    if t is None or t[0] in SCALARS or t[0] == "any":
        return True
    if t[0] in ("arr", "map", "opt"):
        return deser_plain_type(t[1])
    if t[0] == "arrpos":
        return all(deser_plain_type(x) for x in t[1])
    return False


def donor_spec(spec):
    return ClassSpec(spec.name + "_D", "fast" if spec.kind == "fast" else "plain", spec.fields)


def receiver_spec(dspec, receiver):
    if receiver == "same":
        return dspec
    if receiver == "immstruct":
        return ClassSpec(dspec.name[:-2] + "_RS", "immutable", dspec.fields)
    return ClassSpec(dspec.name[:-2] + "_RF", "plain", dspec.fields,
                     immfields=[f for f, t in dspec.fields if t[0] in IMM_ELIGIBLE])


def raw_items(w):
    if isinstance(w, dict):
        return dict(dict.items(w))
    if isinstance(w, collections.deque):
        return collections.deque(collections.deque.__iter__(w))
    return list(list.__iter__(w))


def mutate_wrapper_api(o):
    """An in-place update of a field value through ITS OWN public mutators (other.rows[0].append(x)): the element added
    is a copy of one that is already there, so that validation accepts it.  Returns False when the wrapper refuses."""
    try:
        if isinstance(o, dict):
            vals = list(dict.values(o))
            if not vals:
                return False
            o["zz%d" % len(vals)] = copy.deepcopy(decay(vals[0]))
        else:
            elems = raw_items(o)
            if not elems:
                return False
            o.append(copy.deepcopy(decay(elems[0])))
        return True
    except Exception:  # noqa
        return False


def decay(v):
    """Plain-container copy of a (possibly wrapper) value."""
    if is_struct(v):
        return v
    if isinstance(v, dict):
        return {k: decay(x) for k, x in dict.items(v)}
    if isinstance(v, collections.deque):
        return collections.deque(decay(x) for x in collections.deque.__iter__(v))
    if isinstance(v, list):
        return [decay(x) for x in list.__iter__(v)]
    if isinstance(v, tuple):
        return tuple(decay(x) for x in v)
    return v


def probe_donor(objs_by_field, fp, types, spec, receiver_owner):
    """Update, through their own mutators, every wrapper reachable from the given field values (outer and inner);
    plain containers found at untyped positions are mutated as usual.  {field: [paths whose update changed fp]}."""
    base = fp()
    hits = {}
    for fname, obj in objs_by_field.items():
        for c, path in containers(obj, types.get(fname), spec):
            if is_wrapper(c):
                if not mutate_wrapper_api(c):
                    continue
            else:
                mutate(c)
            now = fp()
            if now != base:
                hits.setdefault(fname, []).append(("Immutable" + path) if receiver_owner == "immfield" else path)
                base = now
    return hits


def run_donor(entry, receiver, dspec, doc):
    """Build a donor instance, hand the live values of its collection fields to `entry` of the receiver class, then update
    inner elements through the donor (must not reach the receiver) and through the receiver (must not reach the donor).
    Returns {field: [written, shared, paths, shape]}, extras, python source."""
    from typedpy import Deserializer
    rspec = receiver_spec(dspec, receiver)
    dcls, dns, dsrc = realize(dspec)
    if rspec is dspec:
        rcls, rns, rsrc = dcls, dns, ""
    else:
        rcls, rns, rsrc = realize(rspec)
        rsrc = rsrc[len(IMPORTS):]
    ts = dict(dspec.fields)
    y = dcls(**kwargs_of(dspec, dns, doc))
    fs = [f for f in doc if coll_kind(ts[f]) in COLLECTION_KINDS and getattr(y, f, None) is not None]
    foreign = [] if rspec is dspec else [f for f, t in dspec.fields if "struct" in json.dumps(t)]
    fs = [f for f in fs if f not in foreign]      # a twin class has its own nested classes: the donor's instances do not fit
    if entry == "deser":
        fs = [f for f in fs if deser_plain_type(ts[f])]
    if entry in ("ctor-inner", "mutator-inner"):
        fs = [f for f in fs if ts[f][0] in ("arr", "map") and ts[f][1] is not None and ts[f][1][0] in COLLECTION_KINDS]
    if not fs:
        return None, [], dsrc + rsrc
    args = {f: getattr(y, f) for f in fs}
    if entry in ("ctor-inner", "mutator-inner"):
        given = {f: raw_items(args[f]) for f in fs}          # a new outer list / dict holding the donor's inner wrappers
    else:
        given = args
    deser = entry == "deser"
    res = {f: [False, False, [], shape_of(ts[f], given[f], dspec, deser)] for f in fs}
    before = {f: asnap(args[f]) for f in fs}
    ref_y = copy.deepcopy(y)
    yfp0 = inst_fp(y, ref_y)
    fresh = kwargs_of(rspec, rns, doc)
    extras = []
    if entry in ("ctor", "ctor-inner"):
        x = rcls(**dict(fresh, **given))
    elif entry == "setattr":
        x = rcls(**fresh)
        for f in fs:
            setattr(x, f, given[f])
    elif entry == "mutator-inner":
        x = rcls(**fresh)
        for f in fs:
            if isinstance(given[f], dict):
                getattr(x, f).update({"dn" + k: v for k, v in given[f].items()})
            else:
                getattr(x, f).extend(given[f])
    elif entry == "clone":
        x = y.shallow_clone_with_overrides()
    elif entry == "cast_to":
        x = y.cast_to(rcls)
    elif entry == "from_other_class":
        x = rcls.from_other_class(y, ignore_props=foreign, **{f: fresh[f] for f in foreign if f in fresh})
    elif entry == "deser":
        d = decode(doc)
        d.update(given)
        x = Deserializer(rcls).deserialize(d)
    else:
        raise ValueError(entry)
    for f in fs:
        if asnap(args[f]) != before[f]:
            res[f][0] = True
    if inst_fp(y, ref_y) != yfp0:
        extras.append(("writes-arg/donor:%s/donor-instance" % entry, "handing over the donor's field values changed the donor"))
    ref_x = copy.deepcopy(x)
    own = {f: rspec.owner(f) for f in fs}
    # donor -> receiver
    for f in fs:
        hits = probe_donor({f: args[f]}, lambda: inst_fp(x, ref_x), ts, dspec, own[f])
        for p_ in hits.get(f, []):
            res[f][1] = True
            res[f][2].append(("donor-to-receiver", p_))
    # receiver -> donor (a receiver whose wrappers refuse updates cannot be used that way)
    ref_y2 = copy.deepcopy(y)
    for f in fs:
        val = x.__dict__.get(f)
        if val is None:
            continue
        hits = probe_donor({f: val}, lambda: inst_fp(y, ref_y2), ts, dspec, own[f])
        for p_ in hits.get(f, []):
            res[f][1] = True
            res[f][2].append(("receiver-to-donor", p_))
    return res, extras, dsrc + rsrc


def run_failing(op, spec, doc, bad_field, bad_value):
    """Constructing / deserializing an invalid input: must raise, and must leave every argument as it was."""
    from typedpy import Deserializer
    cls, ns, src = realize(spec)
    fails = []
    if op == "ctor-fail":
        kw = kwargs_of(spec, ns, doc)
        kw[bad_field] = bad_value
        before = asnap(kw)
        try:
            cls(**kw)
            return None, src
        except Exception:  # noqa
            pass
        if asnap(kw) != before:
            fails.append(("writes-arg/constructor-failing", "a failing constructor modified its arguments"))
    else:
        d = copy.deepcopy(doc)
        d[bad_field] = bad_value
        before = asnap(d)
        try:
            Deserializer(cls).deserialize(d)
            return None, src
        except Exception:  # noqa
            pass
        if asnap(d) != before:
            fails.append(("writes-arg/Deserializer-failing", "a failing deserialization modified its input document"))
    return fails, src


INTAKE_OPS = ("ctor", "setattr", "deser", "deser-fn", "deser-mapper")
OWNER = {"plain": "OwnPlain", "immstruct": "OwnImmStruct", "immfield": "OwnImmField"}
# field types with an untyped position, for the lattice stream
LATTICE_TYPES = [["any"], ["arr", None], ["arr", ["any"]], ["map", None], ["map", ["any"]], ["deque", None], ["deque", ["any"]],
                 ["set", False], ["tuple", [["any"], ["str"]]], ["arrpos", [["any"], ["int"]]], ["struct", [["any"], ["int"]]],
                 ["arr", ["arr", ["any"]]], ["map", ["arr", None]], ["opt", ["arr", ["any"]]], ["arr", ["tuple", [["any"], ["int"]]]],
                 ["arr", ["struct", [["any"]]]]]


def zoo_hashable(v):
    if is_tagged(v):
        return v[TAG] in ("tuple", "frozenset") and all(zoo_hashable(x) for x in v["v"])
    return not isinstance(v, (list, dict))


OPID = {"ctor": "OCtor", "setattr": "OSetattr", "deser": "ODeser", "deser-fn": "ODeser", "deser-mapper": "ODeser",
        "deser-trusted": "ODeserTrusted", "ser": "OSer", "ser-fn": "OSer", "ser-mapper": "OSer", "ser-fast": "OSerFast"}
SITE = {"ctor": "constructor", "setattr": "setattr", "deser": "Deserializer", "deser-fn": "deserialize_structure",
        "deser-mapper": "Deserializer-mapper", "deser-trusted": "Deserializer-trusted", "ser": "Serializer",
        "ser-fn": "serialize", "ser-mapper": "Serializer-mapper", "ser-fast": "FastSerializable"}
KIND = {"written": "writes-arg", "retained": "retains-arg", "live": "returns-live"}


def opid_of(op, kind):
    """A FastSerializable class routes every mapper-less serialization API through its fast serializer
    (serialize_internal); with a mapper the outer class is serialized regularly, nested structures fast."""
    if kind == "fast" and op in ("ser", "ser-fn"):
        return "OSerFast"
    if kind == "fast" and op == "ser-mapper":
        return "OSerMixed"
    return OPID[op]


def site_of(op, kind):
    if kind == "fast" and op in ("ser", "ser-fn", "ser-mapper"):
        return "FastSerializable(%s)" % SITE[op]
    return SITE[op]


# ===================================================================================== schema / code / conversion / derivation

CODE_ENTRIES = ("schema_to_struct_code", "schema_definitions_to_code", "write_code_from_schema")


def code_entry(via):
    """Replays of earlier versions say via_definitions = True / False."""
    if via is True:
        return "schema_definitions_to_code"
    if via is False or via is None:
        return "schema_to_struct_code"
    return via


def run_code_required(rnd_schema):
    """schema_to_struct_code / schema_definitions_to_code / write_code_from_schema: every argument -- the schema, the
    definitions, at every nesting depth -- equal to its deep snapshot afterwards (contents and order of nested lists,
    key sets and key order)."""
    from typedpy import schema_to_struct_code, schema_definitions_to_code, write_code_from_schema
    schema, defs, via = rnd_schema
    entry = code_entry(via)
    s, d = copy.deepcopy(schema), copy.deepcopy(defs)
    bs, bd = asnap(s), asnap(d)
    wd = None
    try:
        if entry == "schema_definitions_to_code":
            schema_definitions_to_code(s)
        elif entry == "write_code_from_schema":
            wd = core.workdir("c19code")
            import os
            write_code_from_schema(s, d, os.path.join(wd, "generated_c19.py"), "Gen")
        else:
            schema_to_struct_code("Gen", s, d)
        outcome = "ok"
    except Exception as e:  # noqa
        outcome = type(e).__name__
    finally:
        if wd is not None:
            core.cleanup(wd)
    where = []
    if asnap(s) != bs:
        where += diff_paths(schema, s, ("definitions",) if entry == "schema_definitions_to_code" else ())
    if asnap(d) != bd:
        where += diff_paths(defs, d, ("definitions",))
    return bool(where), where, outcome


def diff_paths(a, b, path=()):
    """Where two JSON-like values differ: key paths with the caller's own names abstracted (a property / definition
    name becomes *, a list position []), so that a finding is keyed by the schema construct and not by the sample."""
    if asnap(a) == asnap(b):
        return []
    if isinstance(a, dict) and isinstance(b, dict):
        out = []
        for k in list(a) + [k for k in b if k not in a]:
            named = bool(path) and path[-1] in ("properties", "definitions", "patternProperties")
            sub = path + ("*" if named else str(k),)
            if k not in a or k not in b:
                out.append(".".join(sub))
            else:
                out += diff_paths(a[k], b[k], sub)
        if not out:
            out.append(".".join(path + ("key-order",)))
        return out
    if isinstance(a, list) and isinstance(b, list) and len(a) == len(b) and path and path[-1] not in ("required", "enum"):
        out = []
        for x, y in zip(a, b):
            out += diff_paths(x, y, path + ("[]",))
        return out
    return [".".join(path) or "value"]


SCALAR_DEFAULTS = {"integer": 3, "string": "s", "array": [1, 2], "boolean": True, "number": 1.5}


def gen_scalar_prop(rnd):
    ty = rnd.choice(["integer", "string", "array", "boolean", "number"])
    p = {"type": ty}
    if ty == "array":
        p["items"] = {"type": "integer"}
    if rnd.random() < 0.45:
        p["default"] = copy.deepcopy(SCALAR_DEFAULTS[ty])
    return p


def gen_obj_schema(rnd, depth, refs):
    """An object schema; its own `required` may name a property that has a default.  Properties may themselves be
    inline objects, arrays of inline objects (single / positional items), maps of inline objects
    (additionalProperties), allOf / anyOf / oneOf with an inline object member, references into the definitions."""
    names = rnd.sample(["a", "b", "c", "d"], rnd.randint(1, 3))
    props = {n: gen_prop_schema(rnd, depth, refs) for n in names}
    schema = {"type": "object", "properties": props}
    if rnd.random() < 0.85:
        schema["required"] = [n for n in names if rnd.random() < 0.7]
    if rnd.random() < 0.3:
        schema["additionalProperties"] = False
    if rnd.random() < 0.15:
        schema["description"] = "generated"
    return schema


def gen_prop_schema(rnd, depth, refs):
    r = rnd.random()
    if depth >= 2 or r < 0.42:
        return gen_scalar_prop(rnd)
    inner = lambda: gen_obj_schema(rnd, depth + 1, refs)
    if r < 0.58:
        return inner()
    if r < 0.68:
        return {"type": "array", "items": inner()}
    if r < 0.73:
        return {"type": "array", "items": [inner(), {"type": "integer"}]}
    if r < 0.80:
        return {"type": "object", "additionalProperties": inner()}
    if r < 0.90:
        return {rnd.choice(["anyOf", "allOf", "oneOf"]): [inner(), {"type": "string"}]}
    if refs:
        return {"$ref": "#/definitions/" + rnd.choice(refs)}
    return gen_scalar_prop(rnd)


def defaulted_in_required(node):
    """Some object schema, at any depth, lists in its `required` a property that has a default."""
    if isinstance(node, list):
        return any(defaulted_in_required(x) for x in node)
    if not isinstance(node, dict):
        return False
    props = node.get("properties")
    if isinstance(props, dict) and isinstance(node.get("required"), list) and any(
            isinstance(props.get(n), dict) and "default" in props[n] for n in node["required"]):
        return True
    return any(defaulted_in_required(v) for k, v in node.items() if k != "default")


def gen_schema(rnd):
    refs = rnd.sample(["DefA", "DefB"], rnd.choice([0, 0, 1, 2]))
    defs = {n: gen_obj_schema(rnd, 1, []) for n in refs}
    schema = gen_obj_schema(rnd, 0, refs)
    entry = rnd.choice(["schema_to_struct_code", "schema_to_struct_code", "schema_definitions_to_code", "write_code_from_schema"])
    if entry == "schema_definitions_to_code":
        schema, defs = dict({"Gen": schema}, **defs), {}
    return (schema, defs, entry), defaulted_in_required([schema, defs])


def gen_schema_class(rnd, name):
    """Classes for structure_to_schema: defaults (scalar, factory, literal mutable), renaming / dropping mappers."""
    n = rnd.randint(2, 4)
    fields, defaults, mapper = [], {}, {}
    req = []
    mutable_default = False
    for i in range(n):
        f = "f%d" % i
        t = rnd.choice([["int"], ["str"], ["arr", ["int"]], ["map", ["int"]], ["arr", ["str"]], ["arr", ["arr", ["int"]]]])
        fields.append((f, t))
        r = rnd.random()
        if r < 0.35:
            if t == ["int"]:
                defaults[f] = "5"
            elif t == ["str"]:
                defaults[f] = "'dv'"
            elif t == ["arr", ["arr", ["int"]]]:
                defaults[f] = "[[1], [2, 3]]" if rnd.random() < 0.7 else "(lambda: [[1]])"
            elif t[0] == "arr" and rnd.random() < 0.6:
                defaults[f] = "[1, 2]" if t[1] == ["int"] else "['x']"
                mutable_default = True
            elif t[0] == "arr":
                defaults[f] = "(lambda: [1, 2])" if t[1] == ["int"] else "(lambda: ['x'])"
            else:
                defaults[f] = "(lambda: {'k': 1})"
        elif rnd.random() < 0.75:
            req.append(f)
        m = rnd.random()
        if m < 0.2:
            mapper[f] = f + "X"
        elif m < 0.27:
            mapper[f] = "DoNotSerialize"
    mutable_default = any(d.startswith("[") and mapper.get(f) != "DoNotSerialize" for f, d in defaults.items())
    spec = ClassSpec(name, "plain", fields, mapper=mapper, defaults=defaults, required=req)
    # _generate_schema_for_fields_internal edits `required` when: a dropped field is required; a required field is
    # renamed; a field with a default is not (yet) listed
    touches = False
    for f, _ in fields:
        mk = mapper.get(f)
        if mk == "DoNotSerialize":
            touches |= f in req
        else:
            touches |= (f in req and mk is not None and mk != f)
            touches |= (f in defaults and (mk or f) not in req)
    return spec, touches, mutable_default


def run_schema(spec):
    """structure_to_schema(cls, definitions): the class (an argument) keeps its observable state; mutating the
    returned schema does not change the class.  The definitions dict is the documented accumulator: excepted."""
    from typedpy import structure_to_schema
    cls, ns, src = realize(spec)
    fp0 = class_fp(cls)
    req0 = list(cls._required)
    mapper_obj = getattr(cls, "_serialization_mapper", None)
    msnap = asnap(mapper_obj) if isinstance(mapper_obj, dict) else None
    schema, defs = structure_to_schema(cls, {})
    written = list(cls._required) != req0 or class_fp(cls) != fp0
    where = ["class-_required"] if list(cls._required) != req0 else (["class-state"] if written else [])
    if msnap is not None and asnap(mapper_obj) != msnap:
        written = True
        where.append("class-_serialization_mapper")
    cls._required[:] = req0
    base = class_fp(cls)
    live = []
    stack = [(schema, "schema")]
    seen = set()
    while stack:
        o, p = stack.pop()
        if id(o) in seen:
            continue
        seen.add(id(o))
        if isinstance(o, dict):
            for k, v in list(o.items()):
                stack.append((v, str(k)))
        elif isinstance(o, list):
            for v in o:
                stack.append((v, p))
        if isinstance(o, (dict, list)):
            mutate(o)
            now = class_fp(cls)
            if now != base:
                live.append(p)
                base = now
    return written, where, bool(live), live, src


def run_derive(rnd, spec):
    """Partial / Omit / Pick / Extend / AllFieldsRequired: the source class and the field list keep their state;
    later mutation of the field list or of the derived class's _required does not reach the source class."""
    from typedpy import Partial, Omit, Pick, Extend, AllFieldsRequired
    cls, ns, src = realize(spec)
    names = [f for f, _ in spec.fields]
    fails = []
    for opname in ("Partial", "Omit", "Pick", "Extend", "AllFieldsRequired"):
        fp0 = class_fp(cls)
        sel = rnd.sample(names, rnd.randint(1, len(names)))
        bsel = list(sel)
        try:
            if opname == "Partial":
                new = Partial[cls, cls.__name__ + "_P"]
            elif opname == "Omit":
                new = Omit[cls, sel, cls.__name__ + "_O"]
            elif opname == "Pick":
                new = Pick[cls, sel, cls.__name__ + "_K"]
            elif opname == "Extend":
                new = Extend[cls, cls.__name__ + "_E"]
            else:
                new = AllFieldsRequired[cls, cls.__name__ + "_A"]
        except Exception as e:  # noqa
            fails.append(("derive-raises/" + opname, "%s raised %s: %s" % (opname, type(e).__name__, e)))
            continue
        if sel != bsel:
            fails.append(("writes-arg/%s/field-list" % opname, "%s modified the list of field names it was given" % opname))
        if class_fp(cls) != fp0:
            fails.append(("writes-arg/%s/source-class" % opname, "%s changed the observable state of the source class" % opname))
        nfp = class_fp(new)
        sel.append("zzz")
        if class_fp(new) != nfp:
            fails.append(("retains-arg/%s/field-list" % opname, "mutating the field list afterwards changed the derived class"))
        new._required.append("zzz")
        if class_fp(cls) != fp0:
            fails.append(("returns-live/%s/_required" % opname, "the derived class shares its _required list with the source class"))
    return fails, src


def run_convert(doc, maps_ast):
    """convert_dict: arguments unchanged (C17 also checks this); the result shares nothing with the input document."""
    from harness.props import c17
    from typedpy.serialization.versioned_mapping import convert_dict
    maps = [c17.realize_mapping(m, c17.FUNCS()) for m in maps_ast]
    d = copy.deepcopy(doc)
    bd, bm = asnap(d), [c17.describe_mapping(m) for m in maps]
    try:
        r = convert_dict(d, maps)
    except Exception:  # noqa
        return asnap(d) != bd or [c17.describe_mapping(m) for m in maps] != bm, False, False
    written = asnap(d) != bd or [c17.describe_mapping(m) for m in maps] != bm
    empty = ClassSpec("X", "plain", [])
    for c, _ in containers(r, None, empty):
        mutate(c)
    live = asnap(d) != bd
    shares_mapping = [c17.describe_mapping(m) for m in maps] != bm
    return written, live, shares_mapping


VERSIONED_SRC = """from typedpy import Versioned, Constant, FunctionCall, Deleted
class %(name)s(%(bases)s):
    a = Array(items=Integer())
    m = Map(items=[String(), Array(items=Integer())])
    p = Anything()
    n = Integer()
    _required = ['a', 'm', 'p', 'n']
    _versions_mapping = [
        {"a": "old_a", "old_a": Deleted, "n": Constant(5)},
        {"m": "old_m", "old_m": Deleted, "p": FunctionCall(func=lambda x: x, args=["p"])},
    ]
"""
VERSIONED_TYPES = {"a": ["arr", ["int"]], "old_a": ["arr", ["int"]], "m": ["map", ["arr", ["int"]]],
                   "old_m": ["map", ["arr", ["int"]]], "p": ["any"]}


def gen_versioned(rnd):
    immutable = rnd.random() < 0.4
    version = rnd.choice([1, 1, 2, 3])
    empty = ClassSpec("X", "plain", [])
    a = gen_doc(rnd, ["arr", ["int"]], empty)
    m = gen_doc(rnd, ["map", ["arr", ["int"]]], empty)
    pv = gen_doc(rnd, ["any"], empty)
    doc = {"version": version, "p": pv}
    doc["old_a" if version == 1 else "a"] = a
    doc["old_m" if version <= 2 else "m"] = m
    if version >= 2:
        doc["n"] = 9
    return immutable, doc, rnd.choice(["Deserializer", "deserialize_structure"])


def mapping_snap(maps):
    out = []
    for mp in maps:
        row = []
        for k, v in mp.items():
            if isinstance(v, (str, type)):
                row.append((k, repr(v)))
            elif callable(v) and not hasattr(v, "args"):
                row.append((k, type(v).__name__, asnap(v())))
            else:
                row.append((k, type(v).__name__, asnap(getattr(v, "args", None)), id(getattr(v, "func", None))))
        out.append(tuple(row))
    return tuple(out)


def run_versioned(immutable, doc, api):
    """Deserializing an old-version document of a Versioned class ("converting versions"): the document and the
    class's mapping list are left alone, and nothing of the document is kept."""
    from typedpy import Deserializer, deserialize_structure
    ns = {}
    src = IMPORTS + VERSIONED_SRC % {"name": "C19V", "bases": "Versioned, ImmutableStructure" if immutable else "Versioned"}
    exec(src, ns)  # noqa: S102
    cls = ns["C19V"]
    d = decode(doc)
    maps = cls._versions_mapping
    bm, bd = mapping_snap(maps), asnap(d)
    before = {f: asnap(v) for f, v in d.items()}
    cfp0 = class_fp(cls)
    x = Deserializer(cls).deserialize(d) if api == "Deserializer" else deserialize_structure(cls, d)
    res = {}
    for f in d:
        if f in VERSIONED_TYPES:
            res[f] = [asnap(d[f]) != before[f], False, []]
    extras = []
    if asnap(d) != bd and not any(r[0] for r in res.values()):
        extras.append(("writes-arg/Versioned-%s/document-keys" % api, "deserializing a versioned document changed its key set / version"))
    if mapping_snap(maps) != bm:
        extras.append(("writes-arg/Versioned-%s/_versions_mapping" % api, "deserializing a versioned document changed the class's mapping list"))
    ref = copy.deepcopy(x)
    spec = ClassSpec("C19V", "immutable" if immutable else "plain", [(f, VERSIONED_TYPES[f]) for f in res])
    hits = probe({f: d[f] for f in res}, lambda: inst_fp(x, ref), VERSIONED_TYPES, spec)
    for f, paths in hits.items():
        res[f][1] = True
        res[f][2] = paths
    if class_fp(cls) != cfp0 or mapping_snap(maps) != bm:
        extras.append(("class-state/Versioned-%s" % api, "deserializing (or mutating the document afterwards) changed the class"))
    return res, extras, src


# ===================================================================================== replay

def python_src(src, op, doc):
    try:
        vals = repr(decode(doc))
    except Exception:  # noqa
        vals = "?"
    return src + "\n# operation: %s\n# input (document form; {'$': kind, 'v': ...} = a python tuple / set / deque / object / wrapper): %r\n" \
                 "# the python values handed over: %s\n" % (op, doc, vals)


def replay(obj):
    kind = obj.get("kind", "field")
    if kind == "field":
        spec = ClassSpec.from_json(obj["spec"])
        res, extras, src = run_field_op(obj["op"], spec, obj["doc"])
        print(src)
        print("operation:", obj["op"], " input (document form):", obj["doc"])
        bad = 0
        ts = dict(spec.fields)
        for f, (w, r, l, detail, shape) in (res or {}).items():
            print("field %-4s %-40s owner=%-9s written=%s retained=%s live=%s %s" % (f, json.dumps(ts[f]), spec.owner(f), w, r, l, detail))
            if (typed_inside(ts[f]) or spec.owner(f) != "plain") and (w or r or l):
                bad += 1
        for k, what in extras:
            print("FAILS:", k, "-", what)
        print("required: every argument equal to its snapshot, no fingerprint change under mutation (typed fields, and "
              "every field of an ImmutableStructure / every field declared immutable)")
        return 1 if bad or extras else 0
    if kind == "mutator":
        spec = ClassSpec.from_json(obj["spec"])
        outs, src = run_mutator(spec, obj["doc"], obj["extra"])
        print(src)
        print("instance built from (document form):", obj["doc"])
        bad = 0
        for f, method, et, shape, w, r, paths in outs:
            print("x.%s.%s(%r): element type %s written=%s retained=%s %s" % (f, method, decode(obj["extra"][f][1]), json.dumps(et), w, r, paths))
            if typed_inside(et) and (w or r):
                bad += 1
        print("required: the element handed to the mutator equals its snapshot, and mutating it afterwards does not change the instance (typed elements)")
        return 1 if bad else 0
    if kind == "donor":
        dspec = ClassSpec.from_json(obj["spec"])
        res, extras, src = run_donor(obj["entry"], obj["receiver"], dspec, obj["doc"])
        print(src)
        print("donor y built from (document form):", obj["doc"])
        print("entry point:", obj["entry"], " receiver:", obj["receiver"], "(x = ...(f=y.f) / x.f = y.f / y.shallow_clone_with_overrides() / ...)")
        bad = 0
        ts = dict(dspec.fields)
        rspec = receiver_spec(dspec, obj["receiver"])
        for f, (w, r, paths, shape) in (res or {}).items():
            print("field %-4s %-44s written=%s shared=%s %s" % (f, json.dumps(ts[f]), w, r, paths))
            if (w or r) and (typed_inside(ts[f]) or rspec.owner(f) != "plain"):
                bad += 1
        for k, what in extras:
            print("FAILS:", k, "-", what)
        print("required: after the call, updating an element of y.f through y (y.f[0].append(e)) does not change x, and vice versa")
        return 1 if bad or extras else 0
    if kind == "versioned":
        res, extras, src = run_versioned(obj["immutable"], obj["doc"], obj["api"])
        print(src)
        print("document:", obj["doc"], " api:", obj["api"])
        bad = 0
        for f, (w, r, paths) in res.items():
            print("document field %-6s written=%s retained=%s %s" % (f, w, r, paths))
            bad += 1 if (w or r) and (typed_inside(VERSIONED_TYPES[f]) or obj["immutable"]) else 0
        for k, what in extras:
            print("FAILS:", k, "-", what)
        return 1 if bad or extras else 0
    if kind == "code":
        via = obj.get("entry", obj.get("via_definitions"))
        written, where, outcome = run_code_required((obj["schema"], obj["definitions"], via))
        print("%s(...) with schema:" % code_entry(via), json.dumps(obj["schema"]), " definitions:", json.dumps(obj["definitions"]))
        print("outcome:", outcome, "; arguments modified at:", where, "(required: every argument equal to its deep copy taken before the call)")
        return 1 if written else 0
    if kind == "schema":
        written, where, live, lpaths, src = run_schema(ClassSpec.from_json(obj["spec"]))
        print(src)
        print("structure_to_schema: class state modified at:", where, "; returned schema is live at:", lpaths)
        return 1 if written or live else 0
    if kind == "derive":
        fails, src = run_derive(random.Random(obj.get("rseed", 0)), ClassSpec.from_json(obj["spec"]))
        print(src)
        for k, w in fails:
            print("FAILS:", k, "-", w)
        return 1 if fails else 0
    if kind == "convert":
        w, l, _ = run_convert(obj["doc"], obj["maps"])
        print("convert_dict: arguments modified:", w, "; result shares objects with the input:", l)
        return 1 if w or l else 0
    print("nothing to replay:", obj.get("broken"))
    return 1


# ===================================================================================== the check

HEADER = """From Coq Require Import ZArith NArith String List Bool. Import ListNotations.
From TP Require Import Check.C19chk.
Local Open Scope string_scope.
"""


def obs_lit(w, r, l):
    return "(%s, %s, %s)" % (E.blit(w), E.blit(r), E.blit(l))


def run(rep, tier):
    from typedpy import Structure
    rnd = random.Random(core.seed() * 1000003 + 19)
    nclasses = 320 if tier == "quick" else 3000
    proofs_ok, model_ok = core.standard_proof_obligations(
        rep, "C19", ["theories/Check/C19chk.vo", "theories/Struct/AliasProofs.vo"])
    rep.assumptions += [
        "PARTIAL: the theorem covers the aliasing logic of effect summaries; which summary each typedpy operation has is "
        "established by the generated site facts and by the before/after differential, not by proof over the Python code",
        "scope: typed fields (no Anything / untyped Array, Map, Deque, Set position at any depth), every field of an "
        "ImmutableStructure and every field declared immutable (ImmutableField mixin); untyped positions of mutable owners are "
        "handed by reference by design: they are checked against the model's prediction but never reported as violations",
        "Structure instances passed as arguments to a MUTABLE owner are shared by reference (object composition): mutation does "
        "not descend into them; an immutable owner must copy them, there they are mutated like any other argument",
        "getters (x.f, x.f[i], iteration) are not operations of the property and are not examined",
        "the definitions dict of structure_to_schema is the documented accumulator and is excepted",
    ]
    fail_fast0 = getattr(Structure, "_fail_fast", True)
    cases = []          # (coq literal, python description)
    nfind = 0

    def add_case(lit, desc):
        cases.append((lit, desc))

    # ---------------------------------------------------------------- field-level operations
    plan = []
    for ci in range(nclasses):
        r = rnd.random()
        kind = "plain" if r < 0.45 else ("fast" if r < 0.70 else "immutable")
        simple = rnd.random() < 0.2
        nf = rnd.randint(1, 4)
        name = "C19s%d_%d" % (core.seed(), ci)
        immfields = []
        if simple:
            fields = [("f%d" % i, gen_simple_type(rnd)) for i in range(nf)]
            kind = "plain"
        else:
            fields = [("f%d" % i, gen_type(rnd, 0, allow_untyped=(kind != "fast" or rnd.random() < 0.3))) for i in range(nf)]
            if kind == "plain":
                immfields = [f for f, t in fields if t[0] in IMM_ELIGIBLE and rnd.random() < 0.4]
        spec = ClassSpec(name, kind, fields, immfields=immfields)
        doc = {}
        for f, t in fields:
            if t[0] == "opt" and rnd.random() < 0.15:
                continue
            doc[f] = gen_doc(rnd, t, spec)
        ops = ["ctor", "deser", rnd.choice(["ser", "ser-fn", "ser-mapper"]), rnd.choice(["setattr", "deser-fn", "deser-mapper"])]
        if kind == "fast":
            ops.append("ser-fast")
        if simple:
            ops.append("deser-trusted")
        plan.append((spec, doc, ops))
    nrandom = len(plan)
    # the untyped-position lattice (deterministic): owner kind x field type with an untyped position x python kind of
    # the value sitting there x intake operation
    li = 0
    for owner in ("plain", "immstruct", "immfield"):
        for t in LATTICE_TYPES:
            if owner == "immfield" and t[0] not in IMM_ELIGIBLE:
                continue
            randoms = [("random", (gen_hashable(rnd) if t[0] == "set" else gen_anyval(rnd))) for _ in range(2 if tier == "quick" else 14)]
            for zname, zval in ZOO + [(n, 0 if v is None else v) for n, v in randoms]:
                if t[0] == "set" and not zoo_hashable(zval):
                    continue
                li += 1
                spec = ClassSpec("C19z%d_%d" % (core.seed(), li), "immutable" if owner == "immstruct" else "plain",
                                 [("f0", ["int"]), ("f1", t)], immfields=["f1"] if owner == "immfield" else [])
                doc = {"f0": 3, "f1": gen_doc(rnd, t, spec, anygen=lambda zval=zval: copy.deepcopy(zval))}
                ops = ["ctor", "deser"] + (["setattr"] if owner != "immstruct" and li % 3 == 0 else []) + \
                      (["ser"] if li % 4 == 0 else [])
                plan.append((spec, doc, ops))

    for spec, doc, ops in plan:
        ts = dict(spec.fields)
        for op in ops:
            try:
                res, extras, src = run_field_op(op, spec, doc)
            except Exception as e:  # noqa  -- the generator promised a valid input: a harness / model error, not a pass
                rep.stat(op, "harness-error:" + type(e).__name__)
                rep.broken("generator:" + op, "operation %s raised %s: %s on a generated valid input" % (op, type(e).__name__, e),
                           {"kind": "field", "spec": spec.to_json(), "op": op, "doc": doc})
                continue
            if res is None:
                rep.stat(op, "not-applicable")
                continue
            for f, (w, r, l, detail, shape) in res.items():
                if f not in doc:
                    continue
                t = ts[f]
                own = spec.owner(f)
                inside = typed_inside(t) or own != "plain"
                rep.count(op, 1, (op, spec.kind, own, json.dumps(t), shape) if t[0] not in SCALARS else None)
                rep.stat(op, "field-kind:" + leaf(t))
                rep.stat(op, "owner:" + own)
                rep.stat(op, "scope:" + ("typed" if typed_inside(t) else "untyped-in-immutable-owner" if inside else "untyped-by-design"))
                desc = {"kind": "field", "spec": spec.to_json(), "op": op, "doc": doc, "field": f, "type": t, "owner": own,
                        "observed": [w, r, l], "detail": detail, "py_violates": inside and (w or r or l)}
                if op in INTAKE_OPS:
                    if not typed_inside(t):
                        for kk in sorted(set(re.findall(r"V[A-Z][a-z]+", shape))):
                            rep.stat(op, "untyped-position-value-contains:" + kk)
                    add_case("(CIntake %s %s %s %s %s)" % (OPID[op], OWNER[own], emit_aty(t), shape, obs_lit(w, r, l)), desc)
                else:
                    add_case("(CField %s %s %s %s)" % (opid_of(op, spec.kind), E.blit(own != "plain"), emit_aty(t), obs_lit(w, r, l)), desc)
                if (w or r or l):
                    rep.stat(op, "effect:" + ",".join(sorted({k for k, _ in detail})) + ("" if inside else "(untyped)"))
                if inside:
                    for k, path in detail:
                        key = "C19/%s/%s/%s" % (KIND[k], site_of(op, spec.kind), path)
                        what = {"written": "%s modified its argument (%s)", "retained": "mutating the %s argument afterwards changed the instance (%s kept by reference)",
                                "live": "mutating the document returned by %s changed the instance (live %s handed out)"}[k] % (site_of(op, spec.kind), path)
                        if rep.finding(key, what, {"kind": "field", "spec": spec.to_json(), "op": op, "doc": doc, "field": f,
                                                   "python": python_src(src, op, doc)}):
                            nfind += 1
            for k, what in extras:
                rep.finding("C19/" + k, what, {"kind": "field", "spec": spec.to_json(), "op": op, "doc": doc,
                                               "python": python_src(src, op, doc)})
        # failing construction / deserialization: arguments intact
        for op in ("ctor-fail", "deser-fail"):
            cands = [(f, corrupt_doc(rnd, ts[f], doc[f])) for f in doc]
            cands = [(f, v) for f, v in cands if v is not None]
            if not cands:
                continue
            f, bad = rnd.choice(cands)
            try:
                fails, src = run_failing(op, spec, doc, f, bad)
            except Exception as e:  # noqa
                rep.stat(op, "harness-error:" + type(e).__name__)
                continue
            if fails is None:
                rep.stat(op, "accepted(not a failing input)")
                continue
            rep.count(op, 1, (op, json.dumps(ts[f])))
            rep.stat(op, "outcome:raises")
            for k, what in fails:
                rep.finding("C19/" + k, what, {"kind": "field", "spec": spec.to_json(), "op": "ctor" if op == "ctor-fail" else "deser",
                                               "doc": dict(doc, **{f: bad}), "python": python_src(src, op, doc)})
    # assignment through the collection wrappers of mutable owners
    for spec, doc, ops in plan[:nrandom]:
        extra = plan_mutators(rnd, spec, doc)
        if not extra:
            continue
        try:
            outs, src = run_mutator(spec, doc, extra)
        except Exception as e:  # noqa
            rep.stat("mutator", "harness-error:" + type(e).__name__)
            rep.broken("generator:mutator", "a wrapper mutator raised %s: %s on a generated valid element" % (type(e).__name__, e),
                       {"kind": "mutator", "spec": spec.to_json(), "doc": doc, "extra": extra})
            continue
        ts = dict(spec.fields)
        for f, method, et, shape, w, r, paths in outs:
            site = "%s.%s" % (CONTAINER_NAME[ts[f][0]], method)
            inside = typed_inside(et)
            rep.count("mutator", 1, (site, json.dumps(et), shape))
            rep.stat("mutator", "site:" + site)
            rep.stat("mutator", "scope:" + ("typed" if inside else "untyped-by-design"))
            desc = {"kind": "mutator", "spec": spec.to_json(), "doc": doc, "extra": {f: extra[f]}, "observed": [w, r, False],
                    "py_violates": inside and (w or r)}
            add_case("(CIntake OCtor OwnPlain %s %s %s)" % (emit_aty(et), shape, obs_lit(w, r, False)), desc)
            if inside:
                py = src + "\n# x built from %r; then x.%s.%s(%r)\n" % (doc, f, method, decode(extra[f][1]))
                if w:
                    rep.finding("C19/writes-arg/%s/%s" % (site, label(et)), "%s modified the element it was given" % site,
                                dict(desc, python=py))
                for p_ in paths:
                    rep.finding("C19/retains-arg/%s/%s" % (site, p_),
                                "mutating the element handed to %s afterwards changed the instance (%s kept by reference)" % (site, p_),
                                dict(desc, python=py))
    # donors: live field values of another instance handed to every entry point that accepts a value
    dplan = []
    for spec, doc, ops in plan[:nrandom]:
        if not any(coll_kind(t) in COLLECTION_KINDS for f, t in spec.fields if f in doc):
            continue
        dspec = donor_spec(spec)
        for receiver in ("same", "same", "immstruct", "immfield"):
            dplan.append((rnd.choice(DONOR_ENTRIES[receiver]), receiver, dspec, doc))
    di = 0
    for t in DONOR_TYPES:
        for receiver, entries in DONOR_ENTRIES.items():
            for entry in entries:
                di += 1
                dspec = ClassSpec("C19n%d_%d_D" % (core.seed(), di), "fast" if di % 5 == 0 else "plain", [("f0", ["int"]), ("f1", t)])
                dplan.append((entry, receiver, dspec, {"f0": 3, "f1": gen_doc(rnd, t, dspec)}))
    for entry, receiver, dspec, doc in dplan:
        desc0 = {"kind": "donor", "spec": dspec.to_json(), "doc": doc, "entry": entry, "receiver": receiver}
        try:
            res, extras, src = run_donor(entry, receiver, dspec, doc)
        except Exception as e:  # noqa
            rep.stat("donor", "harness-error:" + type(e).__name__)
            rep.broken("generator:donor", "entry %s (receiver %s) raised %s: %s on the live field values of a valid donor"
                       % (entry, receiver, type(e).__name__, e), desc0)
            continue
        if res is None:
            rep.stat("donor", "not-applicable")
            continue
        ts = dict(dspec.fields)
        rspec = receiver_spec(dspec, receiver)
        for f, (w, r, paths, shape) in res.items():
            t = ts[f]
            own = rspec.owner(f)
            inside = typed_inside(t) or own != "plain"
            rep.count("donor", 1, (entry, receiver, json.dumps(t), shape))
            rep.stat("donor", "entry:" + entry)
            rep.stat("donor", "receiver:" + receiver)
            rep.stat("donor", "scope:" + ("typed" if typed_inside(t) else "untyped-in-immutable-owner" if inside else "untyped-by-design"))
            rep.stat("donor", "nesting:%d" % json.dumps(t).count("["))
            opid = "ODeser" if entry == "deser" else "OSetattr" if entry == "setattr" else "OCtor"
            desc = dict(desc0, field=f, observed=[w, r, False], detail=paths, py_violates=inside and (w or r))
            add_case("(CIntake %s %s %s %s %s)" % (opid, OWNER[own], emit_aty(t), shape, obs_lit(w, r, False)), desc)
            if not inside:
                continue
            py = src + "\n# donor y built from %r; entry point %s, receiver %s\n" % (doc, entry, receiver)
            if w:
                rep.finding("C19/writes-arg/donor:%s->%s/%s" % (entry, receiver, label(t)), "%s modified the donor's field value" % entry, dict(desc, python=py))
            for direction, p_ in paths:
                if direction == "donor-to-receiver":
                    rep.finding("C19/retains-arg/donor:%s->%s/%s" % (entry, receiver, p_),
                                "updating an element of the donor's field through the donor afterwards changed the receiver (%s shared)" % p_,
                                dict(desc, python=py))
                else:
                    rep.finding("C19/shares-with-donor/%s->%s/%s" % (entry, receiver, p_),
                                "updating an element of the receiver's field changed the donor (%s shared)" % p_, dict(desc, python=py))
        for k, what in extras:
            rep.finding("C19/" + k, what, dict(desc0, python=src))
    rep.sample({"class": plan[0][0].source(), "document": plan[0][1], "operations": plan[0][2]})
    rep.sample({"class": plan[nrandom + 30][0].source(), "document": plan[nrandom + 30][1], "operations": plan[nrandom + 30][2]})
    rep.cov["streams"].setdefault("lattice", {})["classes"] = len(plan) - nrandom

    # ---------------------------------------------------------------- schema_to_struct_code / schema_definitions_to_code
    ncode = 400 if tier == "quick" else 4000
    for i in range(ncode):
        (schema, defs, via), dflt_in_req = gen_schema(rnd)
        written, where, outcome = run_code_required((schema, defs, via))
        site = code_entry(via)
        nested = json.dumps([schema, defs]).count('"properties"')
        rep.count("schema_to_struct_code", 1, ("code", dflt_in_req, site, outcome, min(nested, 6)))
        rep.stat("schema_to_struct_code", "outcome:" + outcome)
        rep.stat("schema_to_struct_code", "entry:" + site)
        rep.stat("schema_to_struct_code", "object-schemas:%d" % min(nested, 6))
        rep.stat("schema_to_struct_code", "some-required-names-a-defaulted-property:%s" % dflt_in_req)
        desc = {"kind": "code", "schema": schema, "definitions": defs, "entry": site}
        add_case("(CSop (SCodeRequired %s) %s)" % (E.blit(dflt_in_req), obs_lit(written, False, False)),
                 dict(desc, observed=[written, False, False], py_violates=written))
        for p in sorted(set(where)):
            rep.finding("C19/writes-arg/%s/%s" % (site, p), "%s modified its schema argument in place at %r" % (site, p), desc)
    # ---------------------------------------------------------------- structure_to_schema
    nsch = 240 if tier == "quick" else 2400
    for i in range(nsch):
        spec, touches, mutable_default = gen_schema_class(rnd, "C19q%d_%d" % (core.seed(), i))
        try:
            written, where, live, lpaths, src = run_schema(spec)
        except Exception as e:  # noqa
            rep.stat("structure_to_schema", "harness-error:" + type(e).__name__)
            rep.broken("generator:structure_to_schema", "%s: %s" % (type(e).__name__, e), {"kind": "schema", "spec": spec.to_json()})
            continue
        rep.count("structure_to_schema", 1, ("schema", touches, mutable_default, len(spec.fields)))
        rep.stat("structure_to_schema", "touches_required:%s mutable_default:%s" % (touches, mutable_default))
        add_case("(CSop (SSchemaRequired %s) %s)" % (E.blit(touches), obs_lit(written, False, False)),
                 {"kind": "schema", "spec": spec.to_json(), "observed": [written, False, False], "where": where, "py_violates": written})
        add_case("(CSop (SSchemaDefault %s) %s)" % (E.blit(mutable_default), obs_lit(False, False, live)),
                 {"kind": "schema", "spec": spec.to_json(), "observed": [False, False, live], "where": lpaths, "py_violates": live})
        for p in where:
            rep.finding("C19/writes-arg/structure_to_schema/" + p, "structure_to_schema changed the class it was given (%s)" % p,
                        {"kind": "schema", "spec": spec.to_json(), "python": src})
        for p in sorted(set(lpaths)):
            rep.finding("C19/returns-live/structure_to_schema/" + p,
                        "mutating the schema returned by structure_to_schema (at %r) changed the class" % p,
                        {"kind": "schema", "spec": spec.to_json(), "python": src})
    # ---------------------------------------------------------------- Partial / Omit / Pick / Extend / AllFieldsRequired
    nder = 60 if tier == "quick" else 600
    for i in range(nder):
        spec, _, _ = gen_schema_class(rnd, "C19d%d_%d" % (core.seed(), i))
        spec.mapper = {}
        spec.defaults = {f: d for f, d in spec.defaults.items() if not d.startswith("[")}
        rs = rnd.randint(0, 10 ** 6)
        try:
            fails, src = run_derive(random.Random(rs), spec)
        except Exception as e:  # noqa
            rep.broken("generator:derive", "%s: %s" % (type(e).__name__, e), {"kind": "derive", "spec": spec.to_json(), "rseed": rs})
            continue
        rep.count("derive", 5, ("derive", len(spec.fields), bool(spec.defaults)))
        for k, what in fails:
            rep.finding("C19/" + k, what, {"kind": "derive", "spec": spec.to_json(), "rseed": rs, "python": src})
    # ---------------------------------------------------------------- convert_dict
    from harness.props import c17
    nconv = 200 if tier == "quick" else 2000
    for i in range(nconv):
        doc, maps = c17.gen_case(rnd)
        written, live, shares = run_convert(doc, maps)
        rep.count("convert_dict", 1, ("convert", len(maps), written, live))
        if shares:
            rep.stat("convert_dict", "result-shares-a-Constant-of-the-mapping(observed, not claimed)")
        add_case("(CSop SConvertDict %s)" % obs_lit(written, False, live),
                 {"kind": "convert", "doc": doc, "maps": maps, "observed": [written, False, live], "py_violates": written or live})
        if written:
            rep.finding("C19/writes-arg/convert_dict", "convert_dict modified its arguments", {"kind": "convert", "doc": doc, "maps": maps})
        if live:
            rep.finding("C19/returns-live/convert_dict/input-document", "the document returned by convert_dict shares objects with the input document",
                        {"kind": "convert", "doc": doc, "maps": maps})
    # ---------------------------------------------------------------- Deserializer of a Versioned class
    nver = 80 if tier == "quick" else 800
    for i in range(nver):
        immutable, vdoc, api = gen_versioned(rnd)
        desc0 = {"kind": "versioned", "immutable": immutable, "doc": vdoc, "api": api}
        try:
            res, extras, src = run_versioned(immutable, vdoc, api)
        except Exception as e:  # noqa
            rep.stat("versioned", "harness-error:" + type(e).__name__)
            rep.broken("generator:versioned", "%s: %s" % (type(e).__name__, e), desc0)
            continue
        for f, (w, r, paths) in res.items():
            inside = typed_inside(VERSIONED_TYPES[f]) or immutable
            rep.count("versioned", 1, ("versioned", immutable, vdoc["version"], f, api))
            rep.stat("versioned", "from-version:%d" % vdoc["version"])
            add_case("(CSop (SVersionedDeser %s) %s)" % (E.blit(inside), obs_lit(w, r, False)),
                     dict(desc0, field=f, observed=[w, r, False], py_violates=inside and (w or r)))
            if not inside:
                continue
            if w:
                rep.finding("C19/writes-arg/Versioned-%s/%s" % (api, label(VERSIONED_TYPES[f])),
                            "deserializing a versioned document modified its field %r" % f, dict(desc0, python=src))
            for p_ in paths:
                rep.finding("C19/retains-arg/Versioned-%s/%s" % (api, p_),
                            "mutating the versioned document afterwards changed the instance (%s kept by reference)" % p_,
                            dict(desc0, python=src))
        for k, what in extras:
            rep.finding("C19/" + k, what, dict(desc0, python=src))
    Structure.set_fail_fast(fail_fast0) if hasattr(Structure, "set_fail_fast") else None

    # ---------------------------------------------------------------- correspondence in Coq
    if model_ok:
        per = 400
        shards = []
        for s in range(0, len(cases), per):
            body = "Definition cases : list case := %s.\n" % E.lst(["\n " + c for c, _ in cases[s:s + per]])
            body += "Eval vm_compute in (indices_where mismatch cases 0).\n"
            body += "Eval vm_compute in (indices_where violates cases 0).\n"
            body += "Eval vm_compute in (indices_where predicted_violation cases 0).\n"
            shards.append(body)
        tail = "Definition cases : list case := [].\nEval vm_compute in (map (fun p => length (fst p)) (unsafe_sites alias_sites)).\n" \
               "Eval vm_compute in (length (unsafe_sites alias_sites)).\n" \
               "Eval vm_compute in (map (fun b : bool => if b then 1 else 0) [struct_gate_ok copy_tables; field_gates_ok copy_tables; " \
               "sites_intake_ok alias_sites; atomic_table (t_setattr copy_tables); atomic_table (t_set copy_tables); t_dict_gate copy_tables]).\n"
        res = core.eval_cases(shards + [tail], "c19", HEADER)
        mism, viol, pred = [], [], []
        bad_shard = None
        for si, (rc, out, err) in enumerate(res[:-1]):
            vals = core.parse_eval(out)
            if rc != 0 or len(vals) != 3:
                bad_shard = (si, (out + err)[-1500:])
                continue
            mism += [si * per + i for i in core.parse_nat_list(vals[0])]
            viol += [si * per + i for i in core.parse_nat_list(vals[1])]
            pred += [si * per + i for i in core.parse_nat_list(vals[2])]
        rep.obligation("correspondence:effects", not mism and bad_shard is None, f"{len(cases)} cases, {len(mism)} mismatches")
        rep.cov["streams"].setdefault("coq", {})["spec_violations_found_in_coq"] = len(viol)
        rep.cov["streams"]["coq"]["violations_predicted_by_model"] = len(pred)
        rc, out, err = res[-1]
        vals = core.parse_eval(out)
        if rc == 0 and len(vals) == 3:
            rep.cov["streams"]["coq"]["unsafe_sites_in_current_source"] = core.parse_nat_list(vals[1])[0]
            flags = core.parse_nat_list(vals[2])
            names = ["struct_gate_ok(copy_tables)", "field_gates_ok(copy_tables)", "sites_intake_ok(alias_sites)",
                     "atomic_table(t_setattr)", "atomic_table(t_set)", "t_dict_gate"]
            # which hypotheses of the intake safety theorems hold of the tables generated from the CURRENT source
            rep.cov["streams"]["coq"]["intake_theorem_hypotheses_now"] = {n: bool(b) for n, b in zip(names, flags)}
        else:
            rep.broken("correspondence:tables/coq-eval", "the generated tables could not be evaluated: " + (out + err)[-800:])
        # every violation the Coq-side spec predicate sees must have been reported by the Python-side clauses
        pyviol = {i for i, (_, d) in enumerate(cases) if d.get("py_violates")}
        unreported = sorted(set(viol) ^ pyviol)
        rep.obligation("spec:coq-and-python-clauses-agree", not unreported and bad_shard is None,
                       f"{len(viol)} violating cases in Coq, {len(pyviol)} in Python, {len(unreported)} differ")
        if unreported:
            rep.broken("spec:coq-and-python-clauses-agree", "Check/C19chk.violates and the Python-side clauses disagree on a case",
                       cases[unreported[0]][1])
        import os
        if os.environ.get("C19_DEBUG"):
            for i in mism[:40]:
                d = cases[i][1]
                print("MISMATCH", cases[i][0], d.get("op"), d.get("detail") or d.get("where"))
        if bad_shard is not None:
            rep.broken("correspondence:effects/coq-eval", f"case shard {bad_shard[0]} failed to evaluate: {bad_shard[1]}")
        if mism:
            concrete = [v for v in rep.violations if not v["no_input"]]
            d = cases[mism[0]][1]
            if not concrete:
                rep.broken("correspondence:effects",
                           f"the effect predicted by the model (Struct/Alias.v + Gen/AliasSites.v) differs from the observed effect on "
                           f"{len(mism)} cases; no clause of C19 failed on an unlisted input", d)
            else:
                rep.obligation("correspondence:effects:explained-by-violation", True,
                               "mismatching cases accompany a concrete violation reported above")
    if not proofs_ok:
        from harness.props.c17 import broken_build
        broken_build(rep)
    return rep.finish(
        rule="cases = (operation, generated class, owner kind, field type, argument shape) with operations construct / setattr / "
             "Deserializer (plain, function, mapper, trusted) / Serializer (plain, function, mapper) / FastSerializable.serialize / "
             "wrapper mutators, plus failing construct/deserialize, Versioned deserialization, schema_to_struct_code, "
             "schema_definitions_to_code, structure_to_schema, Partial/Omit/Pick/Extend/AllFieldsRequired, convert_dict; random "
             "classes + the deterministic lattice owner x untyped-position type x python kind of value; every argument "
             "deep-snapshotted before/after, every caller-mutable object of every argument and result mutated, instance/class "
             "fingerprints compared; non-trivial = non-scalar field type; distinct = (operation, class kind, owner, type, shape)")
