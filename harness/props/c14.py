"""C14 — inheritance only adds strictness; invalid class definitions fail when defined.

Proof obligations: Props/C14.v (model Struct/Define.v, spec predicates Struct/Faults.v).  Tie: hierarchies
of class statements (depth <= 4, several bases, mix-ins, all placements of _required/_optional/defaults/
Constant) and every single-fault variant of an otherwise valid class statement are executed on the real
typedpy (both guards on and off); the observable facts of each class object, or the exception, are compared
in Coq with `define` (correspondence); the inclusions of the property and "a faulty statement raises" are
evaluated in Coq on the OBSERVED classes; inherited-field behaviour, "no class is produced" and
AbstractStructure are evaluated on the implementation directly.  Two enumerated streams (harness/c14lattice.py):
the default-fault lattice (field spelling x default spelling x falsy/truthy value x placement; judged on the
implementation: a default the field itself rejects, or a mutable literal, must make the class statement raise) and
the name-fault lattice (every spelling of a member, bare Structure class by annotation / assignment and ClassReference
included, x invalid names x placement x guards: the statement must raise) and the hierarchy-shape lattice (diamonds and other non-linear shapes x overriding classes x override kinds; through the
Coq pipeline and, on the implementation, field map against attribute lookup along the MRO)."""
import copy
import random

from harness import core
from harness import coqemit as E
from harness import fieldgen as G
from harness import defgen as D
from harness import c14lattice as L
from harness.props import c12 as C12

CLAUSE = {1: "fields-mono", 2: "required-mono", 3: "inherited-default"}
FAULT = {41: "default-kw-falsy", 42: "default-kw-truthy", 43: "default-eq", 44: "mutable-default", 45: "constant-type",
         46: "name", 47: "optional-required", 48: "sealed-base", 49: "unknown-attr", 50: "non-typedpy"}
CLAUSE.update({k: "fault-accepted:" + v for k, v in FAULT.items()})


# ------------------------------------------------------------------ generation of hierarchies

def gen_hierarchy(rnd, tag, max_depth):
    """Steps defining a hierarchy; returns (steps, names of the Structure classes in definition order)."""
    steps = []
    classes = []          # (name, depth, extendable)
    pool = list(D.FIELD_NAMES)
    rnd.shuffle(pool)
    used = []

    def fresh(k):
        out = []
        for _ in range(k):
            if pool:
                n = pool.pop()
                used.append(n)
                out.append(n)
        return out

    n_roots = rnd.choice([1, 1, 2, 2, 3])
    mixins = []
    if rnd.random() < 0.4:
        mixins.append("Mx%s" % tag)
        steps.append(["mixin", mixins[0]])
    for i in range(n_roots):
        base = rnd.choice(["Structure", "Structure", "Structure", "AbstractStructure"])
        names = fresh(rnd.randint(1, 2))
        if used and rnd.random() < 0.25:
            names.append(rnd.choice(used))             # a name another root declares, too
        names = list(dict.fromkeys(names))
        s = respell(rnd, D.gen_stmt(rnd, "R%s_%d" % (tag, i), [base], names, p_const=0.12))
        steps.append(["def", s])
        classes.append((s["name"], 1))
    depth = rnd.randint(2, max_depth)
    for lvl in range(2, depth + 1):
        for j in range(rnd.choice([1, 1, 2])):
            cands = [c for c, d in classes if d == lvl - 1] or [c for c, _ in classes]
            bases = [rnd.choice(cands)]
            if rnd.random() < 0.35:
                other = [c for c, _ in classes if c not in bases]
                if other:
                    bases.append(rnd.choice(other))
            if mixins and rnd.random() < 0.4:
                bases.insert(rnd.randint(0, len(bases)), mixins[0])
            names = fresh(rnd.randint(0, 2))
            if used and rnd.random() < 0.3:
                names.append(rnd.choice(used))         # redeclare an inherited name
            names = list(dict.fromkeys(names))
            s = respell(rnd, D.gen_stmt(rnd, "L%d%s_%d" % (lvl, tag, j), bases, names, p_const=0.1))
            r = rnd.random()
            if r < 0.25:
                s["required"] = sorted(set(rnd.sample(used, rnd.randint(0, min(3, len(used))))))
                s["optional"] = None
            elif r < 0.4:
                s["optional"] = sorted(set(rnd.sample(used, rnd.randint(0, min(2, len(used))))))
                s["required"] = None
            steps.append(["def", s])
            classes.append((s["name"], lvl))
    return steps


def respell(rnd, s, p=0.3):
    """Writes some declarations of statement s in another spelling of the same field (bare Field class, python type)."""
    for m in s["members"]:
        if m["kind"] == "decl" and m.get("kwd") is None and not m.get("imm") and rnd.random() < p:
            sp = L.bare_spellings(m["field"], m.get("style") or "ann")
            if (m.get("eqd") or [None])[0] == "factory":
                # next to a plain python type typedpy calls the factory once, at definition, and keeps the VALUE as the
                # default (_type_with_default_value_if_exists): another default object than the model's statement has
                sp = [x for x in sp if not x[0].islower()]
            if sp:
                m["spell"] = rnd.choice(sp)
    return s


def run_steps(steps, guards):
    """Runs until the first failing class statement (nothing can be built on a missing class)."""
    ns, outs = D.run_program(steps, guards)
    cut = len(steps)
    for i, o in enumerate(outs):
        if o[0] == "raise":
            cut = i + 1
            break
    # names bound by failed statements must not exist
    return steps[:cut], outs[:cut], ns


# ------------------------------------------------------------------ single-fault variants

def gen_valid_last(rnd, tag, bases, inherited_required):
    names = ["p", "q", "r2", "s"][:rnd.randint(2, 4)]
    s = D.gen_stmt(rnd, "V" + tag, bases, names, p_const=0.0, p_default=0.3)
    s["attrs"] = []
    return s


def fault_variants(rnd, s, ctx):
    """[(kind, statement, guard-dependent?)] — each differs from the valid statement s in one place."""
    out = []
    decls = [i for i, m in enumerate(s["members"]) if m["kind"] == "decl"]

    def variant(kind, edit, guard=None):
        v = copy.deepcopy(s)
        v["name"] = s["name"] + "_" + kind.replace("-", "_")
        if edit(v) is not False:
            out.append((kind, v, guard))

    def eq_invalid(v):
        for i in rnd.sample(decls, len(decls)):
            m = v["members"][i]
            if m["field"]["t"] in ("num", "str", "bool", "enumlit") :
                bad = invalid_value(rnd, m["field"])
                if bad is None:
                    continue
                m["kwd"] = None
                m["eqd"] = ["lit", bad] if rnd.random() < 0.8 else ["factory", bad]
                m["style"] = "ann"
                sp = L.bare_spellings(m["field"])
                if m["eqd"][0] == "factory":
                    sp = [x for x in sp if not x[0].islower()]
                if sp and rnd.random() < 0.6:
                    m["spell"] = rnd.choice(sp)
                    m["imm"] = False
                return True
        return False

    def kw_invalid(truthy):
        def f(v):
            for i in rnd.sample(decls, len(decls)):
                m = v["members"][i]
                bad = invalid_value(rnd, m["field"], truthy=truthy)
                if bad is None:
                    continue
                m["eqd"] = None
                m["kwd"] = ["lit", bad]
                m["style"] = rnd.choice(["ann", "assign"])
                return True
            return False
        return f

    def mutable(v):
        m = v["members"][rnd.choice(decls)]
        m["kwd"] = None
        m["style"] = "ann"
        m["eqd"] = ["lit", rnd.choice([("list", []), ("list", [("int", 1)]), ("dict", []), ("set", False, [])])]
        m["field"] = rnd.choice([{"t": "seqany", "k": "list", "sz": [None, None], "uniq": False}, {"t": "any"}, m["field"]])

    def bad_name(nm):
        def f(v):
            v["members"][rnd.choice(decls)]["name"] = nm
            if v.get("required") is not None:
                v["required"] = [x for x in v["required"] if any(m["name"] == x for m in v["members"])]
            if v.get("optional") is not None:
                v["optional"] = [x for x in v["optional"] if any(m["name"] == x for m in v["members"])]
        return f

    def optional_required(v):
        own = [m["name"] for m in v["members"] if m["kind"] == "decl" and m.get("kwd") is None and m.get("eqd") is None]
        if not own:
            return False
        n = rnd.choice(own)
        v["required"] = sorted(set((v.get("required") or []) + [n]))
        v["optional"] = [n]

    def optional_base_required(v):
        if not ctx["base_required"]:
            return False
        v["required"] = None
        v["optional"] = [rnd.choice(ctx["base_required"])]

    def bad_const(v):
        v["members"].append({"name": "kk", "kind": "const",
                             "value": rnd.choice([("list", [("int", 1)]), ("dict", []), ("none",), ("dec", 15, -1),
                                                  ("tuple", [("int", 1)])])})

    def keys_missing(v):
        have = [m["name"] for m in v["members"]]
        v["keys_of"] = [have[:1] + ["missing_one"]]

    def unknown_attr(v):
        v["attrs"] = [[rnd.choice(["_foo", "_something", "plain"]), rnd.choice(["bool", "list", "dict"])]]

    def non_typedpy(v):
        v["attrs"] = [[rnd.choice(["zz", "other"]), "type"]]

    variant("default-eq", eq_invalid)
    variant("default-kw-truthy", kw_invalid(True))
    variant("default-kw-falsy", kw_invalid(False))
    variant("mutable-default", mutable)
    variant("name-underscore", bad_name("_hidden"))
    variant("name-kwargs", bad_name("kwargs"))
    variant("optional-required", optional_required)
    variant("optional-base-required", optional_base_required)
    variant("constant-type", bad_const)
    variant("keys-of", keys_missing)
    variant("unknown-attr", unknown_attr, guard=0)
    variant("non-typedpy", non_typedpy, guard=1)
    if ctx.get("sealed"):
        def sealed(v):
            v["bases"] = [ctx["sealed"]]
            v["required"] = None
            v["optional"] = None
        variant("sealed-base", sealed)
    return out


def invalid_value(rnd, f, truthy=None):
    """A literal the field rejects (checked on the real field), truthy / falsy on request."""
    from harness import structgen as S
    cands = []
    if f["t"] == "num":
        cands = [("int", 0), ("int", 1), ("int", -1), ("int", 1000003), ("flt", 1, -1), ("str", "x"), ("str", ""), ("flt", 0, 0),
                 ("bool", False)]
    elif f["t"] == "str":
        cands = [("str", ""), ("str", "a"), ("str", "x" * 30), ("int", 0), ("int", 3), ("bool", False)]
    elif f["t"] in ("bool",):
        cands = [("int", 0), ("int", 2), ("str", "yes"), ("str", "")]
    elif f["t"] in ("enumlit", "enumcls"):
        cands = [("int", 0), ("str", "nope"), ("str", ""), ("int", 77)]
    else:
        cands = [("int", 0), ("str", ""), ("int", 5), ("str", "v"), ("bool", False)]
    rnd.shuffle(cands)
    for c in cands:
        t = bool(G.unreify(c))
        if truthy is not None and t != truthy:
            continue
        try:
            ns = D.fresh_ns()
            exec("class T(Structure):\n    f = %s\n    _required = []\n" % G.field_src(f), ns)
            ns["T"](f=G.unreify(c))
        except (TypeError, ValueError):
            return c
        except Exception:  # noqa
            continue
    return None


# ------------------------------------------------------------------ implementation-side clauses

def provider(cls, n):
    for c in cls.__mro__[1:]:
        if n in getattr(c, "__dict__", {}).get("_fields", []) and hasattr(c, "get_all_fields_by_name"):
            return c
    return None


def inherited_clauses(rnd, prog, ns, fmaps, rep, report, n_vals):
    from typedpy import Structure
    n_eval = 0
    for st in prog:
        if st[0] != "def":
            continue
        s = st[1]
        cls = ns.get(s["name"])
        if cls is None:
            continue
        own = {m["name"] for m in s["members"]}
        fields = cls.get_all_fields_by_name()
        fm = fmaps.get(s["name"], {})
        base = None
        for n, fobj in fields.items():
            if n in own:
                continue
            P = provider(cls, n)
            if P is None or fm.get(n) is None:
                continue
            if P.get_all_fields_by_name().get(n) is not fobj:
                # with several bases the MRO decides; the provider found through the MRO must be the object
                report("C14/inherited/field-object-differs", "%s.%s is not the field object of %s" % (cls.__name__, n, P.__name__),
                       {"class": cls.__name__, "field": n})
                continue
            if P.__dict__.get("__init__") is not None or "AbstractStructure" in [b.__name__ for b in P.__bases__]:
                continue
            if base is None:
                base = C12.base_kwargs(rnd, cls, fm)
                if base is None:
                    break
            pf = fmaps.get(P.__name__, {})
            pbase = {k: v for k, v in base.items() if k in P.get_all_fields_by_name() and pf.get(k) is not None}
            try:
                P(**{k: G.unreify(v, {}) for k, v in pbase.items()})
            except Exception:  # noqa  (a field of P redeclared in cls with another type: P rejects cls's values)
                continue
            preq, creq = set(P._required), set(cls._required)
            for v in C12.test_values(rnd, fm[n], n_vals):
                if v[0] == "none" and ((n in preq) != (n in creq) or
                                       bool(getattr(P, "_ignore_none", False)) != bool(getattr(cls, "_ignore_none", False))):
                    continue
                try:
                    pv = G.unreify(v, {})
                except Exception:  # noqa
                    continue
                kp = {k: G.unreify(x, {}) for k, x in pbase.items()}
                kp[n] = pv
                kc = {k: G.unreify(x, {}) for k, x in base.items()}
                kc[n] = pv
                op_, oc_ = C12.outcome(P, kp, n), C12.outcome(cls, kc, n)
                n_eval += 1
                if op_ != oc_:
                    report("C14/inherited/%s/%s" % (fm[n]["t"], v[0]),
                           "inherited field %r given %s: base %s -> %s, subclass %s -> %s" % (
                               n, G.py_src(v), P.__name__, op_, cls.__name__, oc_),
                           {"class": cls.__name__, "field": n, "value": G.py_src(v)})
        # AbstractStructure: direct children cannot be instantiated
        if "AbstractStructure" in s["bases"]:
            kw = {}
            for n2, f2 in fm.items():
                if f2 is not None:
                    try:
                        kw[n2] = G.unreify(G.gen_valid(rnd, f2, {}), {})
                    except Exception:  # noqa
                        pass
            try:
                cls(**kw)
                report("C14/abstract/direct-child-instantiated", "%s extends AbstractStructure directly and was instantiated" % cls.__name__,
                       {"class": cls.__name__})
            except TypeError:
                pass
            except Exception as ex:  # noqa
                report("C14/abstract/direct-child-raises-%s" % E.exn_name(ex), repr(ex), {"class": cls.__name__})
    return n_eval


def base_values(rnd, prog, ns, fmaps):
    """class name -> python kwargs of a valid instance (None when none was found)."""
    out = {}
    for st in prog:
        if st[0] != "def":
            continue
        cls = ns.get(st[1]["name"])
        if cls is None:
            continue
        kw = C12.base_kwargs(rnd, cls, fmaps.get(st[1]["name"], {}))
        try:
            out[st[1]["name"]] = None if kw is None else {k: G.unreify(v, {}) for k, v in kw.items()}
        except Exception:  # noqa
            out[st[1]["name"]] = None
    return out


def required_key(prog, outs, step):
    """Key of a required-mono failure: is the lost name declared optional by an earlier base (MRO shadowing)?"""
    s = prog[step][1]
    obs = {D.step_name(st): o[1] for st, o in zip(prog, outs) if o[0] == "ok"}
    sub = obs.get(s["name"])
    shadowed = True
    found = False
    for bi, b in enumerate(s["bases"]):
        ob = obs.get(b)
        if not ob:
            continue
        consts = {n for n, _ in ob["consts"]}
        for n in ob["required"]:
            if n in ob["fields"] and n not in consts and n not in sub["required"]:
                found = True
                earlier = [obs.get(x) for x in s["bases"][:bi] if obs.get(x)]
                if not any(n in e["sig_opt"] or n in [c for c, _ in e["consts"]] for e in earlier):
                    shadowed = False
    if found and shadowed and len([b for b in s["bases"] if b in obs and obs[b]["fields"]]) > 1:
        return "C14/required-mono/multi-base-shadowed"
    return "C14/required-mono"


def evaluate(cases, tag="c14"):
    per = max(12, min(60, -(-len(cases) // 16)))      # one shard per core
    shards = []
    for s in range(0, len(cases), per):
        items = [D.emit_case(p, o, g) for p, o, g in cases[s:s + per]]
        body = "Definition cases : list dcase := %s.\n" % E.lst(["\n " + i for i in items])
        body += "Eval vm_compute in (map (fun c => map (fun i => (i, 0%nat)) (dmismatch_steps c)) cases).\n"
        body += "Eval vm_compute in (map c14_all_fail cases).\n"
        body += "Eval vm_compute in (indices_where dunmodelled cases 0).\n"
        shards.append(body)
    res = core.eval_cases(shards, tag, D.HEADER)
    mism, spec, unm = [], [], []
    for si, (rc, so, se) in enumerate(res):
        vals = core.parse_eval(so)
        n_here = len(cases[si * per:(si + 1) * per])
        if rc != 0 or len(vals) != 3:
            raise RuntimeError("case shard %d failed to evaluate: %s" % (si, (so + se)[-1500:]))
        m = D.parse_list_of_pairlists(vals[0])
        sp = D.parse_list_of_pairlists(vals[1])
        if len(m) != n_here or len(sp) != n_here:
            raise RuntimeError("case shard %d: unexpected output shape %r" % (si, vals[0][:300]))
        mism += [[a for a, _ in x] for x in m]
        spec += sp
        unm += [si * per + i for i in core.parse_nat_list(vals[2])]
    return mism, spec, unm


def check_guards_restored(rep, before):
    from typedpy.structures import TypedPyDefaults
    from typedpy import Structure
    after = (TypedPyDefaults.block_unknown_consts, Structure.is_non_typedpy_field_assignment_blocked())
    rep.obligation("harness:guards-restored", before == after, "%r -> %r" % (before, after))


def run(rep, tier):
    from typedpy.structures import TypedPyDefaults
    from typedpy import Structure
    rnd = random.Random(core.seed() * 1000003 + 14)
    proofs_ok, model_ok = core.standard_proof_obligations(rep, "C14", ["theories/Check/Defchk.vo"])
    before = (TypedPyDefaults.block_unknown_consts, Structure.is_non_typedpy_field_assignment_blocked())
    quick = tier == "quick"
    n_hier = 110 if quick else 700
    n_fault = 45 if quick else 200
    n_vals = 4 if quick else 7
    max_depth = 4
    cases = []
    findings = []
    kinds = {}        # case index -> {step: fault kind}
    not_faithful = set()   # programs showing the listed _constants defect, which the model (MRO based) does not have

    def reporter(prog, ns=None):
        src = D.program_src(prog)

        def report(key, what, data):
            cls = (ns or {}).get(data.get("class"))
            if key.startswith("C14/inherited") and cls is not None and data.get("field") and L.const_shadowed(cls, data["field"]):
                key = L.K_CONST_SHADOW          # a consequence of that listed defect: same root cause, same key
            findings.append((key, what, dict(data, python=src, program=prog)))
            if key == L.K_CONST_SHADOW:
                not_faithful.add(id(prog))
        return report

    # stream 1: hierarchies
    for i in range(n_hier):
        steps = gen_hierarchy(rnd, "h%d" % i, max_depth)
        guards = (True, True) if i % 5 else (rnd.random() < 0.5, rnd.random() < 0.5)
        prog, outs, ns = run_steps(steps, guards)
        fm = D.field_ast_map(prog, ns)
        n = inherited_clauses(rnd, prog, ns, fm, rep, reporter(prog, ns), n_vals)
        n += L.mro_clauses(prog, ns, reporter(prog, ns), base_values(rnd, prog, ns, fm))
        for st, o in zip(prog, outs):
            if st[0] == "def":
                rep.count("hierarchy", 1, (len(st[1]["bases"]), len(st[1]["members"]), st[1]["required"] is not None,
                                           st[1]["optional"] is not None, o[0] if o[0] == "ok" else o[1],
                                           tuple(sorted(m["kind"] for m in st[1]["members"]))))
                rep.stat("hierarchy", "outcome:" + (o[0] if o[0] == "ok" else o[1]))
                rep.stat("hierarchy", "bases:%d" % len(st[1]["bases"]))
        rep.count("hierarchy:values", n)
        cases.append((prog, outs, guards))
    # stream 1b: the lattice of hierarchy shapes x override positions x override kinds (enumerated)
    for shape, sub, okinds, rd, steps in L.shape_programs(tier, core.seed()):
        prog, outs, ns = run_steps(steps, (True, True))
        fm = D.field_ast_map(prog, ns)
        n = inherited_clauses(rnd, prog, ns, fm, rep, reporter(prog, ns), n_vals)
        n += L.mro_clauses(prog, ns, reporter(prog, ns), base_values(rnd, prog, ns, fm))
        last = outs[-1]
        rep.count("shape-lattice", 1, (shape, tuple(sub), tuple(sorted(set(okinds.values()))), rd,
                                       last[0] if last[0] != "raise" else last[1]))
        rep.stat("shape-lattice", "shape:" + shape)
        rep.stat("shape-lattice", "overriders:%d" % len(sub))
        rep.stat("shape-lattice", "outcome:" + ("all-defined" if len(prog) == len(steps) and last[0] != "raise" else
                                                "stopped-at-%s" % last[1]))
        for k in set(okinds.values()):
            rep.stat("shape-lattice", "kind:" + k)
        rep.count("shape-lattice:values", n)
        cases.append((prog, outs, (True, True)))
    # stream 1c: the lattice of default faults: field spelling x default spelling x value x placement (enumerated)
    probe = L.Probe()
    for case in L.default_cases(tier, core.seed()):
        st_, key, what, rp = L.judge_default_case(case, probe)
        rep.count("default-lattice", 1, (case[0], L.spelling_class(case[1], L.TAKES_KW[case[1]]), case[2], case[3], case[5], st_))
        rep.stat("default-lattice", "status:" + st_)
        rep.stat("default-lattice", "placement:" + case[5])
        rep.stat("default-lattice", "default-spelling:" + case[3])
        if st_ == "fail":
            findings.append((key, what, rp))
    # stream 1d: the lattice of name faults: member spelling x invalid name x placement x guards (enumerated)
    for case in L.name_cases(tier, core.seed()):
        st_, key, what, rp = L.judge_name_case(case)
        rep.count("name-lattice", 1, (case[0], case[1], case[4], L.NAME_PLACEMENTS[case[5]][0], case[6], st_))
        rep.stat("name-lattice", "status:" + st_)
        rep.stat("name-lattice", "member:%s-%s" % (case[0], case[1]))
        rep.stat("name-lattice", "placement:" + L.NAME_PLACEMENTS[case[5]][0])
        if st_ == "fail":
            findings.append((key, what, rp))
    # stream 2: every single-fault variant of a valid class statement, guards on and off
    for i in range(n_fault):
        tag = "f%d" % i
        steps = gen_hierarchy(rnd, tag, 2)
        sealed_kind = rnd.choice(["ImmutableStructure", "FinalStructure"])
        steps.append(["def", D.gen_stmt(rnd, "Sealed" + tag, [sealed_kind], ["u"], p_default=0.0)])
        prog0, outs0, ns0 = run_steps(steps, (True, True))
        okc = [st[1]["name"] for st, o in zip(prog0, outs0) if st[0] == "def" and o[0] == "ok"
               and not st[1]["name"].startswith("Sealed")]
        if not okc or len(prog0) != len(steps):
            continue
        base = rnd.choice(okc) if rnd.random() < 0.7 else "Structure"
        base_obs = next((o[1] for st, o in zip(prog0, outs0) if D.step_name(st) == base and o[0] == "ok"), None)
        valid = gen_valid_last(rnd, tag, [base], [])
        progv, outsv, _ = run_steps(prog0 + [["def", valid]], (True, True))
        if outsv[-1][0] != "ok":
            continue
        ctx = {"base_required": list(base_obs["sig_req"]) if base_obs else [],
               "sealed": "Sealed" + tag if outs0[-1][0] == "ok" else None}
        for kind, v, guard in fault_variants(rnd, valid, ctx):
            settings = [(True, True)]
            if guard is not None:
                off = [True, True]
                off[guard] = False
                settings.append(tuple(off))
            for gs in settings:
                prog, outs, ns = run_steps(prog0 + [["def", v]], gs)
                if len(prog) != len(prog0) + 1:
                    continue
                last = outs[-1]
                guarded_off = guard is not None and not gs[guard]
                rep.count("faults", 1, (kind, gs, last[0] if last[0] == "ok" else last[1]))
                rep.stat("faults", "%s%s:%s" % (kind, "(guard off)" if guarded_off else "", last[0] if last[0] == "ok" else last[1]))
                kinds.setdefault(len(cases), {})[len(prog) - 1] = kind
                report = reporter(prog)
                if not guarded_off:
                    if last[0] == "ok":
                        if kind not in ("default-eq", "default-kw-truthy", "default-kw-falsy", "mutable-default", "name-underscore",
                                        "name-kwargs", "optional-required", "optional-base-required", "constant-type",
                                        "unknown-attr", "non-typedpy", "sealed-base"):
                            # keys_of is not part of has_fault (it is a decorator): judged here
                            report("C14/fault/%s/accepted" % kind, "class statement with fault %s was accepted" % kind, {"kind": kind})
                    else:
                        if last[1] not in ("TypeError", "ValueError", "InvalidStructureErr"):
                            report("C14/fault/%s/raises-%s" % (kind, last[1]), "fault %s raises %s, not a TypeError/ValueError" % (kind, last[2]),
                                   {"kind": kind})
                        if v["name"] in ns:
                            report("C14/fault/%s/class-exists" % kind, "the failed class statement left a class behind", {"kind": kind})
                elif last[0] != "ok":
                    report("C14/guard-off/%s/raises-%s" % (kind, last[1]), "with the guard off the statement must be accepted: %s" % (last[2],),
                           {"kind": kind})
                cases.append((prog, outs, gs))
    # ImmutableField classes cannot be extended (FieldMeta); AbstractStructure itself
    ns = D.fresh_ns()
    try:
        exec("class MyImm(ImmutableField, String):\n    pass\n", ns)
        try:
            exec("class Sub(MyImm):\n    pass\n", ns)
            findings.append(("C14/fault/immutable-field-subclass/accepted", "a subclass of an ImmutableField class was accepted",
                             {"python": "class MyImm(ImmutableField, String): pass\nclass Sub(MyImm): pass"}))
        except TypeError:
            pass
        rep.count("faults", 1, ("immutable-field",))
    except Exception as ex:  # noqa
        findings.append(("C14/immutable-field/definition-raises", repr(ex), {}))
    try:
        ns["AbstractStructure"]()
        findings.append(("C14/abstract/base-class-itself-instantiable",
                         "AbstractStructure() returns an instance (only direct children are refused)",
                         {"python": "from typedpy import AbstractStructure\nAbstractStructure()", "program": []}))
    except TypeError:
        pass
    rep.count("faults", 1, ("abstract-itself",))
    for key, what, data in findings:
        rep.finding(key, what, data)
    rep.obligation("spec-on-implementation:inherited-behaviour/no-class/abstract", not findings,
                   "%d programs, %d disagreements" % (len(cases), len(findings)))
    for i in (0, len(cases) // 3, len(cases) - 1):
        rep.sample({"program": D.program_src(cases[i][0])[len(D.IMPORTS):][:1500], "guards": cases[i][2],
                    "outcomes": [o[0] if o[0] != "raise" else o[1] for o in cases[i][1]]})
    check_guards_restored(rep, before)
    if model_ok:
        try:
            mism, spec, unm = evaluate(cases)
        except RuntimeError as ex:
            rep.broken("correspondence:define/coq-eval", str(ex))
            mism = None
        if mism is not None:
            n_steps = sum(len(p) for p, _, _ in cases)
            rep.cov["streams"].setdefault("hierarchy", {})["programs"] = len(cases)
            rep.cov["streams"]["hierarchy"]["steps_compared_in_coq"] = n_steps
            rep.cov["streams"]["hierarchy"]["outside_model_domain_skipped"] = len(unm)
            n_spec = 0
            for ci, fails in enumerate(spec):
                prog, outs, gs = cases[ci]
                for step, clause in fails:
                    n_spec += 1
                    if clause == 2:
                        key = required_key(prog, outs, step)
                    elif clause in FAULT:
                        key = "C14/fault/%s/accepted" % FAULT[clause]
                    else:
                        key = "C14/%s" % CLAUSE[clause]
                    rep.finding(key, "%s fails for class %s (bases %s): observed %s" % (
                        CLAUSE[clause], prog[step][1]["name"], prog[step][1]["bases"], outs[step][1]),
                        {"program": prog, "step": step, "clause": CLAUSE[clause], "guards": gs, "python": D.program_src(prog)})
            rep.obligation("spec-on-observed:inclusions+faults", n_spec == 0,
                           "%d class statements checked in Coq, %d clause failures" % (
                               sum(1 for p, _, _ in cases for s in p if s[0] == "def"), n_spec))
            bad = [(ci, m) for ci, m in enumerate(mism) if m and id(cases[ci][0]) not in not_faithful]
            rep.cov["streams"]["hierarchy"]["programs_with_listed_constants_defect_not_compared"] = len(
                [1 for ci, m in enumerate(mism) if m and id(cases[ci][0]) in not_faithful])
            rep.obligation("correspondence:define", not bad, "%d programs (%d steps), %d with mismatches" % (
                len(cases), n_steps, len(bad)))
            if len(unm) * 5 > len(cases):
                rep.broken("correspondence:define/domain", "%d of %d programs fall outside the model" % (len(unm), len(cases)))
            if bad and not any(not v["no_input"] for v in rep.violations):
                ci, m = bad[0]
                prog, outs, gs = cases[ci]
                rep.broken("correspondence:define",
                           "model (Struct/Define.v) and typedpy differ on %d generated programs (first: step %s); "
                           "no clause of C14 failed on any explored input" % (len(bad), m),
                           {"python": D.program_src(prog), "steps": m, "guards": gs, "program": prog,
                            "observed": [outs[i][1:] for i in m]})
    if not proofs_ok:
        from harness.props.c17 import broken_build
        broken_build(rep)
    rep.assumptions += [
        "re.match is an oracle (Section variable), instantiated per case from the real re module (default validation)",
        "class objects are values keyed by class name (each class of a program has its own name); plain mix-in classes carry no attributes",
        "a statement gives a field at most one of `default=` and `= value`; field declarations contain no class references",
        "programs on which the implementation shows the listed defect C14-constant-shadows-field-override (reported as a finding "
        "with the program as replay) are not compared with the model, whose _constants follow the MRO",
        "the ImmutableField subclass fault is checked on the implementation only (model: define_field_class, not corresponded)",
    ]
    return rep.finish(
        rule="programs = hierarchies of depth <= %d (1-3 roots incl. AbstractStructure children, 1-2 Structure bases per class, "
             "mix-ins in any position, own/redeclared/inherited names, _required/_optional naming own and inherited fields, "
             "defaults by default= and by '=', constants), guards on/off; plus every single-fault variant (13 kinds) of a valid "
             "class statement placed on top of a hierarchy, guard-dependent ones under both settings; declarations at random as "
             "bare Field class / python type; ENUMERATED: hierarchy shapes (13) x subsets of overriding classes x override kinds "
             "(quick: kinds in rotation), default faults = field spellings (63) x default spellings (6) x values x placements "
             "(quick: 2 placements per combination in rotation; thorough: all 10); distinct = distinct "
             "(#bases, #members, _required?, _optional?, outcome, member kinds) / (fault kind, guards, outcome)" % max_depth)


def replay(obj):
    if obj.get("lattice") == "default":
        return L.replay_default(obj)
    if obj.get("lattice") == "name":
        return L.replay_name(obj)
    prog = obj.get("program")
    if prog is None:
        print(obj.get("detail", "no program recorded"))
        return 2
    if not prog:
        ns = D.fresh_ns()
        try:
            print("AbstractStructure() ->", ns["AbstractStructure"]())
            return 1
        except TypeError as ex:
            print("AbstractStructure() raises", ex)
            return 0
    gs = tuple(obj.get("guards") or (True, True))
    prog2, outs, ns = run_steps(prog, gs)
    print(D.program_src(prog2)[len(D.IMPORTS):])
    for st, o in zip(prog2, outs):
        print(" ", D.step_name(st), "->", o[1:] if o[0] != "mixin" else "mixin")
    bad = 0
    try:
        mism, spec, unm = evaluate([(prog2, outs, gs)], tag="c14replay")
        for step, clause in spec[0]:
            print("clause fails at step %d: %s" % (step, CLAUSE[clause]))
            bad = 1
        if mism[0]:
            print("model/implementation mismatch at steps", mism[0])
    except RuntimeError as ex:
        print(ex)
    rep = core.Report("C14", "quick")
    found = []
    inherited_clauses(random.Random(5), prog2, ns, D.field_ast_map(prog2, ns), rep, lambda k, w, d: found.append((k, w)), 6)
    fm2 = D.field_ast_map(prog2, ns)
    L.mro_clauses(prog2, ns, lambda k, w, d: found.append((k, w)), base_values(random.Random(5), prog2, ns, fm2))
    for k, w in found:
        print("implementation-side clause fails:", k, "|", w)
        bad = 1
    print("recorded finding:", obj.get("finding_key"))
    return bad
