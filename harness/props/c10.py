"""C10 — trusted and fast shortcut paths equal the validated paths on valid data.

Proof obligations: Props/C10.v (models: Ser/Trusted.v, Ser/Fast.v, Struct/Instance.v construct).
Three streams, each compared with the model inside Coq (Check/C10chk.v) and judged on the real
implementation's observed behaviour by the property's own clauses (==, Serializer output, twin class):
  deser       : deserialize_structure(cls, doc) vs deserialize_structure(cls, doc, direct_trusted_mapping=True)
  from_trusted: cls(**kw) vs cls.from_trusted_data(None, **kw) and trust_supplied_values(True)
  fast        : create_serializer(F, compact, serialize_none); x.serialize() vs Serializer(twin).serialize(compact)
"""
import copy
import json
import random

from harness import core
from harness import coqemit as E
from harness import fieldgen as G
from harness import structgen as S
from harness import c10gen as T

HEADER = """From Coq Require Import ZArith NArith String List Bool. Import ListNotations.
From TP Require Import Check.C10chk.
Local Open Scope string_scope.
"""

_uid = [0]


def fresh(prefix):
    _uid[0] += 1
    return "%s%d" % (prefix, _uid[0])


def outcome_of(fn, attrs=S.struct_attrs, strip=None):
    try:
        v = fn()
    except Exception as ex:  # noqa
        return ("raise", E.exn_name(ex)), None
    r = E.reify(v, attrs)
    if strip:
        r = rename_structs(r, strip)
    return ("ok", r), v


def rename_structs(r, suffix):
    t = r[0]
    if t == "struct":
        n = r[1][:-len(suffix)] if r[1].endswith(suffix) else r[1]
        return ("struct", n, [(k, rename_structs(v, suffix)) for k, v in r[2]])
    if t in ("list", "tuple", "deque"):
        return (t, [rename_structs(x, suffix) for x in r[1]])
    if t == "set":
        return (t, r[1], [rename_structs(x, suffix) for x in r[2]])
    if t == "dict":
        return (t, [(rename_structs(k, suffix), rename_structs(v, suffix)) for k, v in r[1]])
    return r


def debug_dump(name, rows):
    import os
    if os.environ.get("C10_DEBUG"):
        for src, obs in rows[:int(os.environ["C10_DEBUG"])]:
            print("#### MISMATCH", name)
            print(src[len(T.IMPORTS):] if src.startswith(T.IMPORTS) else src)
            print("observed:", obs)


def jsonable(v):
    try:
        json.dumps(v)
        return True
    except Exception:  # noqa
        return False


# =================================================================== stream 1: trusted deserialization

def gen_env(rnd, fast=False, p_mapper=0.45, reuse=None):
    """[inner..., outer]: inner classes are flat ("simple" leaves only); the outer may refer to them."""
    inners = []
    for _ in range(rnd.choice([0, 1, 1, 2])):
        # a later inner class may itself refer to the earlier (flat) ones: nesting depth 3
        deeper = [c["name"] for c in inners] if inners and rnd.random() < 0.4 else ()
        inners.append(T.gen_class(rnd, fresh("In"), deeper, simple=not deeper and rnd.random() < 0.8,
                                  fast=fast and rnd.random() < 0.9, p_mapper=p_mapper * 0.7))
    # a class nested two levels down keeps no TO_CAMELCASE / TO_LOWERCASE mapper of its own: the regular
    # DEserializer stacks such mappers differently at depth 3 than at depth 2 (it cannot read back what the
    # regular serializer writes there - round trip, property C08, not the subject of this check)
    used_by_inner = {n for c in inners for n in T_refs(c)}
    for c in inners:
        if c["name"] in used_by_inner and c.get("mapper") in ("camel", "upper"):
            c["mapper"] = None
    name = fresh("K")
    if reuse is not None:
        # the same class NAME for a different declaration (the eligibility verdict is cached per class object)
        if reuse and rnd.random() < 0.15:
            name = rnd.choice(reuse)
        else:
            reuse.append(name)
            del reuse[:-6]
    outer = T.gen_class(rnd, name, [c["name"] for c in inners], fast=fast, p_mapper=p_mapper)
    for c in inners + [outer]:
        if len(c["fields"]) >= 2 and rnd.random() < 0.2:
            c["split"] = rnd.randint(1, len(c["fields"]) - 1)     # written as base class + subclass
    return inners + [outer]


def T_refs(c):
    out = []

    def go(ty):
        if ty["t"] == "ref":
            out.append(ty["cls"])
        elif ty["t"] in ("array", "set"):
            go(ty["item"])
        elif ty["t"] == "opt":
            go(ty["f"])
    for fd in c["fields"]:
        go(fd["ty"])
    return out


def oracle_tables_deser(env, doc):
    """sdeser / ostore tables over every sub-value of the document, from the real field objects."""
    sers, others = T.kinds_in(env)
    vals = T.subvalues(doc, [])
    seen, uniq = set(), []
    for v in vals:
        r = E.reify(v)
        if repr(r) not in seen:
            seen.add(repr(r))
            uniq.append((v, r))
    ns = {}
    exec(T.IMPORTS, ns)
    sd, ost = {}, {}
    for kind in sers:
        i, src = T.SER[kind]
        field = eval(src, ns)
        field._name = "f"
        rows = []
        for v, r in uniq:
            o, _ = outcome_of(lambda: field.deserialize(copy.deepcopy(v)))
            rows.append((r, o))
        sd[i] = rows
    for kind in others:
        i, src, _ = T.OTHER[kind]
        exec("class _S(Structure):\n    f = %s\n    _required = []\n"
             "class _SA(Structure):\n    f = Array[%s]\n    _required = []\n" % (src, src), ns)
        cls, cls_a = ns["_S"], ns["_SA"]
        from typedpy import deserialize_structure
        rows = []
        for v, r in uniq:
            def run(v=v):
                if v is None:
                    # a null document value means "absent" for a field; as an ELEMENT of a collection of such
                    # fields (the only place the model asks about it) it is a value like any other
                    x = deserialize_structure(cls_a, {"f": [None]}, keep_undefined=False)
                    return x.__dict__.get("f")[0]
                x = deserialize_structure(cls, {"f": copy.deepcopy(v)}, keep_undefined=False)
                return x.__dict__.get("f")
            o, _ = outcome_of(run)
            rows.append((r, o))
        ost[i] = rows
    return sd, ost


def run_deser_case(env, doc, ku):
    """Runs both paths on the real implementation; returns the observation dict."""
    from typedpy import deserialize_structure, Serializer
    from typedpy.serialization.serialization import _structure_simplicity_level
    ns = T.realize(env)
    envd = {c["name"]: c for c in env}
    cls = ns[env[-1]["name"]]
    try:
        lv = _structure_simplicity_level(cls)
        level = 0 if not lv else (1 if lv.name == "not_nested" else 2)
    except Exception:  # noqa
        level = 3
    reg_o, reg = outcome_of(lambda: deserialize_structure(cls, copy.deepcopy(doc), keep_undefined=ku))
    tr_o, tr = outcome_of(lambda: deserialize_structure(cls, copy.deepcopy(doc), keep_undefined=ku,
                                                        direct_trusted_mapping=True))
    obs = {"level": level, "reg": reg_o, "tr": tr_o, "clause": None}
    if reg_o[0] == "ok":
        reg_s, _ = outcome_of(lambda: Serializer(reg).serialize())
        if tr_o[0] != "ok":
            obs["clause"] = "raises:" + tr_o[1]
        else:
            used = bool(tr.used_trusted_instantiation())
            obs["used"] = used
            try:
                eq = bool(reg == tr) and bool(tr == reg)
            except Exception as ex:  # noqa
                eq = False
            tr_s, _ = outcome_of(lambda: Serializer(tr).serialize())
            if not eq:
                obs["clause"] = "not-equal"
            elif reg_s[0] == "ok" and tr_s[0] != "ok":
                obs["clause"] = "serialize-raises:" + tr_s[1]
            elif reg_s[0] == "ok" and not (canon_ser(Serializer(reg).serialize(), env[-1], envd) ==
                                           canon_ser(Serializer(tr).serialize(), env[-1], envd)):
                obs["clause"] = "serializes-differently"
            elif level in (0, 3) and used:
                obs["clause"] = "ineligible-but-trusted"
            obs["strict_same"] = (reg_o == tr_o)
    return obs


def canon_ser(doc, c, envd, inh=()):
    """Serialized document of an instance of class AST c with the lists that come from Set fields sorted:
    the iteration order of a set is not part of the document."""
    if not isinstance(doc, dict):
        return doc
    out = dict(doc)
    child_inh = T.special(c.get("mapper")) + list(inh)

    def canon_val(ty, v, inh2):
        t = ty["t"]
        if t == "opt":
            return canon_val(ty["f"], v, [])
        if t == "ref" and isinstance(v, dict):
            return canon_ser(v, envd[ty["cls"]], envd, inh2)
        if t in ("array", "set") and isinstance(v, list):
            items = [canon_val(ty["item"], x, inh2) for x in v]
            if t == "set":
                items = sorted(items, key=lambda x: json.dumps(x, sort_keys=True, default=repr))
            return items
        return v
    for fd in c["fields"]:
        key = T.reg_key(inh, c, fd["name"])
        if key in out:
            out[key] = canon_val(fd["ty"], out[key], child_inh)
    return out


# ---- the catalogue of declaration / document features outside the proved-safe fragment -------------

def py_eligible(envd, cname, seen=()):
    """Python-side reading of the classifier (only used to name findings)."""
    c = envd[cname]
    if mapper_unsupported(c.get("mapper")) or cname in seen:
        return False
    for fd in c["fields"]:
        ty = fd["ty"]
        t = ty["t"]
        if t in T.LEAVES or t in ("opt", "union"):
            continue
        if t in ("array", "set"):
            it = ty["item"]
            if it["t"] in T.LEAVES or (it["t"] == "ref" and py_eligible(envd, it["cls"], seen + (cname,))):
                continue
            return False
        if t == "ref" and py_eligible(envd, ty["cls"], seen + (cname,)):
            continue
        return False
    return True


def is_none_leaf(l):
    return l["t"] == "prim" and l["f"]["t"] == "none"


def needs_processing(tf):
    """the regular deserializer changes the document value of such a field (beyond validation)"""
    t = tf["t"]
    if t == "prim":
        return False
    if t == "enumlit":
        return False
    if t in ("enum", "ser", "ref", "set"):
        return True
    if t == "array":
        return needs_processing(tf["item"])
    if t == "other":
        return tf["kind"] in ("map_str_date", "tuple")
    return True


def has_bool_string(tf, v):
    t = tf["t"]
    if t == "prim":
        return tf["f"]["t"] == "bool" and isinstance(v, str)
    if t in ("array", "set") and isinstance(v, list):
        return any(has_bool_string(tf["item"], x) for x in v)
    if t == "opt":
        return has_bool_string(tf["f"], v)
    if t == "union":
        return isinstance(v, str) and v in ("True", "False") and any(l["t"] == "prim" and l["f"]["t"] == "bool" for l in tf["ls"])
    return False


def field_tags(tf, v, envd, level_nested):
    """Tags of one field given its (non-None) document value."""
    tags = set()
    t = tf["t"]
    if has_bool_string(tf, v):
        tags.add("boolean-from-string")
    if t == "enum" and tf["byv"]:
        tags.add("enum-by-value")
    if t == "opt":
        f = tf["f"]
        # AnyOf[None, T] is processed like AnyOf[T, None] (_extract_non_nonefield_from_optional returns the option that
        # is not None); the tag names the shape that an implementation returning fields[0] stores unprocessed
        if tf["nf"] and needs_processing(f):
            tags.add("optional-none-first")
        if f["t"] == "enum" and f["byv"]:
            tags.add("enum-by-value")
        if f["t"] == "other" and needs_processing(f):
            tags.add("optional-unchecked")
        if f["t"] in ("array", "set") and f["item"]["t"] not in T.LEAVES + ("ref",):
            tags.add("optional-unchecked")
        tags |= {x for x in field_tags(f, v, envd, True) if x in (
            "array-of-serializable", "set-of-number", "boolean-from-string", "nested")}
        rc = f["cls"] if f["t"] == "ref" else (f["item"]["cls"] if f["t"] in ("array", "set") and f["item"]["t"] == "ref" else None)
        if rc is not None and not py_eligible(envd, rc):
            tags.add("optional-unchecked")      # an ineligible class reached through Optional[...]
    if t == "array" and tf["item"]["t"] in ("ser", "enum", "enumlit"):
        tags.add("array-of-serializable")
    if (t in ("opt", "union") or (t == "prim" and tf["f"]["t"] == "none")) and v in ([], {}):
        tags.add("empty-container-for-optional")
    if t == "opt" and not tf["nf"] and tf["f"]["t"] == "enumlit":
        tags.add("optional-literal-enum")
    if t == "union" and any(is_none_leaf(l) for l in tf["ls"]) and tf["ls"][0]["t"] == "enumlit":
        tags.add("optional-literal-enum")
    if t == "set" and tf["item"]["t"] == "prim" and tf["item"]["f"]["t"] == "num" and tf["item"]["f"]["k"] == "Number":
        tags.add("set-of-number")
    if t == "set" and tf["item"]["t"] == "other":
        tags.add("set-of-other")
    if t == "union":
        if not any(is_none_leaf(l) for l in tf["ls"]):
            tags.add("union-without-none")
        elif tf["ls"][0]["t"] == "enum" and v and not union_enum_hit(tf["ls"][0], v):
            tags.add("union-enum-first")     # the value of another option is looked up as a member name / value
        if any(l["t"] in ("ser", "enum") for l in tf["ls"]):
            tags.add("union-serializable-option")    # (with or without a None option: the value is stored as it is)
    return tags


def union_enum_hit(l, v):
    """the document value is what _get_enum_mapping's entry for the first option (an Enum over an enum class) is
    indexed by: a member name, or a member value for serialization_by_value"""
    ms = T.ENUM_MEMBERS[l["cls"]]
    if l["byv"]:
        from harness import fieldgen
        try:
            return any(fieldgen.unreify(x) == v for _, x in ms)
        except Exception:  # noqa
            return False
    return isinstance(v, str) and v in [n for n, _ in ms]


def mapper_unsupported(m):
    return m == "list" or (isinstance(m, dict) and any(v[0] != "str" or k.endswith("._mapper") for k, v in m["dict"]))


def reachable_classes(env, cname):
    """classes the classifier visits from cname (not through AnyOf)"""
    envd = {c["name"]: c for c in env}
    out, todo = [], [cname]
    while todo:
        n = todo.pop()
        if n in out:
            continue
        out.append(n)
        for fd in envd[n]["fields"]:
            ty = fd["ty"]
            if ty["t"] in ("array", "set"):
                ty = ty["item"]
            if ty["t"] == "ref":
                todo.append(ty["cls"])
    return out


def case_tags(env, doc, ku, inh=(), cname=None, top=True):
    """Every feature of (class, document) that lies outside the fragment C10_trusted covers."""
    envd = {c["name"]: c for c in env}
    c = envd[cname] if cname else env[-1]
    tags = set()
    m = c.get("mapper")
    if top and any(mapper_unsupported(envd[n].get("mapper")) for n in reachable_classes(env, c["name"])):
        tags.add("unsupported-mapper")
        return tags
    if mapper_unsupported(m):
        tags.add("unsupported-mapper")
        return tags
    if not isinstance(doc, dict):
        return {"non-dict"}
    for fd in c["fields"]:       # _get_enum_mapping(cls) inspects every AnyOf field, whatever the document holds
        ty = fd["ty"]
        if ty["t"] == "union" and not any(is_none_leaf(l) for l in ty["ls"]):
            tags.add("union-without-none")
        if ty["t"] == "opt" and not ty["nf"] and ty["f"]["t"] == "enumlit":
            tags.add("optional-literal-enum")
        if ty["t"] == "union" and any(is_none_leaf(l) for l in ty["ls"]) and ty["ls"][0]["t"] == "enumlit":
            tags.add("optional-literal-enum")
    names = [fd["name"] for fd in c["fields"]]
    ku2 = ku and m not in ("camel", "upper")
    extras = [k for k in doc if k not in names]
    if ku2 and c.get("additional") is not False and extras:
        tags.add("undefined-key-kept")
    child_inh = T.special(m) + list(inh)
    for fd in c["fields"]:
        k = fd["name"]
        key = T.reg_key(inh, c, k)
        own = T.own_key(m, k)
        if "." in key:
            tags.add("mapper-dotted-key")
        present = [x for x in (key, own, k) if x in doc]
        if len(set(present)) > 1:
            tags.add("both-mapped-and-own-key")
        v = doc.get(key)
        if v is None:
            v = doc.get(k)
        if v is None and key != own and doc.get(own) is not None:
            tags.add("mapper-inherited-by-nested")   # only the trusted path reads this key
        if v is None:
            if fd.get("default") is not None:
                tags.add("default-not-applied")
            continue
        if key != own and key in doc:
            tags.add("mapper-inherited-by-nested")
        tags |= field_tags(fd["ty"], v, envd, True)
        ty = fd["ty"]
        sub_inh = child_inh
        if ty["t"] == "opt":
            ty = ty["f"]
            sub_inh = []
        if ty["t"] == "ref" and isinstance(v, dict):
            tags |= case_tags(env, v, ku2, sub_inh, ty["cls"], False)
        if ty["t"] in ("array", "set") and ty["item"]["t"] == "ref" and isinstance(v, list):
            for x in v:
                if isinstance(x, dict):
                    tags |= case_tags(env, x, ku2, sub_inh, ty["item"]["cls"], False)
                    if ty["t"] == "set" and not_identical_doc(envd[ty["item"]["cls"]], x, envd):
                        # equal (==) elements whose str(), hence hash, differs: the two sets compare unequal
                        tags.add("set-of-structures-hash")
    return tags


def not_identical_val(ty, v, envd=None):
    t = ty["t"]
    if v is None:
        return True
    if t == "opt":
        return not_identical_val(ty["f"], v, envd)
    if t == "prim":
        return ty["f"]["t"] == "num" and ty["f"]["k"] == "Float" and isinstance(v, int) and not isinstance(v, bool)
    if t == "set" and isinstance(v, list) and len({repr(x) for x in v}) > 1:
        return True       # str() of a set follows its iteration order, which depends on the insertion order
    if t in ("array", "set") and isinstance(v, list):
        return any(not_identical_val(ty["item"], x, envd) for x in v)
    if t == "ref" and isinstance(v, dict) and envd is not None:
        return not_identical_doc(envd[ty["cls"]], v, envd)      # nested structures print differently as well
    if t == "union":
        return isinstance(v, int) and not isinstance(v, bool) and any(
            l["t"] == "prim" and l["f"]["t"] == "num" and l["f"]["k"] == "Float" for l in ty["ls"])
    return False


def not_identical_doc(c, d, envd=None):
    """the trusted path stores something not identical to the validated value (1 for 1.0, a None attribute)"""
    keys = {}
    for fd in c["fields"]:
        keys.setdefault(fd["name"], fd)
        keys.setdefault(T.own_key(c.get("mapper"), fd["name"]), fd)
        for m in ("camel", "upper"):          # a key produced by a mapper inherited from an outer class
            keys.setdefault(T.own_key(m, T.own_key(c.get("mapper"), fd["name"])), fd)
    for k, v in d.items():
        if v is None:
            return True
        if k in keys and not_identical_val(keys[k]["ty"], v, envd):
            return True
    return False


# (the shapes whose defect is repaired in typedpy - none-first Optionals, Set[Number] - come last: a case that shows one of
# them AND an open design limit of the shortcut is explained by the latter)
PRIORITY = ["classifier-accepts-ineligible", "unsupported-mapper", "union-without-none", "optional-literal-enum", "enum-by-value", "union-enum-first",
            "array-of-serializable", "optional-unchecked", "set-of-other",
            "union-serializable-option", "empty-container-for-optional", "mapper-dotted-key",
            "mapper-inherited-by-nested", "both-mapped-and-own-key", "undefined-key-kept", "default-not-applied",
            "boolean-from-string", "set-of-structures-hash", "optional-none-first", "set-of-number"]
PRIORITY.remove("empty-container-for-optional")        # (repaired as well: the NoneField option no longer reads [] / {} as None)
PRIORITY.append("empty-container-for-optional")


RAISING = {"unsupported-mapper": "raises:ValueError", "union-without-none": "raises:AttributeError",
           "optional-literal-enum": "raises:AttributeError", "enum-by-value": "raises:KeyError",
           "union-enum-first": "raises:KeyError",
           "array-of-serializable": "raises:(TypeError|ValueError|AttributeError)",
           "optional-unchecked": r"raises:\w+",
           # the trusted path processes ANOTHER value than the regular path: any of its failure modes may follow
           "both-mapped-and-own-key": r"raises:\w+"}


def primary(tags, clause):
    """The feature that explains the failing clause: a crash is explained by a feature known to crash that way,
    a silent difference by a feature known to store an unprocessed value."""
    import re
    if clause == "serializes-differently" and "default-not-applied" in tags:
        return "default-not-applied"      # equal by == (getattr falls back to the default), different __dict__
    if "unsupported-mapper" in tags and "optional-unchecked" in tags and clause.startswith("raises:"):
        # the class with the unsupported mapper is reached only through an Optional the classifier did not look into
        return "optional-unchecked"
    for p in PRIORITY:
        if p in tags:
            if clause.startswith("raises:"):
                if p in RAISING and re.fullmatch(RAISING[p], clause):
                    return p
            elif p not in RAISING or p in ("array-of-serializable", "optional-unchecked", "both-mapped-and-own-key"):
                return p
    return "+".join(sorted(tags)) or "safe-fragment"


def verdict_tags(env, level):
    """the real classifier called eligible a class that today's classifier (as read in py_eligible) rejects"""
    envd = {c["name"]: c for c in env}
    if level in (1, 2) and not py_eligible(envd, env[-1]["name"]):
        return {"classifier-accepts-ineligible"}
    return set()


def reduce_case(env, doc, ku, clause):
    """Greedy simplification of a violating case while the same clause keeps failing on the real
    implementation: single field, no default, keep_undefined off, no unrelated keys."""
    def still(env2, doc2, ku2):
        try:
            o = run_deser_case(env2, doc2, ku2)
        except Exception:  # noqa
            return False
        return o["clause"] == clause
    cur = (env, doc, ku)
    if ku and still(env, doc, False):
        cur = (env, doc, False)
    env, doc, ku = cur
    outer = env[-1]
    if len(outer["fields"]) > 1:
        for fd in outer["fields"]:
            c2 = dict(outer)
            c2["fields"] = [fd]
            c2["name"] = fresh("K")
            if c2.get("required") is not None:
                c2["required"] = [r for r in c2["required"] if r == fd["name"]]
            m = c2.get("mapper")
            if isinstance(m, dict):
                c2["mapper"] = {"dict": [kv for kv in m["dict"] if kv[0] == fd["name"]]} if any(
                    kv[0] == fd["name"] for kv in m["dict"]) else None
            keys = {T.reg_key([], c2, fd["name"]).split(".")[0], fd["name"]}
            doc2 = {k: v for k, v in doc.items() if k in keys or (k not in
                    {T.reg_key([], outer, f["name"]).split(".")[0] for f in outer["fields"]} | {f["name"] for f in outer["fields"]})}
            env2 = env[:-1] + [c2]
            if still(env2, doc2, ku):
                cur = (env2, doc2, ku)
                break
    env, doc, ku = cur
    outer = env[-1]
    fd0 = outer["fields"][0]
    if len(outer["fields"]) == 1 and fd0.get("default") is not None:
        c2 = copy.deepcopy(outer)
        c2["fields"][0]["default"] = None
        c2["name"] = fresh("K")
        if still(env[:-1] + [c2], doc, ku):
            cur = (env[:-1] + [c2], doc, ku)
    env, doc, ku = cur
    if env[-1].get("mapper") is not None:
        c2 = copy.deepcopy(env[-1])
        c2["mapper"] = None
        c2["name"] = fresh("K")
        doc2 = dict(doc)
        for fd in c2["fields"]:
            key = T.reg_key([], env[-1], fd["name"])
            if key in doc2 and "." not in key:
                doc2[fd["name"]] = doc2.pop(key)
        if still(env[:-1] + [c2], doc2, ku):
            cur = (env[:-1] + [c2], doc2, ku)
    return cur


def deser_python(env, doc, ku):
    return (T.env_src(env) + "\nfrom typedpy import deserialize_structure, Serializer\n"
            "doc = %r\nreg = deserialize_structure(%s, doc, keep_undefined=%r)\n"
            "tr = deserialize_structure(%s, doc, keep_undefined=%r, direct_trusted_mapping=True)\n"
            "print(reg, tr, reg == tr, Serializer(reg).serialize() == Serializer(tr).serialize())\n"
            % (doc, env[-1]["name"], ku, env[-1]["name"], ku))


def emit_dcase(env, doc, ku, sd, ost, obs):
    return ("{| dc_env := %s; dc_cls := %s; dc_ku := %s; dc_doc := %s; dc_sdeser := %s; dc_ostore := %s; "
            "dc_level := %s; dc_reg := %s; dc_tr := %s |}") % (
        T.emit_env(env), E.pstr(env[-1]["name"]), E.blit(ku), E.pval(E.reify(doc)),
        T.emit_otable(sd), T.emit_otable(ost), E.nlit(obs["level"]), E.outcome(obs["reg"]), E.outcome(obs["tr"]))


def eval_shards(items, ctype, fns, tag, per=150, header=None):
    """items: Gallina case literals.  Returns {fn: [indices]} or raises RuntimeError."""
    shards = []
    for s in range(0, len(items), per):
        body = "Definition cases : list %s := %s.\n" % (ctype, E.lst(["\n " + i for i in items[s:s + per]]))
        shards.append(body)
    return eval_bodies(shards, fns, tag, per, header)


def eval_bodies(shards, fns, tag, per, header=None):
    """shards: Coq texts each defining `cases` (per cases each); appends the Eval commands, runs them."""
    shards = [b + "".join("Eval vm_compute in (indices_where %s cases 0).\n" % fn for fn in fns) for b in shards]
    res = core.eval_cases(shards, tag, header or HEADER)
    # a coqc process killed from outside (out-of-memory killer on a loaded machine: non-zero exit, no Coq error
    # message) says nothing about the cases: evaluate those shards again, one after the other
    for attempt in range(2):
        dead = [i for i, (rc, so, se) in enumerate(res) if rc != 0 and "Error" not in (so + se)]
        if not dead:
            break
        for i in dead:
            res[i] = core.eval_cases([shards[i]], tag + "r", header or HEADER)[0]
    out = {fn: [] for fn in fns}
    for si, (rc, so, se) in enumerate(res):
        vals = core.parse_eval(so)
        if rc != 0 or len(vals) != len(fns):
            raise RuntimeError("case shard %d failed to evaluate: %s" % (si, (so + se)[-1500:]))
        for fn, v in zip(fns, vals):
            out[fn] += [si * per + i for i in core.parse_nat_list(v)]
    return out


def stream_deser(rep, rnd, n, model_ok):
    cases = []
    tries = 0
    reuse = []
    while len(cases) < n and tries < n * 4:
        tries += 1
        env = gen_env(rnd, reuse=reuse)
        envd = {c["name"]: c for c in env}
        ku = rnd.random() < 0.2
        try:
            T.realize(env)
        except Exception:  # noqa  the declaration itself is rejected by typedpy
            rep.stat("deser", "declaration-rejected")
            continue
        for _ in range(rnd.randint(1, 3)):
            doc = T.class_doc(rnd, env[-1], envd, [], ku)
            if rnd.random() < 0.12:
                doc = T.corrupt_doc(rnd, doc)
            cases.append((env, doc, ku))
    cases = cases[:n]
    observed, items, reported = [], [], {}
    accepted = eligible = 0
    for env, doc, ku in cases:
        obs = run_deser_case(env, doc, ku)
        observed.append(obs)
        tags = sorted(case_tags(env, doc, ku))
        rep.count("deser", 1, (repr([[fd["ty"] for fd in c["fields"]] + [c.get("mapper")] for c in env])[:400],
                               obs["reg"][0], obs["tr"][0]))
        rep.stat("deser", "level:%s" % ["ineligible", "not_nested", "nested", "mapper-raises"][obs["level"]])
        rep.stat("deser", "regular:" + (obs["reg"][0] if obs["reg"][0] == "ok" else obs["reg"][1]))
        if obs["reg"][0] == "ok":
            accepted += 1
            eligible += obs["level"] in (1, 2)
            rep.stat("deser", "accepted:" + ("safe-fragment" if not tags else "+".join(tags)))
            if obs.get("strict_same") is False and obs["clause"] is None:
                rep.stat("deser", "equal-by-==-but-not-identical(e.g. 1 vs 1.0, None attribute)")
        if obs["clause"]:
            env2, doc2, ku2 = (env, doc, ku)
            sig = (obs["clause"], tuple(tags))
            if reported.get(sig, 0) < 3 and len(tags) != 1:
                env2, doc2, ku2 = reduce_case(env, doc, ku, obs["clause"])
            reported[sig] = reported.get(sig, 0) + 1
            tags2 = sorted(case_tags(env2, doc2, ku2) | verdict_tags(env2, obs["level"])) or ["safe-fragment"]
            which = "ineligible" if obs["level"] in (0, 3) else "trusted"
            key = "C10/%s/%s/%s" % (which, primary(tags2, obs["clause"]), obs["clause"])
            rep.finding(key, "direct_trusted_mapping=True on a document the regular path accepts: %s (%s)" % (
                obs["clause"], ", ".join(tags2)),
                {"stream": "deser", "env": env2, "doc": doc2, "keep_undefined": ku2, "clause": obs["clause"],
                 "python": deser_python(env2, doc2, ku2), "found_in": {"env": env, "doc": doc, "keep_undefined": ku}})
        if model_ok:
            sd, ost = oracle_tables_deser(env, doc)
            items.append(emit_dcase(env, doc, ku, sd, ost, obs))
    rep.sample({"stream": "deser", "classes": T.env_src(cases[0][0])[len(T.IMPORTS):], "doc": repr(cases[0][1]),
                "observed": repr(observed[0])})
    s = rep.cov["streams"]["deser"]
    s["accepted_by_regular"] = accepted
    s["accepted_and_eligible"] = eligible
    if not (0.5 <= accepted / max(1, len(cases))):
        rep.broken("generator:deser-accept-rate", "only %d of %d documents accepted by the regular path: inconclusive"
                   % (accepted, len(cases)))
    viol = sum(1 for o in observed if o["clause"])
    rep.obligation("spec-on-observed:deser", viol == 0, "%d accepted documents, %d violate the clause" % (accepted, viol))
    if model_ok:
        fns = ["d_level_mismatch", "d_reg_mismatch", "d_tr_mismatch", "d_undecided", "d_model_paths_differ"]
        try:
            r = eval_shards(items, "dcase", fns, "c10d")
        except RuntimeError as ex:
            rep.broken("correspondence:deser/coq-eval", str(ex))
            return
        if r["d_level_mismatch"]:
            # directed search: the classifier's verdict changed for these classes; look for a document on
            # which the changed verdict breaks the property itself
            hits = 0
            for i in r["d_level_mismatch"][:25]:
                env, _, ku = cases[i]
                envd = {c["name"]: c for c in env}
                for _ in range(8):
                    doc = T.class_doc(rnd, env[-1], envd, [], ku)
                    o = run_deser_case(env, doc, ku)
                    if o["clause"]:
                        tags2 = sorted(case_tags(env, doc, ku) | verdict_tags(env, o["level"])) or ["safe-fragment"]
                        which = "ineligible" if o["level"] in (0, 3) else "trusted"
                        rep.finding("C10/%s/%s/%s" % (which, primary(tags2, o["clause"]), o["clause"]),
                                    "classifier verdict differs from the model and the paths disagree: %s" % o["clause"],
                                    {"stream": "deser", "env": env, "doc": doc, "keep_undefined": ku, "clause": o["clause"],
                                     "python": deser_python(env, doc, ku)})
                        hits += 1
                        break
            s["directed_search_hits"] = hits
        s["outside_model_domain_skipped"] = len(r["d_undecided"])
        s["model_predicts_paths_differ"] = len(r["d_model_paths_differ"])
        for name, what in (("d_level_mismatch", "eligible (classifier)"), ("d_reg_mismatch", "deser_regular"),
                           ("d_tr_mismatch", "deser_trusted")):
            rep.obligation("correspondence:" + what, not r[name], "%d cases, %d mismatches" % (len(cases), len(r[name])))
            debug_dump(name, [(deser_python(*cases[i]), observed[i]) for i in r[name]])
            if r[name]:
                i = r[name][0]
                env, doc, ku = cases[i]
                # a mismatch of the model is a violation only through a clause failure; without one it is
                # reported as a broken correspondence
                if not any(not v["no_input"] for v in rep.violations):
                    rep.broken("correspondence:" + what,
                               "model (Ser/Trusted.v) and typedpy differ on %d generated cases (%s)" % (len(r[name]), name),
                               {"stream": "deser", "env": env, "doc": doc, "keep_undefined": ku,
                                "observed": repr(observed[i]), "python": deser_python(env, doc, ku)})
        # the model predicts a difference exactly where the implementation shows one
        pred = set(r["d_model_paths_differ"])
        und = set(r["d_undecided"])
        miss = [i for i, o in enumerate(observed) if o["reg"][0] == "ok" and i not in und and
                (o.get("strict_same") is False or o["tr"][0] != "ok") != (i in pred)]
        rep.obligation("model-verdict-matches-observed:deser", not miss, "%d disagreements" % len(miss))


# =================================================================== stream 2: from_trusted_data

def emit_kcase(ctx, name, kw, cons, tr):
    c = ctx.ast(name)
    # strings the patterns are matched against: the arguments and the declared defaults
    tbl = G.match_table([fd["field"] for fd in c["fields"]],
                        [v for _, v in kw] + [fd["default"] for fd in c["fields"] if fd.get("default") is not None])
    return "{| kc_tbl := %s; kc_env := env0; kc_cls := %s; kc_kw := %s; kc_cons := %s; kc_trusted := %s |}" % (
        G.emit_table(tbl), ctx.emit_classdef(name), E.lst(["(%s, %s)" % (E.pstr(k), E.pval(v)) for k, v in kw]),
        E.outcome(cons), E.outcome(tr))


def has_other(r):
    if r[0] == "other":
        return True
    if r[0] in ("list", "tuple", "deque"):
        return any(has_other(x) for x in r[1])
    if r[0] == "set":
        return any(has_other(x) for x in r[2])
    if r[0] == "dict":
        return any(has_other(k) or has_other(v) for k, v in r[1])
    if r[0] == "struct":
        return any(has_other(v) for _, v in r[2])
    return False


def diff_reason(g, s):
    """Why the stored (validated) value s differs from the given argument g."""
    import enum
    import collections
    if isinstance(s, enum.Enum) and isinstance(g, str):
        return "enum-from-name"
    if isinstance(s, bool) and isinstance(g, str):
        return "boolean-from-string"
    if isinstance(g, (list, tuple, collections.deque)) and isinstance(s, (list, tuple, collections.deque)) and len(g) == len(s):
        for x, y in zip(g, s):
            r = diff_reason(x, y)
            if r:
                return r
        return None
    if isinstance(g, dict) and isinstance(s, dict) and len(g) == len(s):
        for (k1, v1), (k2, v2) in zip(g.items(), s.items()):
            r = diff_reason(k1, k2) or diff_reason(v1, v2)
            if r:
                return r
        return None
    try:
        if g == s:
            return None
    except Exception:  # noqa
        pass
    return "unexplained:%s->%s" % (type(g).__name__, type(s).__name__)


def deep_scan(v, pred):
    import collections
    if pred(v):
        return True
    if isinstance(v, dict):
        return any(deep_scan(k, pred) or deep_scan(x, pred) for k, x in v.items())
    if isinstance(v, (list, tuple, set, frozenset, collections.deque)):
        return any(deep_scan(x, pred) for x in v)
    return False


def may_collide(r):
    """A set / dict / list argument (reified) holding two different elements that the item field normalises to the
    same stored value: True and 'True', an enum member and its name.  The size / uniqueness rules are then checked
    on other elements than the stored ones (findings C01-normalised-collision / C02-normalised-collision of the
    shared __set__ model), so what the constructor does with such an argument is not this check's subject."""
    t = r[0]
    if t in ("list", "tuple", "deque"):
        elems = list(r[1])
    elif t == "set":
        elems = list(r[2])
    elif t == "dict":
        elems = [k for k, _ in r[1]]
        if any(may_collide(v) for _, v in r[1]):
            return True
    elif t == "struct":
        return any(may_collide(v) for _, v in r[2])
    else:
        return False
    if any(may_collide(x) for x in elems):
        return True
    bools = {x[1] for x in elems if x[0] == "bool"}
    strs = {x[1] for x in elems if x[0] == "str"}
    if any(repr(b) in strs for b in bools):
        return True
    return any(x[0] == "enum" and x[2] in strs for x in elems)


def ft_key_reason(c, real, cons_inst):
    import enum
    for n in sorted(real):
        g, st = real[n], cons_inst.__dict__.get(n)
        r = diff_reason(g, st)
        if r and r.startswith("unexplained"):
            # containers whose shape changed (colliding keys after normalisation): name the normalisation
            if deep_scan(g, lambda x: isinstance(x, str) and x in ("True", "False")) and deep_scan(st, lambda x: isinstance(x, bool)):
                r = "boolean-from-string"
            elif deep_scan(st, lambda x: isinstance(x, enum.Enum) and deep_scan(g, lambda y: isinstance(y, str) and y == x.name)):
                r = "enum-from-name"
        if r:
            return "C10/from_trusted/" + r
    return "C10/from_trusted/unexplained"


def ft_key(c, kw, cons_inst, tr_inst):
    """Names the first field on which the two instances differ: field kind / argument kind."""
    by = {fd["name"]: fd for fd in c["fields"]}
    kwd = dict(kw)
    for n in sorted(by):
        try:
            a, b = getattr(cons_inst, n), getattr(tr_inst, n)
            same = bool(a == b)
        except Exception:  # noqa
            same = False
        if not same:
            f = by[n]["field"]
            t = f["t"] if f["t"] != "num" else "num:" + f["k"]
            if n not in kwd:
                return "C10/from_trusted/%s/absent-default" % t
            return "C10/from_trusted/%s/%s" % (t, kwd[n][0])
    return "C10/from_trusted/other"


def stream_from_trusted(rep, rnd, n, model_ok):
    ctx0 = S.Context()
    items, cases = [], []
    collide = set()
    viol = ok_cons = 0
    per_ctx = 12
    ctxs = []
    while len(cases) < n:
        c = S.gen_class(rnd, fresh("FT"), ctx_names=("Inner",), max_depth=2, allow_hook=False,
                        allow_defaults=True, container_bias=0.25)
        # a few defaults, to straddle "defaults are only applied by the validated path"
        for fd in c["fields"]:
            if fd["field"]["t"] in ("num", "str") and rnd.random() < 0.1:
                try:
                    fd["default"] = G.gen_valid(rnd, fd["field"])
                except Exception:  # noqa
                    pass
        try:
            ctx = S.Context(extra=[c])
        except Exception:  # noqa
            rep.stat("from_trusted", "declaration-rejected")
            continue
        cls = ctx.classes[c["name"]]
        for _ in range(per_ctx):
            kw = S.gen_kwargs(rnd, c, ctx, p_valid=0.9)
            if any(has_other(v) for _, v in kw):     # nan / object(): not comparable by == with themselves
                continue
            try:
                real = S.realize_kwargs(kw, ctx)
            except Exception:  # noqa
                continue
            cons_o, cons = outcome_of(lambda: cls(**copy.deepcopy(real)))
            tr_o, tr = outcome_of(lambda: cls.from_trusted_data(None, **copy.deepcopy(real)))

            def marked():
                cls.trust_supplied_values(True)
                try:
                    return cls(**copy.deepcopy(real))
                finally:
                    cls.trust_supplied_values(False)
                    try:
                        del cls._trust_supplied_values
                    except AttributeError:
                        pass
            tr2_o, tr2 = outcome_of(marked)
            cases.append((c, kw))
            rep.count("from_trusted", 1, (repr([fd["field"] for fd in c["fields"]])[:300], cons_o[0]))
            rep.stat("from_trusted", "constructor:" + (cons_o[0] if cons_o[0] == "ok" else cons_o[1]))
            if tr_o != tr2_o:
                rep.finding("C10/from_trusted/marked-class-differs",
                            "trust_supplied_values(True) and from_trusted_data disagree",
                            {"stream": "from_trusted", "class": c, "kw": kw})
            if cons_o[0] == "ok":
                ok_cons += 1
                bad = tr_o[0] != "ok"
                if not bad:
                    try:
                        bad = not (cons == tr and tr == cons)
                    except Exception:  # noqa
                        bad = True
                if bad:
                    viol += 1
                    key = ft_key_reason(c, real, cons) if tr_o[0] == "ok" else "C10/from_trusted/raises:" + tr_o[1]
                    rep.finding(key, "from_trusted_data on constructor-valid arguments differs from the validated instance",
                                {"stream": "from_trusted", "class": c, "kw": kw, "validated": repr(cons), "trusted": repr(tr),
                                 "python": G.IMPORTS + ctx.source() + "\nkw = dict(%s)\nprint(%s(**kw), %s.from_trusted_data(None, **kw))\n"
                                 % (", ".join("%s=%s" % (k, G.py_src(v)) for k, v in kw), c["name"], c["name"])})
                elif cons_o != tr_o:
                    rep.stat("from_trusted", "equal-by-==-but-not-identical")
            if model_ok:
                items.append((ctx, emit_kcase(ctx, c["name"], kw, cons_o, tr_o)))
                if any(may_collide(v) for _, v in kw):
                    collide.add(len(items) - 1)
                    rep.stat("from_trusted", "argument with a normalised collision (C01/C02 finding): construct not compared")
        ctxs.append(ctx)
    rep.obligation("spec-on-observed:from_trusted", viol == 0, "%d constructor-valid argument sets, %d differ" % (ok_cons, viol))
    if model_ok and items:
        # one shard per group of contexts (env0 differs per context: emit env inline instead)
        lits = [lit.replace("kc_env := env0", "kc_env := " + ctx.coq_env().split(":=", 1)[1].rstrip(". \n")) for ctx, lit in items]
        try:
            r = eval_shards(lits, "kcase", ["k_cons_mismatch", "k_trusted_mismatch"], "c10k", per=120)
        except RuntimeError as ex:
            rep.broken("correspondence:from_trusted/coq-eval", str(ex))
            return
        r["k_cons_mismatch"] = [i for i in r["k_cons_mismatch"] if i not in collide]
        rep.obligation("correspondence:construct(Struct/Instance.v)", not r["k_cons_mismatch"],
                       "%d cases, %d mismatches" % (len(lits), len(r["k_cons_mismatch"])))
        rep.obligation("correspondence:from_trusted", not r["k_trusted_mismatch"],
                       "%d cases, %d mismatches" % (len(lits), len(r["k_trusted_mismatch"])))
        for name in ("k_cons_mismatch", "k_trusted_mismatch"):
            debug_dump(name, [(S.class_src(cases[i][0]) + repr(cases[i][1]), "") for i in r[name]])
            if r[name] and not any(not v["no_input"] for v in rep.violations):
                c, kw = cases[r[name][0]]
                rep.broken("correspondence:" + name, "model and typedpy differ on %d cases" % len(r[name]),
                           {"stream": "from_trusted", "class": c, "kw": kw})


# =================================================================== stream 3: fast serialization

def leaf_value(rnd, tf):
    """A Python value a valid instance holds for a leaf."""
    import datetime
    import decimal
    t = tf["t"]
    if t == "prim":
        f = tf["f"]
        if f["t"] == "bool":
            return rnd.choice([True, False])
        if f["t"] == "none":
            return None
        v = G.unreify(G.gen_valid(rnd, f))
        if isinstance(v, decimal.Decimal):      # Decimals are generated through DecimalNumber only
            v = float(v)
        return v
    if t == "enum":
        return G.ENUMS[tf["cls"]][rnd.choice(T.ENUM_MEMBERS[tf["cls"]])[0]]
    if t == "enumlit":
        return G.unreify(rnd.choice(tf["values"]))
    if tf["kind"] == "date":
        return datetime.date(2020, rnd.randint(1, 12), rnd.randint(1, 28))
    if tf["kind"] == "datetime":
        return datetime.datetime(2021, rnd.randint(1, 12), 3, rnd.randint(0, 23), 4, 5)
    return decimal.Decimal(rnd.choice(["1.5", "2", "0.25"]))


def tf_value(rnd, tf, envd, ns, suffix):
    t = tf["t"]
    if t in T.LEAVES:
        return leaf_value(rnd, tf)
    if t == "array":
        return [tf_value(rnd, tf["item"], envd, ns, suffix) for _ in range(rnd.choice([0, 1, 2]))]
    if t == "set":
        out = []
        for _ in range(rnd.choice([0, 1, 1])):      # iteration order of a set is not part of the document
            v = tf_value(rnd, tf["item"], envd, ns, suffix)
            try:
                hash(v)
                out.append(v)
            except TypeError:
                pass
        return set(out)
    if t == "ref":
        return class_instance(rnd, envd[tf["cls"]], envd, ns, suffix)
    if t == "opt":
        return tf_value(rnd, tf["f"], envd, ns, suffix)
    if t == "union":
        opts = [l for l in tf["ls"] if not is_none_leaf(l)]
        return leaf_value(rnd, rnd.choice(opts))
    if t == "other":
        import datetime
        return {"map_str_int": {"a": 1}, "map_str_date": {"a": datetime.date(2020, 1, 2)}, "tuple": (1, "x"),
                "anything": rnd.choice([1, "s"]), "array_noitems": [1, "a"], "oneof": rnd.choice([1, "s"]),
                "array_array": [[1], [2, 3]], "array_pos": [1, "a"]}[tf["kind"]]
    raise ValueError(tf)


def class_kwargs(rnd, c, envd, ns, suffix):
    req = [fd["name"] for fd in c["fields"]] if c.get("required") is None else c["required"]
    kw = {}
    for fd in c["fields"]:
        if fd["name"] in req or rnd.random() < 0.65:
            v = tf_value(rnd, fd["ty"], envd, ns, suffix)
            if v is not None:
                kw[fd["name"]] = v
    return kw


def class_instance(rnd, c, envd, ns, suffix):
    return ns[c["name"] + suffix](**class_kwargs(rnd, c, envd, ns, suffix))


def fast_tags(env, compact, cname=None):
    envd = {c["name"]: c for c in env}
    c = envd[cname] if cname else env[-1]
    tags = set()
    if cname is None and compact and len(c["fields"]) == 1:
        req = [fd["name"] for fd in c["fields"]] if c.get("required") is None else c["required"]
        req = [r for r in req if not any(fd["name"] == r and fd.get("default") is not None for fd in c["fields"])]
        # (a field with a default is not a required field: the class's _required list does not hold it)
        if not (c.get("additional") is False and req == [c["fields"][0]["name"]]):
            tags.add("compact-conditions")

    def go(tf, via_opt=False, nested=False):
        t = tf["t"]
        if t == "ser" and tf["kind"] == "decimal":
            tags.add("decimal-raw")
        if t == "other" and tf["kind"] == "oneof" and nested:
            tags.add("nested-oneof-unchecked")
        if t in ("array", "set"):
            go(tf["item"], via_opt, True)
        if t == "opt":
            go(tf["f"], True, True)
        if t == "ref":
            if c.get("mapper") in ("camel", "upper", "list") and not via_opt:
                tags.add("mapper-inherited-by-nested")
            if not envd[tf["cls"]].get("fast"):
                tags.add("non-fast-class-unchecked")
            tags.update(fast_tags(env, False, tf["cls"]) - {"compact-conditions"})
    for fd in c["fields"]:
        go(fd["ty"])
    return tags


def fast_python(env, kwsrc, sn, compact):
    name = env[-1]["name"]
    return (T.env_src(env, "_F", [c["name"] for c in env if c.get("fast")]) + T.env_src(env, "_R")[len(T.IMPORTS):] +
            "\nfrom typedpy import create_serializer, Serializer\ncreate_serializer(%s_F, compact=%r, serialize_none=%r)\n"
            "# instance attributes: %s\n" % (name, compact, sn, kwsrc))


def run_fast_case(rnd, env, sn, compact):
    from typedpy import create_serializer, Serializer
    fast_names = [c["name"] for c in env if c.get("fast")]
    nsf = T.realize(env, "_F", fast_names)
    nsr = T.realize(env, "_R")
    envd = {c["name"]: c for c in env}
    outer = env[-1]
    F, R = nsf[outer["name"] + "_F"], nsr[outer["name"] + "_R"]
    create_o, _ = outcome_of(lambda: create_serializer(F, compact=compact, serialize_none=sn))
    state = rnd.getstate()
    try:
        kwr = class_kwargs(rnd, outer, envd, nsr, "_R")
        xr = R(**kwr)
    except Exception as ex:  # noqa  the generated instance is not valid: skip
        return None
    xf = None
    if create_o[0] == "ok":
        try:
            rnd2 = random.Random()
            rnd2.setstate(state)
            xf = F(**class_kwargs(rnd2, outer, envd, nsf, "_F"))
        except Exception as ex:  # noqa
            return None
    inst = rename_structs(E.reify(xr, S.struct_attrs), "_R")
    fast_o, fast_v = outcome_of(lambda: xf.serialize(), strip="_F") if xf is not None else (("raise", "NotCreated"), None)
    reg_o, reg_v = outcome_of(lambda: Serializer(xr).serialize(compact=compact), strip="_R")
    obs = {"create": create_o, "fast": fast_o, "reg": reg_o, "inst": inst, "clause": None, "kw": repr(kwr)}
    # oracle tables from the real field objects, over all sub-values of the instance
    sers, others = T.kinds_in(env)
    vals = T.subvalues(xr, [])
    uniq, seen = [], set()
    for v in vals:
        try:
            r = E.reify(v, S.struct_attrs)
        except Exception:  # noqa
            continue
        if repr(r) not in seen:
            seen.add(repr(r))
            uniq.append((v, r))
    ns = {}
    exec(T.IMPORTS, ns)
    sser, oser, ofast = {}, {}, {}
    from typedpy.serialization.serialization import serialize_val
    for kind in sers:
        i, src = T.SER[kind]
        field = eval(src, ns)
        field._name = "f"
        sser[i] = [(r, outcome_of(lambda v=v: field.serialize(v))[0]) for v, r in uniq]
    for kind in others:
        i, src, _ = T.OTHER[kind]
        field = eval(src, ns)
        field._name = "f"
        oser[i] = [(r, outcome_of(lambda v=v: serialize_val(field, "f", v))[0]) for v, r in uniq]
        ofast[i] = [(r, outcome_of(lambda v=v: field.serialize(v))[0]) for v, r in uniq]
    obs["tables"] = (sser, oser, ofast)
    if create_o[0] == "ok" and reg_o[0] == "ok":
        if fast_o[0] != "ok":
            obs["clause"] = "raises:" + fast_o[1]
        else:
            fv, rv = fast_v, reg_v
            if sn and isinstance(fv, dict) and not (compact and len(outer["fields"]) == 1):
                keys = {T.own_key(outer.get("mapper"), fd["name"]) for fd in outer["fields"]}
                if set(fv.keys()) != keys:
                    obs["clause"] = "serialize-none-keys"
                fv = {k: v for k, v in fv.items() if v is not None}
            if obs["clause"] is None:
                if not (fv == rv):
                    obs["clause"] = "document-differs"
                elif jsonable(rv) and not jsonable(fv):
                    obs["clause"] = "not-json"
    return obs


def emit_fcase(env, sn, compact, obs):
    sser, oser, ofast = obs["tables"]
    cr = obs["create"] if obs["create"][0] == "raise" else ("ok", ("none",))
    return ("{| fc_env := %s; fc_cls := %s; fc_inst := %s; fc_sn := %s; fc_compact := %s; fc_sser := %s; "
            "fc_oser := %s; fc_ofast := %s; fc_create := %s; fc_fast := %s; fc_reg := %s |}") % (
        T.emit_env(env), E.pstr(env[-1]["name"]), E.pval(obs["inst"]), E.blit(sn), E.blit(compact),
        T.emit_otable(sser), T.emit_otable(oser), T.emit_otable(ofast), E.outcome(cr), E.outcome(obs["fast"]),
        E.outcome(obs["reg"]))


def fixed_fast_cases():
    """single-field wrapper classes (the compact form applies on both paths) around a nested class, under every
    mapper kind: the corner where the regular serializer does NOT push TO_CAMELCASE into the nested document"""
    out = []
    flt = {"t": "prim", "f": {"t": "num", "k": "Float", "s": "Any"}}
    for mapper in (None, "camel", "upper", {"dict": [["the_e", ["str", "k0"]]]}):
        for kind in ("ref", "array", "opt", "set"):
            for compact in (True, False):
                inner = {"name": fresh("In"), "fields": [{"name": "my_b", "ty": flt, "default": None}], "fast": True,
                         "required": ["my_b"], "additional": None, "ignore_none": False, "mapper": None}
                ref = {"t": "ref", "cls": inner["name"]}
                ty = {"ref": ref, "array": {"t": "array", "item": ref}, "opt": {"t": "opt", "nf": False, "f": ref},
                      "set": {"t": "set", "item": ref}}[kind]
                outer = {"name": fresh("K"), "fields": [{"name": "the_e", "ty": ty, "default": None}], "fast": True,
                         "required": ["the_e"], "additional": False, "ignore_none": False, "mapper": mapper}
                out.append(([inner, outer], False, compact))
    return out


def stream_fast(rep, rnd, n, model_ok):
    items, cases, observed = [], [], []
    created = viol = 0
    tries = 0
    fixed = fixed_fast_cases()
    while len(cases) < n + len(fixed) and tries < 5 * n:
        tries += 1
        if fixed:
            env, sn, compact = fixed.pop()
        else:
            env = gen_env(rnd, fast=True, p_mapper=0.4)
            sn = rnd.random() < 0.3
            compact = rnd.random() < 0.3
        for c in env:          # extras are a documented limit of the fast path: none are generated
            c["default_ok"] = True
        try:
            obs = run_fast_case(rnd, env, sn, compact)
        except Exception as ex:  # noqa  declaration rejected
            rep.stat("fast", "declaration-rejected")
            continue
        if obs is None:
            rep.stat("fast", "instance-not-valid")
            continue
        cases.append((env, sn, compact))
        observed.append(obs)
        rep.count("fast", 1, (repr([[fd["ty"] for fd in c["fields"]] + [c.get("mapper")] for c in env])[:400], sn, compact,
                              obs["create"][0]))
        rep.stat("fast", "create_serializer:" + (obs["create"][0] if obs["create"][0] == "ok" else obs["create"][1]))
        rep.stat("fast", "flags:sn=%s,compact=%s" % (sn, compact))
        if obs["create"][0] == "ok":
            created += 1
        if obs["clause"]:
            viol += 1
            tags = sorted(fast_tags(env, compact)) or ["safe-fragment"]
            cl = obs["clause"]
            want = (["decimal-raw"] if cl == "not-json" else
                    ["non-fast-class-unchecked", "nested-oneof-unchecked"] if cl.startswith("raises:") else
                    ["compact-conditions", "mapper-inherited-by-nested"] if cl == "document-differs" else
                    ["compact-conditions"] if cl == "serialize-none-keys" else [])
            prim = [t for t in want if t in tags]
            rep.finding("C10/fast/%s/%s" % (prim[0] if prim else "+".join(tags), cl),
                        "fast serialize() differs from the regular serialization of the twin class: %s (%s)" % (
                            obs["clause"], ", ".join(tags)),
                        {"stream": "fast", "env": env, "serialize_none": sn, "compact": compact, "kwargs": obs["kw"],
                         "fast": repr(obs["fast"]), "regular": repr(obs["reg"]),
                         "python": fast_python(env, obs["kw"], sn, compact)})
        if model_ok:
            items.append(emit_fcase(env, sn, compact, obs))
    rep.cov["streams"]["fast"]["create_serializer_succeeded"] = created
    rep.obligation("spec-on-observed:fast", viol == 0, "%d serializers created, %d documents differ" % (created, viol))
    if created < 0.3 * max(1, len(cases)):
        rep.broken("generator:fast-create-rate", "create_serializer succeeded on only %d of %d classes" % (created, len(cases)))
    if model_ok and items:
        fns = ["f_create_mismatch", "f_fast_mismatch", "f_reg_mismatch", "f_undecided"]
        try:
            r = eval_shards(items, "fcase", fns, "c10f")
        except RuntimeError as ex:
            rep.broken("correspondence:fast/coq-eval", str(ex))
            return
        rep.cov["streams"]["fast"]["outside_model_domain_skipped"] = len(r["f_undecided"])
        for name, what in (("f_create_mismatch", "create_serializer"), ("f_fast_mismatch", "fast_ser"),
                           ("f_reg_mismatch", "ser_regular")):
            rep.obligation("correspondence:" + what, not r[name], "%d cases, %d mismatches" % (len(items), len(r[name])))
            debug_dump(name, [(fast_python(cases[i][0], observed[i]["kw"], cases[i][1], cases[i][2]),
                               {k: observed[i][k] for k in ("create", "fast", "reg", "inst")}) for i in r[name]])
            if r[name] and not any(not v["no_input"] for v in rep.violations):
                env, sn, compact = cases[r[name][0]]
                o = observed[r[name][0]]
                rep.broken("correspondence:" + what, "model (Ser/Fast.v) and typedpy differ on %d cases" % len(r[name]),
                           {"stream": "fast", "env": env, "serialize_none": sn, "compact": compact, "kwargs": o["kw"],
                            "observed": repr({k: o[k] for k in ("create", "fast", "reg")}),
                            "python": fast_python(env, o["kw"], sn, compact)})


# =================================================================== entry points

def run(rep, tier):
    rnd = random.Random(core.seed() * 1000003 + 10)
    quick = tier == "quick"
    proofs_ok, model_ok = core.standard_proof_obligations(rep, "C10", ["theories/Check/C10chk.vo",
                                                                       "theories/Check/C10hchk.vo"])
    stream_deser(rep, rnd, 600 if quick else 5000, model_ok)
    stream_from_trusted(rep, rnd, 240 if quick else 2400, model_ok)
    stream_fast(rep, rnd, 300 if quick else 2500, model_ok)
    from harness import c10hist
    c10hist.stream_fast_hist(rep, rnd, 500 if quick else 3000, (4, 2, 350) if quick else (4, 3, 2000), model_ok, fresh,
                             eval_bodies)
    if not proofs_ok:
        from harness.props.c17 import broken_build
        broken_build(rep)
    rep.assumptions += [
        "SerializableField.deserialize/serialize (strptime/strftime, Decimal) and the unmodelled field kinds "
        "(Map, Tuple, Anything, OneOf, positional Array) are oracles: Section variables of the theorems, "
        "instantiated per case by tables filled from the real field objects",
        "documents are dicts with string keys (compact non-dict documents are outside the model)",
        "class nesting depth 2 (outer class -> flat inner classes); enum fields range over a whole enum class",
        "re.match is not needed: String patterns are not generated for this property",
    ]
    return rep.finish(
        rule="cases = (class environment, document|kwargs|instance, flags): classes from a grammar straddling every "
             "clause of the eligibility classifier and of create_serializer (leaves, Array/Set of leaves and of "
             "structures, Optional both ways round, multi-option AnyOf, Map/Tuple/..., mappers TO_CAMELCASE/"
             "TO_LOWERCASE/rename/dotted/function/list, _ignore_none, defaults); documents valid by construction "
             "for the regular path + 12% one-point corruptions; distinct = distinct (class shapes, outcome kinds)")


def replay(obj):
    st = obj.get("stream")
    if obj.get("broken"):
        print("broken obligation:", obj.get("broken"))
        print(obj.get("detail", "")[-1500:])
    if st == "deser":
        env, doc, ku = obj["env"], obj["doc"], obj["keep_undefined"]
        print(T.env_src(env)[len(T.IMPORTS):])
        print("document      :", doc, " keep_undefined =", ku)
        o = run_deser_case(env, doc, ku)
        print("classifier    :", ["ineligible", "not_nested", "nested", "raises (unsupported mapper)"][o["level"]])
        print("regular path  :", o["reg"])
        print("trusted path  :", o["tr"])
        print("required      : equal instances (==) and equal Serializer output" if o["level"] in (1, 2)
              else "required      : the flag changes nothing")
        print("clause failing:", o["clause"])
        return 1 if o["clause"] else 0
    if st == "from_trusted":
        c, kw = obj["class"], [(k, _tup(v)) for k, v in obj["kw"]]
        ctx = S.Context(extra=[c])
        cls = ctx.classes[c["name"]]
        real = S.realize_kwargs(kw, ctx)
        cons_o, cons = outcome_of(lambda: cls(**copy.deepcopy(real)))
        tr_o, tr = outcome_of(lambda: cls.from_trusted_data(None, **copy.deepcopy(real)))
        print(S.class_src(c))
        print("kwargs   :", real)
        print("validated:", cons if cons is not None else cons_o)
        print("trusted  :", tr if tr is not None else tr_o)
        bad = cons_o[0] == "ok" and (tr_o[0] != "ok" or not (cons == tr))
        print("required : equal (==)  ->", "VIOLATED" if bad else "holds")
        return 1 if bad else 0
    if st == "fast_hist":
        from harness import c10hist
        return c10hist.replay(obj)
    if st == "fast":
        env, sn, compact = obj["env"], obj["serialize_none"], obj["compact"]
        rnd = random.Random(0)
        bad = 0
        for _ in range(40):
            o = run_fast_case(rnd, env, sn, compact)
            if o and o["clause"]:
                print(fast_python(env, o["kw"], sn, compact)[len(T.IMPORTS):])
                print("fast   :", o["fast"])
                print("regular:", o["reg"])
                print("clause failing:", o["clause"])
                bad = 1
                break
        if not bad:
            print("no failing instance found for this class in 40 attempts; recorded:", obj.get("fast"), obj.get("regular"))
        return bad
    return 1 if obj.get("broken") else 0


def _tup(v):
    if isinstance(v, list):
        return tuple(_tup(x) for x in v)
    return v
