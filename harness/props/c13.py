"""C13 — equivalent declaration syntaxes produce behaviourally identical classes.

Proof obligations: Props/C13.v (model Struct/Spelling.v, proofs Struct/SpellingProofs.v, generated table
Gen/TypeMapping.v).  Tie to the code, every run:
  * oracle on the implementation: a semantic class (fields with optional-ness and defaults) is written in all
    its spellings — a random base choice per field plus, for every field, one variant per other declaration
    form — as real module files under .work/, once without and once with `from __future__ import annotations`;
    all variants must have the same field set, `_required`, reified Field objects, defaults, and the same
    accept / exception class / normal form / Serializer output on every candidate value;
  * correspondence: the real Field object (or TypeError / "annotation ignored") every spelling produces, in
    annotation, assignment and Cls[...] context, and (field, default, required) of every declaration form, are
    compared INSIDE Coq with the model's convert_opt / convert_assign / convert_sub / class_result."""
import importlib.util
import os
import random
import sys

from harness import core
from harness import coqemit as E
from harness import fieldgen as G
from harness import structgen as S
from harness import spellgen as P

NAMES = ["a", "b", "c", "d"]
DEFAULT_OK_CLASSES = ("num", "str", "bool")

K_F12 = "C13/default-spelling/falsy-invalid-default"
K_PEP604 = "C13/pep604/plain-type-union-ignored"
K_TUPLE = "C13/tuple/single-class-item"
K_FUTURE = "C13/future-annotations/long-annotation-ignored"
K_MUTABLE = "C13/default-spelling/mutable-default-rejected-by-equals"


# ----------------------------------------------------------------------------- generation

UNION_MEMBER_POOL = [
    {"t": "num", "k": "Integer", "s": "Any"}, {"t": "num", "k": "Float", "s": "Any"}, {"t": "str"}, {"t": "bool"},
    {"t": "seqeach", "k": "list", "item": {"t": "num", "k": "Integer", "s": "Any"}, "sz": [None, None], "uniq": False},
    {"t": "seqeach", "k": "list", "item": {"t": "str"}, "sz": [None, None], "uniq": False},
    {"t": "mapkv", "kf": {"t": "str"}, "vf": {"t": "num", "k": "Integer", "s": "Any"}, "sz": [None, None]},
    {"t": "set", "imm": False, "item": {"t": "str"}, "sz": [None, None]},
    {"t": "tuple", "items": [{"t": "num", "k": "Integer", "s": "Any"}, {"t": "str"}], "uniq": False},
    {"t": "seqany", "k": "list", "sz": [None, None], "uniq": False}, {"t": "mapany", "sz": [None, None]},
    {"t": "num", "k": "Integer", "s": "Positive"}, {"t": "num", "k": "Integer", "s": "Any", "min": ("int", 1)},
    {"t": "str", "min": 2}, {"t": "ref", "cls": "Inner"}, {"t": "ref", "cls": "Other"},
]


def gen_union_field(rnd, ctx, max_depth):
    """An AnyOf of 2-4 pairwise different members, with None at a random position (70%): the declarations that
    have typing spellings (Union, Optional, nested Unions) next to the AnyOf ones."""
    n = rnd.choice([2, 2, 3, 3, 4])
    with_none = rnd.random() < 0.7
    k = n - 1 if with_none else n
    members = []
    seen = set()
    for _ in range(40):
        if len(members) == k:
            break
        if rnd.random() < 0.75:
            g = dict(rnd.choice(UNION_MEMBER_POOL))
        else:
            g = simplify(rnd, G.gen_field(rnd, 1, classes=ctx.class_names(), max_depth=max_depth))
            if g["t"] == "none" or not P.spellable(g):
                continue
        key = repr(P.norm_field(g))
        if key in seen:
            continue
        seen.add(key)
        members.append(g)
    if with_none:
        members.insert(rnd.randrange(len(members) + 1), {"t": "none"})
    return {"t": "anyof", "fs": members}


def gen_semantic_field(rnd, ctx, max_depth):
    """A semantic field, biased towards declarations that have several spellings."""
    if rnd.random() < 0.22:
        f = gen_union_field(rnd, ctx, max_depth)
        if P.spellable(f) and len(P.forms(f, "general", rnd)) >= 2:
            return f
    for _ in range(30):
        f = G.gen_field(rnd, 0, classes=ctx.class_names(), max_depth=max_depth)
        if rnd.random() < 0.55:
            f = simplify(rnd, f)
        if P.spellable(f) and len(P.forms(f, "general", rnd)) >= 2:
            return f
    return {"t": "num", "k": "Integer", "s": "Any"}


def simplify(rnd, f):
    """Drops constraints (so that builtin / typing spellings exist) with some probability, recursively."""
    f = dict(f)
    t = f["t"]
    if t == "num" and rnd.random() < 0.7:
        f = {"t": "num", "k": f["k"], "s": f["s"] if rnd.random() < 0.3 else "Any"}
        if f["k"] == "Number" and rnd.random() < 0.7:
            f["k"] = rnd.choice(["Integer", "Float"])
    elif t == "str" and rnd.random() < 0.7:
        f = {"t": "str"}
    elif t in ("seqany", "seqeach", "seqpos", "set", "mapany", "mapkv"):
        if rnd.random() < 0.75:
            f["sz"] = [None, None]
            if "uniq" in f:
                f["uniq"] = False
            if t == "seqpos":
                f["additional"] = None
    elif t == "tuple" and rnd.random() < 0.75:
        f["uniq"] = False
    if t == "anyof" and rnd.random() < 0.5:
        fs = [g for g in f["fs"] if g["t"] != "none"][:2] or [{"t": "str"}]
        r = rnd.random()
        if r < 0.45:
            fs = fs[:1] + [{"t": "none"}]
        elif len(fs) == 1:
            fs = fs + [{"t": "bool"}]
        f["fs"] = fs
    for key in ("item", "kf", "vf"):
        if isinstance(f.get(key), dict):
            f[key] = simplify(rnd, f[key])
    for key in ("items", "fs"):
        if f.get(key):
            f[key] = [simplify(rnd, g) for g in f[key]]
    return f


def gen_default(rnd, f):
    """A default value (reified): mostly valid, sometimes ill-typed / out of range / falsy."""
    r = rnd.random()
    if r < 0.6:
        try:
            return G.gen_valid(rnd, f)
        except Exception:  # noqa
            pass
    if r < 0.8:
        return rnd.choice([("int", 0), ("str", ""), ("bool", False), ("flt", 0, 0)])
    return rnd.choice([("int", 3), ("int", -4), ("str", "abc"), ("flt", 5, -1), ("bool", True), ("str", "x"),
                       ("int", 100)])


def scalar_union(f):
    """AnyOf of scalar fields (and None): takes a scalar default with `=` (AnyOf has no default= argument)."""
    return f["t"] == "anyof" and all(g["t"] in DEFAULT_OK_CLASSES + ("none",) for g in f["fs"])


def has_none_member(f):
    return f["t"] == "anyof" and any(g["t"] == "none" for g in f["fs"])


def decl_forms(fd, rnd, ctx):
    """Every declaration form of one semantic class member."""
    f, d, opt = fd["f"], fd["default"], fd["opt"]
    out = []
    general = [s for s in P.forms(f, "general", rnd) if union_kept(s, ctx)]
    fieldy = [s for s in P.forms(f, "fieldy", rnd) if union_kept(s, ctx)]
    for s in general:
        self_marking = s[0] in ("union", "optional") and has_none_member(f)
        if self_marking and not opt and d is None:
            continue                          # would make the field optional: not a spelling of this member
        out.append({"annot": True, "ty": s, "eq": d, "kw": None, "opt": opt})
        if self_marking:                      # the typing spelling marks the field optional by itself
            out.append({"annot": True, "ty": s, "eq": d, "kw": None, "opt": False})
        if d is not None and s[0] in ("inst", "ctor1", "ctorN") and f["t"] in DEFAULT_OK_CLASSES:
            out.append({"annot": True, "ty": s, "eq": None, "kw": d, "opt": opt})
    if d is None and P.func_spellable(f):
        # the parameterless function declared `-> Field` / `-> "Field"` (is_function_returning_field)
        for q in (False, True):
            out.append({"annot": True, "ty": ("func", f, q), "eq": None, "kw": None, "opt": opt})
            out.append({"annot": False, "ty": ("func", f, q), "eq": None, "kw": None, "opt": opt})
    for s in fieldy:
        if d is None:
            out.append({"annot": False, "ty": s, "eq": None, "kw": None, "opt": opt})
        elif s[0] in ("inst", "ctor1", "ctorN") and f["t"] in DEFAULT_OK_CLASSES:
            out.append({"annot": False, "ty": s, "eq": None, "kw": d, "opt": opt})
    return out


def probe_forms(fd, rnd):
    """Spellings that fall under the KNOWN defects (kept rare; they are attributed precisely)."""
    f = fd["f"]
    out = []
    if f["t"] == "anyof" and len(f["fs"]) == 2 and fd["default"] is None:
        names = []
        for g in f["fs"]:
            alts = [s for s in P.forms(g, "orright", rnd) if s[0] == "name"]
            names.append(("none",) if g["t"] == "none" else (alts[0] if alts else None))
        if all(n is not None for n in names) and (fd["opt"] or not has_none_member(f)):
            out.append({"annot": True, "ty": ("or", names[0], names[1]), "eq": None, "kw": None, "opt": fd["opt"]})
    return out


def gen_class_case(rnd, idx, ctx, max_depth):
    nf = rnd.choice([1, 2, 2, 3, 3, 4])
    members = []
    n_bad_default = 0
    for name in NAMES[:nf]:
        f = gen_semantic_field(rnd, ctx, max_depth)
        d = None
        if (f["t"] in DEFAULT_OK_CLASSES or scalar_union(f)) and rnd.random() < 0.45 and n_bad_default == 0:
            d = gen_default(rnd, f)
            if d == ("none",):
                d = None                   # `= None` is "no default" for typedpy: outside the explored space
            if d is not None and not default_valid(f, d, ctx):
                n_bad_default += 1         # at most one rejected default per class (exception precedence)
        p_opt = 0.6 if has_none_member(f) else 0.25
        members.append({"name": name, "f": f, "opt": rnd.random() < p_opt and d is None, "default": d})
    base = []
    alts = []
    for m in members:
        forms = decl_forms(m, rnd, ctx)
        b = rnd.randrange(len(forms))
        base.append(forms[b])
        others = [x for i, x in enumerate(forms) if i != b]
        if rnd.random() < 0.15:
            others += probe_forms(m, rnd)
        alts.append(others)
    variants = [{"decls": list(base), "changed": None}]
    for i, others in enumerate(alts):
        for x in others:
            ds = list(base)
            ds[i] = x
            variants.append({"decls": ds, "changed": i})
    # "all combinations of spellings across the fields of one class": every member respelled at once
    regular = [[x for x in others if not P.defect_tags(x["ty"])] for others in alts]
    if sum(1 for o in regular if o) >= 2:
        for _ in range(2):
            variants.append({"decls": [rnd.choice(o) if o else b for o, b in zip(regular, base)], "changed": "all"})
    return {"idx": idx, "members": members, "variants": variants}


def changed_idxs(v):
    if v["changed"] is None or v["changed"] == "all":
        return range(len(v["decls"]))
    return [v["changed"]]


# ----------------------------------------------------------------------------- deterministic lattices

INT_F = {"t": "num", "k": "Integer", "s": "Any"}


def _dedup_variants(names, variants):
    seen = set()
    out = []
    for v in variants:
        key = tuple((decl_line(n, d), d["opt"]) for n, d in zip(names, v["decls"]))
        if key not in seen:
            seen.add(key)
            out.append(v)
    return out


def optional_lattice(ctx, idx0, tier):
    """Every union SHAPE, independently of VERIF_SEED: arity 2-4 x position of None (each, or no None) x a sliding
    window over UNION_MEMBER_POOL; every typing spelling typing flattens to the same Union (Union as written,
    Optional[T], Optional[Union[...]], every single nested group), with aligned member spellings (builtin name /
    Field class / Field instance ...), each listed and NOT listed in _optional, against AnyOf[...] / AnyOf(fields=[...])
    with the field listed in _optional; a second, required member `b: int` makes absence of `a` observable."""
    quick = tier == "quick"
    rnd = random.Random(20240613)             # children of composite members only; independent of VERIF_SEED
    pool = UNION_MEMBER_POOL
    steps = {2: 2 if quick else 1, 3: 3 if quick else 2, 4: 5 if quick else 3}
    n_align = 2 if quick else 4
    cases = []
    for n in (2, 3, 4):
        for p in list(range(n)) + [None]:
            k = n if p is None else n - 1
            for w in range(0, len(pool), steps[n]):
                mems = [pool[(w + i * (1 + w % 3)) % len(pool)] for i in range(k)]
                if len({repr(P.norm_field(g)) for g in mems}) < k:
                    continue
                fs = list(mems)
                if p is not None:
                    fs.insert(p, {"t": "none"})
                f = {"t": "anyof", "fs": fs}
                opt = p is not None
                none = ("none",)
                mforms = [[none] if g["t"] == "none" else P.forms(g, "unionmember", rnd) for g in fs]
                fforms = [[("fcls", "NoneField")] if g["t"] == "none" else P.forms(g, "fieldy", rnd) for g in fs]
                b_decl = {"annot": True, "ty": ("name", "int"), "eq": None, "kw": None, "opt": False}
                mk = lambda annot, ty, o: {"annot": annot, "ty": ty, "eq": None, "kw": None, "opt": o}
                a_decls = []
                for j in range(min(n_align, max(len(x) for x in mforms))):
                    mem = [x[j % len(x)] for x in mforms]
                    fmem = [x[j % len(x)] for x in fforms]
                    a_decls.append(mk(True, ("sub", "AnyOf", mem), opt))
                    a_decls.append(mk(False, ("sub", "AnyOf", mem), opt))
                    a_decls.append(mk(True, ("ctorN", "AnyOf", fmem, P.NO_SZ, False, None), opt))
                    a_decls.append(mk(False, ("ctorN", "AnyOf", fmem, P.NO_SZ, False, None), opt))
                    for shape in P.union_shapes(mem):
                        a_decls.append(mk(True, shape, opt))
                        if opt:
                            a_decls.append(mk(True, shape, False))
                    if n == 2 and p is None and fs[0]["t"] != "ref":
                        for right in P.forms(fs[1], "orright", rnd):       # Field | <every spelling of the right operand>
                            a_decls.append(mk(True, ("or", fmem[0], right), False))
                            a_decls.append(mk(False, ("or", fmem[0], right), False))
                a_decls = [d for d in a_decls if union_kept(d["ty"], ctx)]
                if len(a_decls) < 2:
                    continue
                members = [{"name": "a", "f": f, "opt": opt, "default": None},
                           {"name": "b", "f": dict(INT_F), "opt": False, "default": None}]
                variants = [{"decls": [a_decls[0], b_decl], "changed": None}]
                variants += [{"decls": [d, b_decl], "changed": 0} for d in a_decls[1:]]
                cases.append({"idx": idx0 + len(cases), "members": members,
                              "variants": _dedup_variants(["a", "b"], variants), "lattice": "optional"})
    return cases


DEFAULT_LATTICE_FIELDS = [
    {"t": "num", "k": "Integer", "s": "Any"}, {"t": "num", "k": "Integer", "s": "Any", "min": ("int", 5)},
    {"t": "num", "k": "Float", "s": "Any"}, {"t": "num", "k": "Float", "s": "Any", "max": ("int", -1)},
    {"t": "num", "k": "Number", "s": "Positive"}, {"t": "num", "k": "Integer", "s": "NonNegative"},
    {"t": "str"}, {"t": "str", "min": 2}, {"t": "str", "max": 1}, {"t": "bool"},
    {"t": "anyof", "fs": [{"t": "num", "k": "Integer", "s": "Any"}, {"t": "none"}]},
    {"t": "anyof", "fs": [{"t": "none"}, {"t": "str", "min": 2}, {"t": "num", "k": "Float", "s": "Any"}]},
    {"t": "anyof", "fs": [{"t": "num", "k": "Integer", "s": "Positive"}, {"t": "str"}]},
]
DEFAULT_LATTICE_VALUES = [0, 0.0, "", False, 1, 5, -3, 2.5, "ab", True]


def default_lattice(ctx, idx0, tier):
    """Every scalar field of DEFAULT_LATTICE_FIELDS x every default of DEFAULT_LATTICE_VALUES (falsy / truthy, valid /
    ill-typed / out of range), in every declaration form: `a: T = d`, `a: T(default=d)`, `a = T(default=d)` over every
    spelling of T.  Independent of VERIF_SEED."""
    rnd = random.Random(77)
    cases = []
    for f in DEFAULT_LATTICE_FIELDS:
        for dv in DEFAULT_LATTICE_VALUES:
            m = {"name": "a", "f": dict(f), "opt": False, "default": E.reify(dv)}
            forms = decl_forms(m, rnd, ctx)
            if has_none_member(f):     # the typing spellings mark the field optional: also declare it so
                forms += decl_forms(dict(m, opt=True), rnd, ctx)
            if len(forms) < 2:
                continue
            variants = [{"decls": [forms[0]], "changed": None}] + [{"decls": [x], "changed": 0} for x in forms[1:]]
            cases.append({"idx": idx0 + len(cases), "members": [m], "variants": _dedup_variants(["a"], variants),
                          "lattice": "default"})
    return cases


MUTABLE_LATTICE = [
    ({"t": "seqeach", "k": "list", "item": {"t": "num", "k": "Integer", "s": "Any"}, "sz": [None, None], "uniq": False},
     [[1, 2], [], ["x"]]),
    ({"t": "seqany", "k": "list", "sz": [None, None], "uniq": False}, [[1, "a"], []]),
    ({"t": "mapany", "sz": [None, None]}, [{"a": 1}, {}]),
    ({"t": "mapkv", "kf": {"t": "str"}, "vf": {"t": "num", "k": "Integer", "s": "Any"}, "sz": [None, None]},
     [{"a": 1}, {}]),
    ({"t": "set", "imm": False, "item": {"t": "str"}, "sz": [None, None]}, [{"a"}]),
]


def mutable_default_lattice(ctx, idx0, tier):
    """list / dict / set defaults on collection fields, written with `=` and with default= over every spelling."""
    rnd = random.Random(99)
    cases = []
    for f, dvs in MUTABLE_LATTICE:
        for dv in dvs:
            d = E.reify(dv)
            decls = []
            for s in P.forms(f, "general", rnd):
                if union_kept(s, ctx):
                    decls.append({"annot": True, "ty": s, "eq": d, "kw": None, "opt": False})
                    if s[0] in ("inst", "ctor1", "ctorN"):
                        decls.append({"annot": True, "ty": s, "eq": None, "kw": d, "opt": False})
            for s in P.forms(f, "fieldy", rnd):
                if s[0] in ("inst", "ctor1", "ctorN"):
                    decls.append({"annot": False, "ty": s, "eq": None, "kw": d, "opt": False})
            m = {"name": "a", "f": dict(f), "opt": False, "default": d}
            variants = [{"decls": [decls[0]], "changed": None}] + [{"decls": [x], "changed": 0} for x in decls[1:]]
            cases.append({"idx": idx0 + len(cases), "members": [m], "variants": _dedup_variants(["a"], variants),
                          "lattice": "mutable-default"})
    return cases


TUPLE_LATTICE_ITEMS = [{"t": "num", "k": "Integer", "s": "Any"}, {"t": "str"}, {"t": "num", "k": "Float", "s": "Any"},
                       {"t": "seqeach", "k": "list", "item": {"t": "num", "k": "Integer", "s": "Any"}, "sz": [None, None],
                        "uniq": False}]


def tuple_lattice(ctx, idx0, tier):
    """A one-item Tuple field (every element of that kind, any length) over each item of TUPLE_LATTICE_ITEMS, with and
    without uniqueItems, in EVERY spelling: tuple[int], typing.Tuple[int], Tuple[Integer], Tuple[int], Tuple(items=Integer),
    Tuple(items=Integer()), Tuple(items=[Integer]) ..., as annotation and as assignment.  Independent of VERIF_SEED.
    (Tuple(items=<one Field class>) once kept the class un-instantiated: C13/tuple/single-class-item.)"""
    rnd = random.Random(55)
    cases = []
    for item in TUPLE_LATTICE_ITEMS:
        for uniq in (False, True):
            f = {"t": "tuple", "items": [dict(item)], "uniq": uniq}
            m = {"name": "a", "f": f, "opt": False, "default": None}
            forms = []
            for _ in range(4):                 # the spelling of the item is drawn: several draws, de-duplicated below
                forms += decl_forms(m, rnd, ctx)
            if len(forms) < 2:
                continue
            variants = [{"decls": [forms[0]], "changed": None}] + [{"decls": [x], "changed": 0} for x in forms[1:]]
            cases.append({"idx": idx0 + len(cases), "members": [m], "variants": _dedup_variants(["a"], variants),
                          "lattice": "tuple-single-item"})
    return cases


FUNCTION_LATTICE_FIELDS = [
    {"t": "str", "min": 3}, {"t": "num", "k": "Integer", "s": "Any"}, {"t": "num", "k": "Float", "s": "Positive"},
    {"t": "bool"}, {"t": "seqeach", "k": "list", "item": {"t": "num", "k": "Integer", "s": "Any"}, "sz": [None, None],
                    "uniq": False},
    {"t": "anyof", "fs": [{"t": "num", "k": "Integer", "s": "Any"}, {"t": "none"}]},
    {"t": "tuple", "items": [{"t": "str"}, {"t": "num", "k": "Integer", "s": "Any"}], "uniq": False},
]


def function_lattice(ctx, idx0, tier):
    """The function-returning-a-Field spelling (`def F() -> Field`, `-> "Field"`) in EVERY position where typedpy
    recognises it — annotation, class attribute, argument of Array/Deque/Set/Map/Tuple/AnyOf/OneOf/AllOf[...] — against
    the Field-instance spelling in the same position (each module also with `from __future__ import annotations`,
    which turns every return annotation into a string).  Independent of VERIF_SEED."""
    cases = []
    X = {"t": "bool"}
    Y = {"t": "mapany", "sz": [None, None]}
    b_decl = {"annot": True, "ty": ("name", "int"), "eq": None, "kw": None, "opt": False}
    mk = lambda annot, ty: {"annot": annot, "ty": ty, "eq": None, "kw": None, "opt": False}
    for f in FUNCTION_LATTICE_FIELDS:
        x = Y if f["t"] == "bool" else X
        hashable = f["t"] in ("str", "num", "bool", "tuple")
        positions = [("alone", f, lambda a: a),
                     ("Array", {"t": "seqeach", "k": "list", "item": f, "sz": [None, None], "uniq": False},
                      lambda a: ("sub", "Array", [a])),
                     ("Deque", {"t": "seqeach", "k": "deque", "item": f, "sz": [None, None], "uniq": False},
                      lambda a: ("sub", "Deque", [a])),
                     ("Array2", {"t": "seqpos", "k": "list", "items": [x, f], "sz": [None, None], "uniq": False,
                                 "additional": None}, lambda a: ("sub", "Array", [("inst", x), a])),
                     ("Tuple", {"t": "tuple", "items": [f, x], "uniq": False}, lambda a: ("sub", "Tuple", [a, ("inst", x)])),
                     ("MapValue", {"t": "mapkv", "kf": {"t": "str"}, "vf": f, "sz": [None, None]},
                      lambda a: ("sub", "Map", [("fcls", "String"), a])),
                     ("AnyOf", {"t": "anyof", "fs": [x, f]}, lambda a: ("sub", "AnyOf", [("inst", x), a])),
                     ("AnyOfNone", {"t": "anyof", "fs": [f, {"t": "none"}]}, lambda a: ("sub", "AnyOf", [a, ("none",)])),
                     ("OneOf", {"t": "oneof", "fs": [f, x]}, lambda a: ("sub", "OneOf", [a, ("inst", x)])),
                     ("AllOf", {"t": "allof", "fs": [f]}, lambda a: ("sub", "AllOf", [a]))]
        if hashable:
            positions += [("Set", {"t": "set", "imm": False, "item": f, "sz": [None, None]}, lambda a: ("sub", "Set", [a])),
                          ("MapKey", {"t": "mapkv", "kf": f, "vf": x, "sz": [None, None]},
                           lambda a: ("sub", "Map", [a, ("inst", x)]))]
        for pname, sem, wrap in positions:
            decls = [mk(True, wrap(("inst", f)))]
            for q in (False, True):
                decls.append(mk(True, wrap(("func", f, q))))
                decls.append(mk(False, wrap(("func", f, q))))
            decls.append(mk(False, wrap(("inst", f))))
            members = [{"name": "a", "f": sem, "opt": False, "default": None},
                       {"name": "b", "f": dict(INT_F), "opt": False, "default": None}]
            variants = [{"decls": [decls[0], b_decl], "changed": None}]
            variants += [{"decls": [d, b_decl], "changed": 0} for d in decls[1:]]
            cases.append({"idx": idx0 + len(cases), "members": members, "variants": variants, "lattice": "function-field"})
    return cases


def future_length_lattice(ctx, idx0, tier):
    """Annotations whose stored text has EVERY length around the bound of _evaluate_if_future_annotations (today 50):
    `a: Integer(minimum=10...0)` and `a: t.Optional[Integer(minimum=10...0)]` (not listed in _optional), next to a
    required `b: int`; the base variant is the assignment form, which the __future__ import does not touch."""
    lo, hi = (40, 60) if tier == "quick" else (30, 80)
    cases = []
    b_decl = {"annot": True, "ty": ("name", "int"), "eq": None, "kw": None, "opt": False}
    for wrap in ("inst", "optional"):
        for L in range(lo, hi + 1):
            nd = L - 17 - (12 if wrap == "optional" else 0)
            if nd < 1:
                continue
            g = {"t": "num", "k": "Integer", "s": "Any", "min": ("int", 10 ** (nd - 1))}
            if wrap == "inst":
                f, ty, base_ty, opt = g, ("inst", g), ("inst", g), False
            else:
                f = {"t": "anyof", "fs": [g, {"t": "none"}]}
                ty, base_ty, opt = ("optional", ("inst", g)), ("sub", "AnyOf", [("inst", g), ("none",)]), True
            d_annot = {"annot": True, "ty": ty, "eq": None, "kw": None, "opt": False}
            assert stored_len(d_annot) == L, (stored_annotation(annot_src(d_annot)), L)
            d_base = {"annot": False, "ty": base_ty, "eq": None, "kw": None, "opt": opt}
            members = [{"name": "a", "f": f, "opt": opt, "default": None},
                       {"name": "b", "f": dict(INT_F), "opt": False, "default": None}]
            cases.append({"idx": idx0 + len(cases), "members": members, "lattice": "future-length",
                          "variants": [{"decls": [d_base, b_decl], "changed": None},
                                       {"decls": [d_annot, b_decl], "changed": 0}]})
    return cases


_REF_CACHE = {}


def default_valid(f, d, ctx):
    try:
        T = S.single_field_class(f, ctx)
        T(f=G.unreify(d, ctx.classes))
        return True
    except Exception:  # noqa
        return False


# ----------------------------------------------------------------------------- rendering / realisation

def annot_src(dc):
    """Source text of the type expression of a declaration (default= included)."""
    if dc["kw"] is not None:
        return P.render(dc["ty"], G.py_src(dc["kw"]))
    return P.render(dc["ty"])


_STORED = {}


def stored_annotation(src):
    """The text the COMPILER stores for the annotation `src` under `from __future__ import annotations`."""
    if src not in _STORED:
        import __future__
        ns = {}
        exec(compile("a: " + src, "<annotation>", "exec", flags=__future__.annotations.compiler_flag,
                     dont_inherit=True), ns)
        _STORED[src] = ns["__annotations__"]["a"]
    return _STORED[src]


def stored_len(dc):
    return len(stored_annotation(annot_src(dc))) if dc["annot"] else 0


def decl_line(name, dc):
    src = annot_src(dc)
    if dc["annot"]:
        line = "%s: %s" % (name, src)
        if dc["eq"] is not None:
            line += " = %s" % G.py_src(dc["eq"])
        return line
    return "%s = %s" % (name, src)


def class_body(names, decls):
    lines = [decl_line(n, dc) for n, dc in zip(names, decls)]
    opt = [n for n, dc in zip(names, decls) if dc["opt"]]
    if opt:
        lines.append("_optional = %r" % opt)
    return lines


def class_src(cname, names, decls):
    body = class_body(names, decls)
    return ("try:\n    class %s(Structure):\n%s\nexcept Exception as _e:\n    %s = _e\n" % (
        cname, "\n".join("        " + l for l in body), cname))


_mod_counter = [0]


def load_module(workdir, text, ctx, future):
    _mod_counter[0] += 1
    name = "c13gen_%d_%d" % (os.getpid(), _mod_counter[0])
    path = os.path.join(workdir, name + ".py")
    with open(path, "w") as fh:
        fh.write(("from __future__ import annotations\n" if future else "") + P.module_prelude(text) + text)
    spec = importlib.util.spec_from_file_location(name, path)
    mod = importlib.util.module_from_spec(spec)
    mod.__dict__.update(ctx.classes)
    sys.modules[name] = mod
    try:
        spec.loader.exec_module(mod)
    finally:
        pass
    return mod


def unload(mod):
    sys.modules.pop(mod.__name__, None)


# ----------------------------------------------------------------------------- observation

def observe_fieldobj(fo):
    try:
        return ("field", P.reify_field(fo))
    except P.Defective:
        return ("defective",)
    except P.Unreifiable as ex:
        return ("unreifiable", str(ex))


def observe_class(obj, names, candidates, ctx):
    """Everything the property compares, as plain data."""
    from typedpy import Serializer, Deserializer
    n_deser = 0
    if isinstance(obj, BaseException):
        return {"def": E.exn_name(obj), "mutable_msg": "mutable value as default" in str(obj)}
    fields = obj.get_all_fields_by_name()
    out = {"def": "ok", "fields": sorted(fields.keys()), "required": sorted(set(getattr(obj, "_required", []))),
           "objs": {}, "defaults": {}, "beh": []}
    for n, fo in fields.items():
        o = observe_fieldobj(fo)
        out["objs"][n] = ("field", P.norm_field(o[1])) if o[0] == "field" else o
        dv = getattr(fo, "_default", None)
        out["defaults"][n] = repr(E.reify(dv() if callable(dv) else dv))
    for kw in candidates:
        try:
            real = {k: G.unreify(v, ctx.classes) for k, v in kw}
        except Exception as ex:  # noqa
            out["beh"].append(("unrealisable", repr(ex)))
            continue
        try:
            inst = obj(**real)
        except Exception as ex:  # noqa
            out["beh"].append(("raise", E.exn_name(ex)))
            continue
        try:
            state = repr(sorted((n, E.reify(getattr(inst, n), S.struct_attrs)) for n in names))
        except Exception as ex:  # noqa
            state = "getattr-raises:" + E.exn_name(ex)
        try:
            doc = Serializer(inst).serialize()
            # key order of the top-level document follows the order of declaration, which the property
            # does not speak about: compare as a mapping
            if isinstance(doc, dict):
                # ... and a set is serialized as a list in ITERATION order, which is not specified (two equal sets
                # built separately may iterate differently): such lists are compared as multisets
                canon = {k: canon_doc(getattr(inst, k, None), v) for k, v in doc.items()}
                ser = repr(sorted((k, E.reify(v)) for k, v in canon.items()))
            else:
                ser = repr(E.reify(doc))
        except Exception as ex:  # noqa
            ser = "serialize-raises:" + E.exn_name(ex)
        # a second way IN: the serialized document deserialized by the same class (first few accepted candidates)
        des = ""
        if n_deser < 3 and not ser.startswith("serialize-raises:"):
            n_deser += 1
            try:
                back = Deserializer(obj).deserialize(doc)
                des = repr(sorted((n, E.reify(getattr(back, n), S.struct_attrs)) for n in names))
            except Exception as ex:  # noqa
                # with several members that do not survive the round trip, WHICH error surfaces first follows the
                # order of declaration, which the property does not speak about
                xn = E.exn_name(ex)
                des = "deserialize-raises:" + ("TypeError|ValueError" if len(names) > 1 and xn in
                                                ("TypeError", "ValueError") else xn)
        out["beh"].append(("ok", state, ser, des))
    return out


def canon_doc(value, doc, depth=0):
    """The serialized document with every list that stands for a set/frozenset VALUE sorted (best effort: walks the
    stored value and its document in parallel through lists, tuples, deques and dicts)."""
    import collections
    if depth > 8:
        return doc
    try:
        if isinstance(value, (set, frozenset)) and isinstance(doc, list):
            return sorted(doc, key=lambda x: repr(E.reify(x)))
        if isinstance(value, (list, tuple, collections.deque)) and isinstance(doc, list) and len(value) == len(doc):
            return [canon_doc(v, d, depth + 1) for v, d in zip(value, doc)]
        if isinstance(value, dict) and isinstance(doc, dict) and len(value) == len(doc):
            return {k: canon_doc(v, d, depth + 1) for (k, d), v in zip(doc.items(), value.values())}
    except Exception:  # noqa
        pass
    return doc


def gen_candidates(rnd, members, ctx, per_field, accepts=None):
    """Keyword-argument sets: a valid baseline, then per member valid / corrupted / arbitrary / None / absent.
    Returns (candidates, baseline_is_valid)."""
    base = []
    ok = False
    for _ in range(12):
        base = []
        for m in members:
            try:
                base.append((m["name"], G.gen_valid(rnd, m["f"], ctx.instances)))
            except Exception:  # noqa
                base.append((m["name"], G.gen_any(rnd)))
        if accepts is None:
            break
        try:
            accepts(**{k: G.unreify(v, ctx.classes) for k, v in base})
            ok = True
            break
        except Exception:  # noqa
            continue
    out = [list(base)]
    for i, m in enumerate(members):
        vals = [("none",)]
        for _ in range(per_field):
            r = rnd.random()
            try:
                v = G.gen_valid(rnd, m["f"], ctx.instances)
                if r > 0.45:
                    v = G.corrupt(rnd, m["f"], v, ctx.instances)
                if r > 0.85:
                    v = G.gen_any(rnd)
            except Exception:  # noqa
                v = G.gen_any(rnd)
            vals.append(v)
        for v in vals:
            kw = list(base)
            kw[i] = (m["name"], v)
            out.append(kw)
        out.append([p for j, p in enumerate(base) if j != i])       # member absent
    out = [kw for kw in out if not has_nonfinite(kw)]
    return out, ok


def has_nonfinite(r):
    """NaN / inf anywhere in a reified value (hash(nan) is identity-based: set order, hence the serialized list
    order, would differ between two constructions of the very same class)."""
    if not isinstance(r, (tuple, list)):
        return False
    if len(r) >= 2 and r[0] == "other" and r[1] == "float":
        return True
    return any(has_nonfinite(x) for x in r)


ASPECTS = ("fields", "required", "objs", "defaults", "beh")


def first_difference(o1, o2):
    if o1["def"] != o2["def"]:
        return "definition", (o1["def"], o2["def"])
    if o1["def"] != "ok":
        return None, None
    for a in ASPECTS:
        if o1[a] != o2[a]:
            if a == "beh":
                for i, (x, y) in enumerate(zip(o1[a], o2[a])):
                    if x != y and not both_fail_to_serialize(x, y):
                        return "behaviour", (i, x, y)
                continue
            if a in ("objs", "defaults"):
                for n in sorted(set(o1[a]) | set(o2[a])):
                    if o1[a].get(n) != o2[a].get(n):
                        return ("field-object" if a == "objs" else "default"), (n, o1[a].get(n), o2[a].get(n))
            return ("field-set" if a == "fields" else a), (o1[a], o2[a])
    return None, None


def without_members(o, names):
    """An observation of a defined class restricted to the members NOT in names (behaviour is not separable)."""
    keep = lambda d: {k: v for k, v in d.items() if k not in names}
    return {"def": "ok", "fields": [n for n in o["fields"] if n not in names],
            "required": [n for n in o["required"] if n not in names], "objs": keep(o["objs"]),
            "defaults": keep(o["defaults"]), "beh": []}


def both_fail_to_serialize(x, y):
    """Same stored state, serialization raises for both: with two unserialisable members the error that
    surfaces first follows the order of declaration, which the property does not speak about."""
    return (x[0] == "ok" and y[0] == "ok" and x[1] == y[1] and x[2].startswith("serialize-raises:")
            and y[2].startswith("serialize-raises:"))


def decl_sig(dc):
    s = ("annot:" if dc["annot"] else "assign:") + P.signature(dc["ty"])
    if dc["eq"] is not None:
        s += "=d"
    if dc["kw"] is not None:
        s += "(default=d)"
    if dc["opt"]:
        s += "+_optional"
    return s


def union_stat(d):
    """Shape of a top-level typing Union/Optional declaration: arity after flattening, position of None,
    nesting, whether the field is also listed in _optional."""
    s = d["ty"]
    if s[0] not in ("union", "optional") or not d["annot"]:
        return None
    leaves = P.flat_leaves(s)
    pos = [i for i, a in enumerate(leaves) if a == ("none",)]
    where = "absent" if not pos else ("last" if pos == [len(leaves) - 1] else ("first" if pos == [0] else "middle"))
    nested = any(a[0] in ("union", "optional") for a in (s[1] if s[0] == "union" else [s[1]]))
    return "%s:arity=%d,none=%s,nested=%s,listed=%s" % (s[0], len(leaves), where, nested, d["opt"])


def func_sig(d):
    """Position and return-annotation style of the function-field names in a declaration (None: there are none)."""
    fs = [n for n in P.walk(d["ty"]) if n[0] == "func"]
    if not fs:
        return None
    where = "alone" if d["ty"][0] == "func" else "in:" + P.top_form(d["ty"])
    return "%s%s:func[%s]" % ("annot:" if d["annot"] else "assign:", where,
                              ",".join(sorted({"quoted" if n[2] else "plain" for n in fs})))


def falsy(r):
    try:
        return not G.unreify(r)
    except Exception:  # noqa
        return False


def attribute(aspect, detail, d_base, d_var, o_base, o_var, name):
    """Finding key for a disagreement between two variants that differ in ONE member's declaration."""
    tb, tv = P.defect_tags(d_base["ty"]), P.defect_tags(d_var["ty"])
    if aspect == "definition":
        pair = sorted([(d_base, o_base), (d_var, o_var)], key=lambda p: p[1]["def"] != "ok")
        (acc, oa), (rej, orj) = pair
        dflt = acc["kw"]
        # a list / dict / set default: refused with ValueError("... mutable value as default ...") on SOME paths only
        # (`=` next to a Field instance or a typing generic; after validation for the latter), accepted on the others
        # (default=, `=` next to a Field class)
        vals = [x for x in (d_base["eq"], d_base["kw"], d_var["eq"], d_var["kw"]) if x is not None]
        if vals and all(x == vals[0] for x in vals) and vals[0][0] in ("list", "dict", "set") and \
                any(d["eq"] is not None and o["def"] == "ValueError" and o.get("mutable_msg")
                    for d, o in ((d_base, o_base), (d_var, o_var))):
            return K_MUTABLE
        if (oa["def"] == "ok" and orj["def"] in ("TypeError", "ValueError") and dflt is not None and falsy(dflt)
                and rej["eq"] is not None and rej["eq"] == dflt):
            return K_F12
    if ("pep604-plain" in tb) != ("pep604-plain" in tv):
        o_t = o_base if "pep604-plain" in tb else o_var
        if o_t["def"] == "ok" and name not in o_t["fields"]:
            return K_PEP604
    if ("tuple-single-class" in tb) != ("tuple-single-class" in tv):
        o_t = o_base if "tuple-single-class" in tb else o_var
        if o_t["def"] == "ok" and o_t["objs"].get(name) == ("defective",):
            return K_TUPLE
    if func_sig(d_base) or func_sig(d_var):
        # a parameterless function declared `-> Field`: what matters is where it stands and how its return type is written
        side = lambda d: func_sig(d) or (("annot:" if d["annot"] else "assign:") + P.top_form(d["ty"]))
        a, b = sorted([side(d_base), side(d_var)])
        return "C13/%s/function-field/%s~%s" % (aspect, a, b)
    if aspect == "required" and (union_stat(d_base) or union_stat(d_var)):
        # which fields a typing Union/Optional marks optional depends on the SHAPE of the union only
        side = lambda d: union_stat(d) or (("annot:" if d["annot"] else "assign:") + P.top_form(d["ty"])
                                           + ("+_optional" if d["opt"] else ""))
        a, b = sorted([side(d_base), side(d_var)])
        return "C13/required/typing-optional/%s~%s" % (a, b)
    a, b = sorted([decl_sig(d_base), decl_sig(d_var)])
    return "C13/%s/%s~%s" % (aspect, a, b)


# ----------------------------------------------------------------------------- the oracle on the implementation

def run_class_cases(rep, cases, ctx, workdir, rnd, per_field):
    """Realises all variants in two modules and compares them.  Returns list of probe declarations seen."""
    texts = []
    for c in cases:
        names = [m["name"] for m in c["members"]]
        for vi, v in enumerate(c["variants"]):
            texts.append(class_src("K%d_%d" % (c["idx"], vi), names, v["decls"]))
    text = "\n".join(texts)
    mods = [load_module(workdir, text, ctx, False), load_module(workdir, text, ctx, True)]
    try:
        for c in cases:
            names = [m["name"] for m in c["members"]]
            k0 = getattr(mods[0], "K%d_0" % c["idx"])
            cands, base_ok = gen_candidates(rnd, c["members"], ctx, per_field,
                                            None if isinstance(k0, BaseException) else k0)
            obs = [[observe_class(getattr(mod, "K%d_%d" % (c["idx"], vi)), names, cands, ctx)
                    for vi in range(len(c["variants"]))] for mod in mods]
            if not base_ok:
                # several members may be invalid at once: which error surfaces first follows the order of
                # declaration, which the property does not speak about — compare up to TypeError/ValueError
                for row in obs:
                    for o in row:
                        if o["def"] == "ok":
                            o["beh"] = [("raise", "TypeError|ValueError") if b[0] == "raise" and b[1] in
                                        ("TypeError", "ValueError") else b for b in o["beh"]]
            stream = "class-variants" if not c.get("lattice") else "lattice:" + c["lattice"]
            rep.stat(stream, "baseline-valid:%s" % base_ok)
            c["obs"] = obs
            c["cands"] = cands
            base = obs[0][0]
            nv = len(c["variants"])
            rep.count(stream, 2 * nv, tuple(decl_sig(d) for d in c["variants"][0]["decls"]))
            rep.count("behaviour", 2 * nv * len(cands))
            rep.stat(stream, "definition:" + base["def"])
            for v in c["variants"]:
                for i in changed_idxs(v):
                    us = union_stat(v["decls"][i])
                    if us:
                        rep.stat("typing-unions", us)
                        rep.count("typing-unions", 2, us)
            # semantic expectation of the base variant
            check_semantic(rep, c, base)
            for vi in range(1, nv):
                v = c["variants"][vi]
                i = v["changed"]
                if i == "all":
                    rep.stat(stream, "form:all-members-respelled")
                    aspect, detail = first_difference(base, obs[0][vi])
                    if aspect:
                        # explained by the single-member variant carrying the same declaration?
                        explained = any(w["changed"] not in (None, "all")
                                        and w["decls"][w["changed"]] == v["decls"][w["changed"]]
                                        and first_difference(base, obs[0][vj])[0]
                                        for vj, w in enumerate(c["variants"]))
                        if not explained:
                            report(rep, "C13/combination/%s/%s~%s" % (
                                aspect, "+".join(decl_sig(d) for d in c["variants"][0]["decls"]),
                                "+".join(decl_sig(d) for d in v["decls"])), aspect, detail, c, 0, vi, False, False)
                    continue
                aspect, detail = first_difference(base, obs[0][vi])
                rep.stat(stream, "form:" + P.top_form(v["decls"][i]["ty"]))
                if aspect:
                    key = attribute(aspect, detail, c["variants"][0]["decls"][i], v["decls"][i], base, obs[0][vi],
                                    names[i])
                    report(rep, key, aspect, detail, c, 0, vi, False, False)
            for vi in range(nv):
                aspect, detail = first_difference(obs[0][vi], obs[1][vi])
                if aspect:
                    v = c["variants"][vi]
                    long_names = [n for n, d in zip(names, v["decls"]) if d["annot"] and stored_len(d) >= 50]
                    o_f = obs[1][vi]
                    if long_names and o_f["def"] == "ok" and obs[0][vi]["def"] == "ok" and \
                            set(obs[0][vi]["fields"]) - set(o_f["fields"]) == set(long_names) & set(obs[0][vi]["fields"]):
                        key = K_FUTURE
                        # the known defect explains the lost members only: the OTHER members must still agree
                        rest = without_members(obs[0][vi], long_names), without_members(o_f, long_names)
                        a2, d2 = first_difference(*rest)
                        if a2:
                            report(rep, "C13/future-annotations/%s/%s" % (a2, "+".join(
                                decl_sig(d) for n, d in zip(names, v["decls"]) if n not in long_names)),
                                a2, d2, c, vi, vi, False, True)
                    elif long_names and obs[0][vi]["def"] != o_f["def"] and \
                            all(n not in (o_f.get("fields") or []) for n in long_names):
                        key = K_FUTURE
                    elif any(func_sig(d) for d in v["decls"]):
                        key = "C13/future-annotations/%s/function-field/%s" % (
                            aspect, "+".join(sorted({func_sig(d) for d in v["decls"] if func_sig(d)})))
                    else:
                        key = "C13/future-annotations/%s/%s" % (aspect, "+".join(decl_sig(d) for d in v["decls"]))
                    report(rep, key, aspect, detail, c, vi, vi, False, True)
    finally:
        for m in mods:
            unload(m)


def check_semantic(rep, c, base):
    """The base variant against what the semantic class says (closes the star of comparisons)."""
    if base["def"] != "ok":
        return
    for m, d in zip(c["members"], c["variants"][0]["decls"]):
        n = m["name"]
        tags = P.defect_tags(d["ty"])
        got = base["objs"].get(n)
        want = ("field", P.norm_field(m["f"]))
        if got != want:
            if "pep604-plain" in tags and got is None:
                key = K_PEP604
            elif "tuple-single-class" in tags and got == ("defective",):
                key = K_TUPLE
            else:
                key = "C13/field-object/%s~semantic" % decl_sig(d)
            report(rep, key, "field-object", (n, got, want), c, 0, 0, True, False)
            continue
        want_req = (not m["opt"]) and m["default"] is None
        if (n in base["required"]) != want_req:
            report(rep, "C13/required/%s~semantic" % decl_sig(d), "required", (n, base["required"], want_req),
                   c, 0, 0, True, False)


def report(rep, key, aspect, detail, c, v1, v2, semantic, future):
    names = [m["name"] for m in c["members"]]
    src1 = "class A(Structure):\n" + "\n".join("    " + l for l in class_body(names, c["variants"][v1]["decls"]))
    src2 = "class B(Structure):\n" + "\n".join("    " + l for l in class_body(names, c["variants"][v2]["decls"]))
    what = "spellings disagree on %s: %s" % (aspect, repr(detail)[:300])
    if semantic:
        what = "declaration does not produce the declared field (%s): %s" % (aspect, repr(detail)[:300])
    if future:
        what = "the same class differs with `from __future__ import annotations` (%s): %s" % (aspect, repr(detail)[:300])
    rep.finding(key, what + "\n" + src1 + ("\n" + src2 if v1 != v2 else ""),
                {"members": c["members"], "decls_a": c["variants"][v1]["decls"], "decls_b": c["variants"][v2]["decls"],
                 "future_b": future, "semantic": semantic, "candidates": c.get("cands"), "aspect": aspect,
                 "python": P.module_prelude(src1 + src2) + src1 + "\n" + src2 + "\n"})


# ----------------------------------------------------------------------------- correspondence (in Coq)

HEADER = """From Coq Require Import ZArith NArith String List Bool. Import ListNotations.
From TP Require Import Check.C13chk.
Local Open Scope string_scope.
%s
"""


def corrupt_spelling(rnd, s):
    """A spelling with one node replaced by something of the wrong kind for its position."""
    wrong = [("name", "int"), ("none",), ("name", "complex"), ("name", "list"), ("fcls", "Tuple"), ("fcls", "AnyOf"),
             ("bare", "List"), ("pep585", "list", [("name", "int")]), ("name", "typing.Union"),
             ("or", ("name", "int"), ("name", "str")), ("or", ("fcls", "Integer"), ("none",)),
             ("pep585", "tuple", [("name", "int")]), ("union", [("name", "int"), ("name", "complex")]),
             ("typing", "List", [("none",)]), ("pep585", "list", [("none",)]), ("struct", "Inner"),
             ("pep585", "dict", [("name", "str")]), ("or", ("fcls", "Integer"), ("pep585", "list", [("name", "int")])),
             ("sub", "Set", [("fcls", "Array")]), ("ctor1", "Set", ("fcls", "Map"), P.NO_SZ, False),
             ("sub", "Map", [("fcls", "Array"), ("fcls", "Integer")]),
             ("func", dict(INT_F), False), ("func", {"t": "str", "min": 2}, True)]
    nodes = list(P.walk(s))
    target = rnd.choice(nodes)
    repl = rnd.choice(wrong)

    def rebuild(n):
        if n is target:
            return repl
        k = n[0]
        if k in ("typing", "pep585", "sub"):
            return (k, n[1], [rebuild(a) for a in n[2]])
        if k == "ctorN":
            return (k, n[1], [rebuild(a) for a in n[2]]) + tuple(n[3:])
        if k == "union":
            return (k, [rebuild(a) for a in n[1]])
        if k == "optional":
            return (k, rebuild(n[1]))
        if k == "or":
            return (k, rebuild(n[1]), rebuild(n[2]))
        if k == "ctor1":
            return (k, n[1], rebuild(n[2])) + tuple(n[3:])
        return n
    return rebuild(s)


_NS = {}


def _eval_ns(ctx):
    key = id(ctx)
    if key not in _NS:
        ns = dict(ctx.ns)
        exec(P.module_prelude(""), ns)
        _NS[key] = [0, ns]
    ent = _NS[key]
    if ent[0] != P.n_func_defs():
        exec(P.func_prelude_since(ent[0]), ent[1])
        ent[0] = P.n_func_defs()
    return ent[1]


def union_kept(s, ctx):
    """Every typing Union/Optional in s denotes, after typing's FLATTENING of nested Unions, exactly the members
    written, in order: typing de-duplicated nothing (checked on the real typing object) and the model's notion of
    object identity would de-duplicate nothing either (typing.List[int] vs list[int], see spellgen.model_key)."""
    ns = _eval_ns(ctx)
    if not P.typing_cache_stable(s):
        return False
    for n in P.walk(s):
        if n[0] in ("union", "optional"):
            if not P.model_nodup(n):
                return False
            try:
                obj = eval(P.render(n), ns)
            except Exception:  # noqa
                return True       # evaluation itself raises: compared as an outcome
            if len(getattr(obj, "__args__", ())) != len(P.flat_leaves(n)):
                return False
    return True


def observe_probe(obj, ctxkind):
    if isinstance(obj, BaseException):
        return ("raise", E.exn_name(obj))
    fo = obj.get_all_fields_by_name().get("a")
    if fo is None:
        return ("ignored",)
    o = observe_fieldobj(fo)
    if o[0] == "field" and ctxkind == "sub":
        return ("field", o[1]["fs"][0])
    return o


def emit_sobs(o):
    if o[0] == "field":
        return "(ObsField %s)" % G.emit_field(o[1])
    if o[0] == "ignored":
        return "ObsIgnored"
    if o[0] == "defective":
        return "ObsDefective"
    return "(ObsRaise %s)" % E.exn(o[1])


def emit_decl(name, dc):
    return ("{| d_name := %s; d_annot := %s; d_ty := %s; d_eq := %s; d_kw := %s; d_opt := %s |}" % (
        E.pstr(name), E.blit(dc["annot"]), P.emit(dc["ty"]), E.opt(dc["eq"], E.pval), E.opt(dc["kw"], E.pval),
        E.blit(dc["opt"])))


def observe_decl(obj):
    if isinstance(obj, BaseException):
        return ("raise", E.exn_name(obj))
    fo = obj.get_all_fields_by_name().get("a")
    if fo is None:
        return ("ignored",)
    o = observe_fieldobj(fo)
    if o[0] != "field":
        return o
    dv = getattr(fo, "_default", None)
    return ("field", o[1], None if dv is None else E.reify(dv), "a" in obj._required)


def emit_dcase(dc, o):
    fields = P.fields_in(dc["ty"], [])
    vals = [v for v in (dc["eq"], dc["kw"]) if v is not None]
    tbl = G.match_table(fields, vals)
    if o[0] == "field":
        ob = "(DField %s %s %s)" % (G.emit_field(o[1]), E.opt(o[2], E.pval), E.blit(o[3]))
    elif o[0] == "ignored":
        ob = "DIgnored"
    elif o[0] == "defective":
        ob = "DDefective"
    else:
        ob = "(DRaise %s)" % E.exn(o[1])
    return "{| dc_tbl := %s; dc_env := env0; dc_decl := %s; dc_obs := %s |}" % (G.emit_table(tbl), emit_decl("a", dc), ob)


def run_correspondence(rep, spell_cases, decl_cases, ctx, workdir, fut_cases=()):
    """spell_cases: [(ctxkind, spelling)], decl_cases: [decl dict] realised as one probe class each WITHOUT the
    __future__ import, fut_cases: [decl dict] realised WITH it; evaluates the model in Coq."""
    fobs = []
    if fut_cases:
        fmod = load_module(workdir, "\n".join(class_src("F%d" % i, ["a"], [dc]) for i, dc in enumerate(fut_cases)),
                           ctx, True)
        try:
            fobs = [observe_decl(getattr(fmod, "F%d" % i)) for i in range(len(fut_cases))]
        finally:
            unload(fmod)
    texts = []
    for i, (ck, s) in enumerate(spell_cases):
        src = P.render(s)
        line = {"annot": "a: %s", "assign": "a = %s", "sub": "a: OneOf[%s]"}[ck] % src
        texts.append("try:\n    class S%d(Structure):\n        %s\nexcept Exception as _e:\n    S%d = _e\n" % (i, line, i))
    for i, dc in enumerate(decl_cases):
        texts.append(class_src("D%d" % i, ["a"], [dc]))
    mod = load_module(workdir, "\n".join(texts), ctx, False)
    try:
        sobs = [observe_probe(getattr(mod, "S%d" % i), ck) for i, (ck, _) in enumerate(spell_cases)]
        dobs = [observe_decl(getattr(mod, "D%d" % i)) for i in range(len(decl_cases))]
    finally:
        unload(mod)
    skip = lambda o: o[0] == "unreifiable"
    shards = []
    items = []
    for (ck, s), o in zip(spell_cases, sobs):
        if skip(o):
            continue
        items.append(("s", "{| sc_ctx := %s; sc_ty := %s; sc_obs := %s |}" % (
            {"annot": "CxAnnot", "assign": "CxAssign", "sub": "CxSub"}[ck], P.emit(s), emit_sobs(o)), (ck, s, o)))
    ditems = []
    for dc, o in zip(decl_cases, dobs):
        if skip(o):
            continue
        ditems.append(("d", emit_dcase(dc, o), (dc, o)))
    fitems = []
    for dc, o in zip(fut_cases, fobs):
        if skip(o):
            continue
        P.FUTURE_MODULE[0] = True       # every `-> Field` of the module is a string there
        try:
            fitems.append(("f", "{| fc_len := %s; fc_case := %s |}" % (E.zlit(stored_len(dc)), emit_dcase(dc, o)), (dc, o)))
        finally:
            P.FUTURE_MODULE[0] = False
    per = 250
    index = []
    for kind, its in (("s", items), ("d", ditems), ("f", fitems)):
        for s0 in range(0, len(its), per):
            chunk = its[s0:s0 + per]
            ty = {"s": "scase", "d": "dcase", "f": "fcase"}[kind]
            fn_m, fn_u = {"s": ("smismatch", "sunmodelled"), "d": ("dmismatch", "dunmodelled"),
                          "f": ("fmismatch", "funmodelled")}[kind]
            body = "Definition cases : list %s := %s.\n" % (ty, E.lst(["\n " + t for _, t, _ in chunk]))
            body += "Eval vm_compute in (indices_where %s cases 0).\n" % fn_m
            body += "Eval vm_compute in (indices_where %s cases 0).\n" % fn_u
            if kind == "d":
                body += "Eval vm_compute in (indices_where opt_spec_applies cases 0).\n"
                body += "Eval vm_compute in (indices_where opt_spec_fails cases 0).\n"
            shards.append(body)
            index.append((kind, chunk))
    res = core.eval_cases(shards, "c13", HEADER % ctx.coq_env())
    out = {"s": {"n": len(items), "mismatch": [], "unmodelled": 0},
           "d": {"n": len(ditems), "mismatch": [], "unmodelled": 0, "spec_applies": 0, "spec_fails": []},
           "f": {"n": len(fitems), "mismatch": [], "unmodelled": 0, "obs": fobs}}
    for (kind, chunk), (rc, so, se) in zip(index, res):
        vals = core.parse_eval(so)
        if rc != 0 or len(vals) != (4 if kind == "d" else 2):
            raise RuntimeError("case shard failed to evaluate: %s" % (so + se)[-1500:])
        for i in core.parse_nat_list(vals[0]):
            out[kind]["mismatch"].append(chunk[i][2])
        out[kind]["unmodelled"] += len(core.parse_nat_list(vals[1]))
        if kind == "d":
            out["d"]["spec_applies"] += len(core.parse_nat_list(vals[2]))
            out["d"]["spec_fails"] += [chunk[i][2] for i in core.parse_nat_list(vals[3])]
    return out, sobs, dobs


# ----------------------------------------------------------------------------- run / replay

def run(rep, tier):
    rnd = random.Random(core.seed() * 1000003 + 13)
    n_classes = 160 if tier == "quick" else 900
    max_depth = 2 if tier == "quick" else 3
    per_field = 4 if tier == "quick" else 6
    import time
    t0 = time.time()
    timing = {}
    proofs_ok, model_ok = core.standard_proof_obligations(rep, "C13", ["theories/Check/C13chk.vo"])
    timing["build+proofs"] = round(time.time() - t0, 1)
    ctx = S.Context()
    workdir = core.workdir("c13")
    import glob
    for old in glob.glob(os.path.join(core.REPLAYS, "C13-*.json")):
        os.remove(old)
    try:
        cases = [gen_class_case(rnd, i, ctx, max_depth) for i in range(n_classes)]
        cases += optional_lattice(ctx, len(cases), tier)
        cases += default_lattice(ctx, len(cases), tier)
        cases += mutable_default_lattice(ctx, len(cases), tier)
        cases += function_lattice(ctx, len(cases), tier)
        cases += future_length_lattice(ctx, len(cases), tier)
        cases += tuple_lattice(ctx, len(cases), tier)
        batch = 35
        t1 = time.time()
        for s0 in range(0, len(cases), batch):
            run_class_cases(rep, cases[s0:s0 + batch], ctx, workdir, rnd, per_field)
            for c in cases[s0:s0 + batch]:          # observations are only needed again for the two samples below
                if c is not cases[0] and c is not cases[-1]:
                    c.pop("obs", None)
                    c.pop("cands", None)
        timing["oracle"] = round(time.time() - t1, 1)
        t1 = time.time()
        # spelled expressions bound to a name and re-used by several declarations (harness/c13_alias.py)
        from harness import c13_alias as AL
        alias_cases = AL.lattice_cases(tier)
        for _ in range(60 if tier == "quick" else 600):
            ac = AL.random_case(rnd, gen_semantic_field, ctx, max_depth)
            if ac:
                alias_cases.append(ac)
        alias_cases += AL.factory_lattice(tier)
        for _ in range(30 if tier == "quick" else 300):
            ac = AL.random_factory_case(rnd, gen_semantic_field, ctx, max_depth)
            if ac:
                alias_cases.append(ac)
        AL.run_cases(rep, alias_cases, ctx, rnd, per_field, sys.modules[__name__])
        timing["alias-modules"] = round(time.time() - t1, 1)
        t1 = time.time()
        # correspondence cases: every spelling used, in its own context, plus Cls[...] context and corruptions
        seen = set()
        spell_cases = []
        decl_cases = []

        def add_spell(ck, s):
            key = (ck, P.render(s))
            if key in seen or not union_kept(s, ctx):
                return
            seen.add(key)
            spell_cases.append((ck, s))
        fut_cases = []
        # the deterministic lattices first: the limits below must never cut them off
        for c in sorted(cases, key=lambda c: 0 if c.get("lattice") else 1):
            for v in c["variants"]:
                for i in changed_idxs(v):
                    d = v["decls"][i]
                    add_spell("annot" if d["annot"] else "assign", d["ty"])
                    r = rnd.random()
                    if r < 0.35:
                        add_spell("sub", d["ty"])
                    if r > 0.6:
                        add_spell(rnd.choice(["annot", "assign", "sub"]), corrupt_spelling(rnd, d["ty"]))
                    if r < 0.2 and d["annot"]:
                        add_spell("assign", d["ty"])
                    dk = ("d", decl_line("a", d), d["opt"])
                    if (d["eq"] is not None or d["kw"] is not None or d["opt"]
                            or d["ty"][0] in ("union", "optional")) and dk not in seen \
                            and union_kept(d["ty"], ctx):
                        seen.add(dk)
                        decl_cases.append(d)
                    fk = ("f", decl_line("a", d), d["opt"])
                    if fk not in seen and union_kept(d["ty"], ctx) and \
                            (d["annot"] or rnd.random() < 0.1) and (c.get("lattice") or rnd.random() < 0.5):
                        seen.add(fk)
                        fut_cases.append(d)
        for ac in alias_cases:
            for st in ac["steps"]:
                for fd in st["fields"]:
                    if not P.has_lit(fd["ty"]):
                        add_spell("annot" if fd["annot"] else "assign", P.inline(fd["ty"]))
        limit = 3000 if tier == "quick" else 12000
        spell_cases = spell_cases[:limit]
        decl_cases = decl_cases[:limit]
        fut_cases = fut_cases[:limit]
        for ck, s in spell_cases:
            rep.count("spelling->field", 1, (ck, P.signature(s)))
            rep.stat("spelling->field", "ctx:" + ck)
            rep.stat("spelling->field", "form:" + P.top_form(s))
        for d in decl_cases:
            rep.count("declaration->(field,default,required)", 1, decl_sig(d))
        for d in fut_cases:
            L = stored_len(d)
            rep.count("future-declaration", 1, (decl_sig(d), min(L, 60)))
            rep.stat("future-declaration", "annotation-length:" + ("not-an-annotation" if not d["annot"] else
                     "<40" if L < 40 else ">60" if L > 60 else str(L)))
        if cases:
            c = cases[0]
            rep.sample({"class": class_body([m["name"] for m in c["members"]], c["variants"][0]["decls"]),
                        "variants": len(c["variants"]), "observed": {k: c["obs"][0][0].get(k) for k in ("def", "fields", "required")}})
            c = cases[-1]
            rep.sample({"class": class_body([m["name"] for m in c["members"]], c["variants"][-1]["decls"]),
                        "variants": len(c["variants"]), "observed": {k: c["obs"][0][-1].get(k) for k in ("def", "fields", "required")}})
        if model_ok:
            try:
                r, sobs, dobs = run_correspondence(rep, spell_cases, decl_cases, ctx, workdir, fut_cases)
            except RuntimeError as ex:
                rep.broken("correspondence:coq-eval", str(ex))
                r = None
            if r is not None:
                for o in sobs:
                    rep.stat("spelling->field", "outcome:" + (o[0] if o[0] != "raise" else o[1]))
                for o in dobs:
                    rep.stat("declaration->(field,default,required)", "outcome:" + (o[0] if o[0] != "raise" else o[1]))
                rep.cov["streams"]["spelling->field"]["outside_model_skipped"] = r["s"]["unmodelled"]
                rep.cov["streams"]["declaration->(field,default,required)"]["outside_model_skipped"] = r["d"]["unmodelled"]
                rep.obligation("correspondence:spelling->field", not r["s"]["mismatch"],
                               "%d cases, %d mismatches" % (r["s"]["n"], len(r["s"]["mismatch"])))
                rep.obligation("correspondence:declaration", not r["d"]["mismatch"],
                               "%d cases, %d mismatches" % (r["d"]["n"], len(r["d"]["mismatch"])))
                # spec clause of C13_optional_marking evaluated in Coq on the observed declarations
                rep.count("spec:typing-optional-marking", r["d"]["spec_applies"])
                for dc, o in r["d"]["spec_fails"]:
                    want = not dc["opt"] and not any(a in (("none",), ("fcls", "NoneField")) or
                                                     (a[0] == "inst" and a[1]["t"] == "none")
                                                     for a in P.flat_leaves(dc["ty"]))
                    rep.finding("C13/required/typing-optional/spec:%s" % union_stat(dc),
                                "`%s`%s: observed %r; C13_optional_marking requires a field that is %s"
                                % (decl_line("a", dc), " listed in _optional" if dc["opt"] else "", o,
                                   "required" if want else "not required"),
                                {"spec_decl": dc, "expect_required": want,
                                 "python": P.MODULE_IMPORTS + "class A(Structure):\n" + "\n".join(
                                     "    " + l for l in class_body(["a"], [dc])) + "\n"})
                rep.obligation("spec-on-observed:typing-optional-marking", not r["d"]["spec_fails"],
                               "%d declarations inside the domain of C13_optional_marking, %d failures"
                               % (r["d"]["spec_applies"], len(r["d"]["spec_fails"])))
                for o in r["f"]["obs"]:
                    rep.stat("future-declaration", "outcome:" + (o[0] if o[0] != "raise" else o[1]))
                rep.cov["streams"].setdefault("future-declaration", {})["outside_model_skipped"] = r["f"]["unmodelled"]
                rep.obligation("correspondence:future-declaration", not r["f"]["mismatch"],
                               "%d cases, %d mismatches" % (r["f"]["n"], len(r["f"]["mismatch"])))
                concrete = any(not v["no_input"] for v in rep.violations)
                if r["s"]["mismatch"] and not concrete:
                    ck, s, o = r["s"]["mismatch"][0]
                    rep.broken("correspondence:spelling->field",
                               "model (Struct/Spelling.v) and typedpy differ on %d spellings; all spellings of every "
                               "explored class agree with each other" % len(r["s"]["mismatch"]),
                               {"context": ck, "spelling": P.render(s), "observed": repr(o),
                                "others": [(a, P.render(b), repr(c_)) for a, b, c_ in r["s"]["mismatch"][1:8]]})
                if r["d"]["mismatch"] and not concrete:
                    dc, o = r["d"]["mismatch"][0]
                    rep.broken("correspondence:declaration",
                               "model (Struct/Spelling.v class_result) and typedpy differ on %d declarations"
                               % len(r["d"]["mismatch"]),
                               {"declaration": decl_line("a", dc), "optional": dc["opt"], "observed": repr(o),
                                "others": [(decl_line("a", a), repr(b)) for a, b in r["d"]["mismatch"][1:8]]})
                if r["f"]["mismatch"] and not concrete:
                    dc, o = r["f"]["mismatch"][0]
                    rep.broken("correspondence:future-declaration",
                               "model (Struct/Spelling.v class_result_future, guard from Gen/AnnotGuards.v) and typedpy "
                               "differ on %d declarations under `from __future__ import annotations`"
                               % len(r["f"]["mismatch"]),
                               {"declaration": decl_line("a", dc), "optional": dc["opt"], "observed": repr(o),
                                "stored_annotation_length": stored_len(dc),
                                "others": [(decl_line("a", a), repr(b)) for a, b in r["f"]["mismatch"][1:8]]})
        timing["correspondence"] = round(time.time() - t1, 1)
    finally:
        core.cleanup(workdir)
    import resource
    timing["max_rss_mb"] = resource.getrusage(resource.RUSAGE_SELF).ru_maxrss // 1024
    rep.cov["timing_s"] = timing
    if not proofs_ok:
        from harness.props.c17 import broken_build
        broken_build(rep)
    rep.assumptions += [
        "typing's own normalisation of Union arguments (flattening, de-duplication) and its argument cache are CPython's, "
        "not typedpy's: flattening is modelled in pyeval and proved (C13_union_flatten); Unions typing de-duplicates, and "
        "typing Unions used as an ARGUMENT of another typing construct in a non-canonical member order (their meaning "
        "depends on what the process evaluated before: typing's cache compares Unions as sets), are not generated",
        "re.match is an oracle (Section variable) for default validation, instantiated per case from the real re module",
        "defaults are immutable scalars (on scalar fields and unions of scalars) and list/dict/set literals (on collection "
        "fields); callable and None defaults are outside the explored space",
        "exception precedence between several ill-formed members of one class is not compared (at most one per class)",
        "the guards of Gen/AnnotGuards.v are recognised by AST shape; an unrecognised shape fails C13_src_rules (broken "
        "obligation), it is not translated",
    ]
    return rep.finish(
        rule="class cases = semantic classes of 1-4 members (field vocabulary of fieldgen, nesting <= %d, 22%% of members an "
             "AnyOf of 2-4 different members with None at a random position, optional-ness, defaults valid/invalid/falsy); "
             "variants = a random base spelling per member + one variant per other declaration form of each member (typing "
             "Unions: as written, Optional[..], nested groups; each listed and not listed in _optional) + two variants with "
             "ALL members respelled, each realised with and without `from __future__ import annotations`; deterministic "
             "lattices (independent of VERIF_SEED): union shapes (arity 2-4 x position of None x nesting x member spelling x "
             "listed/unlisted), scalar defaults x declaration forms, mutable defaults x declaration forms, annotation lengths "
             "around the __future__ bound, one-item Tuple fields (4 item kinds x uniqueItems) in every spelling; candidate values = valid / one-point corruption / arbitrary / None / absent per "
             "member, plus deserialization of the serialized form; correspondence cases = every distinct (context, spelling) "
             "and declaration used (lattices first), Cls[...] context and wrong-kind corruptions, and the declarations again "
             "under the __future__ import with the length of the stored annotation text; alias modules = a spelling bound "
             "to a name N and 2-5 classes using N alone / under another field name / with a default / as an operand of |, "
             "Optional, Union, list, Array, AnyOf, OneOf, Tuple, Map (lattice: every alias form x every use between two "
             "plain uses; plus random), each class observed after every step and compared with the written-out module; "
             "factory modules = def make(T): class S: a: T; b: <use of T>, called 2-4 times with different bindings "
             "(lattice: 4 binding sequences x 11 uses; plus random); function fields = `def Fn() -> Field` / `-> \"Field\"` "
             "as annotation, attribute and argument of Cls[...] (random + lattice of 7 fields x 10-12 positions); "
             "distinct = distinct spelling "
             "signatures" % max_depth)


def replay(obj):
    ctx = S.Context()
    workdir = core.workdir("c13replay")
    try:
        if "alias_case" in obj:
            from harness import c13_alias as AL
            return AL.replay(obj, ctx, sys.modules[__name__])
        if "spec_decl" in obj:
            dc = obj["spec_decl"]
            dc = dict(dc, ty=_tuplify(dc["ty"]), eq=_tuplify(dc["eq"]), kw=_tuplify(dc["kw"]))
            m = load_module(workdir, class_src("A", ["a"], [dc]), ctx, False)
            print("class A(Structure):" + "".join("\n    " + l for l in class_body(["a"], [dc])))
            o = observe_decl(m.A)
            unload(m)
            want = obj["expect_required"]
            print("required  : a field `a` that is %s" % ("required" if want else "not required"))
            print("observed  :", o if o[0] != "field" else "field, %s" % ("required" if o[3] else "not required"))
            return 0 if (o[0] == "field" and o[3] == want) else 1
        if "decls_a" not in obj:
            print("nothing to replay on the implementation:", obj.get("broken"), obj.get("detail", "")[:2000])
            for k in ("context", "spelling", "declaration", "observed"):
                if k in obj:
                    print(" ", k, ":", obj[k])
            return 2
        names = [m["name"] for m in obj["members"]]
        fix = lambda ds: [dict(d, ty=_tuplify(d["ty"]), eq=_tuplify(d["eq"]), kw=_tuplify(d["kw"])) for d in ds]
        da, db = fix(obj["decls_a"]), fix(obj["decls_b"])
        members = [dict(m, default=_tuplify(m["default"])) for m in obj["members"]]
        ma = load_module(workdir, class_src("A", names, da), ctx, False)
        mb = load_module(workdir, class_src("B", names, db), ctx, bool(obj.get("future_b")))
        cands = [[(k, _tuplify(v)) for k, v in kw] for kw in (obj.get("candidates") or [])]
        oa = observe_class(ma.A, names, cands, ctx)
        ob = observe_class(mb.B, names, cands, ctx)
        print("class A(Structure):" + "".join("\n    " + l for l in class_body(names, da)))
        print(("from __future__ import annotations\n" if obj.get("future_b") else "") +
              "class B(Structure):" + "".join("\n    " + l for l in class_body(names, db)))
        if obj.get("semantic"):
            fake = {"members": members, "variants": [{"decls": da}]}

            class R:  # minimal Report stand-in
                hits = []

                def finding(self, key, what, o):
                    self.hits.append((key, what))
            r = R()
            check_semantic(r, fake, oa)
            for k, w in r.hits:
                print("observed  :", w.split("\n")[0])
            print("required  : the declared field, required unless optional/defaulted")
            return 1 if r.hits else 0
        aspect, detail = first_difference(oa, ob)
        print("required  : same field set, _required, Field objects, defaults and behaviour")
        print("observed  :", "identical" if not aspect else "differ on %s: %r" % (aspect, detail))
        unload(ma)
        unload(mb)
        return 1 if aspect else 0
    finally:
        core.cleanup(workdir)


def _tuplify(x):
    if isinstance(x, list):
        return tuple(_tuplify(y) for y in x) if x and isinstance(x[0], str) and not _is_plain_list(x) else [_tuplify(y) for y in x]
    if isinstance(x, dict):
        return {k: _tuplify(v) for k, v in x.items()}
    return x


def _is_plain_list(x):
    """JSON turned tuples into lists: a tagged node starts with a tag string followed by non-string payload or
    is a known tag; argument lists contain nodes (lists) only."""
    tags = {"alias", "lit", "func", "name", "none", "bare", "typing", "pep585", "optional", "union", "or", "fcls", "inst", "struct", "sub",
            "ctor1", "ctorN", "int", "flt", "dec", "str", "bool", "list", "tuple", "deque", "set", "dict", "enum",
            "struct", "other"}
    return x[0] not in tags
