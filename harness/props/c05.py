"""C05 — serialize then deserialize returns an equal instance; the output is pure JSON.

Proof obligations: Props/C05.v (model: Ser/Json.v, Ser/Serialize.v, Ser/Deserialize.v).
Tie: correspondence of `serialize` and `deserialize` of the model with the real
Serializer(x).serialize() / Deserializer(cls).deserialize(doc) — separately, inside Coq — and the
clauses of the property evaluated on the implementation (exact JSON types, json.dumps, real ==)."""
import datetime
import json
import random

from harness import core
from harness import coqemit as E
from harness import fieldgen as G
from harness import structgen as S
from harness import sergen as SG


# ------------------------------------------------------------------ running the implementation

class compact_deser:
    """TypedPyDefaults.compact_deserialization_default, restored afterwards."""

    def __init__(self, on):
        self.on = on

    def __enter__(self):
        from typedpy.structures import TypedPyDefaults
        self.old = TypedPyDefaults.compact_deserialization_default
        TypedPyDefaults.compact_deserialization_default = bool(self.on)

    def __exit__(self, *a):
        from typedpy.structures import TypedPyDefaults
        TypedPyDefaults.compact_deserialization_default = self.old


def observe(x, cls, compact):
    """One round trip on the implementation.  Returns dict with the reified observations and the
    spec verdicts: stage in (None, 'ser-raises', 'impure', 'deser-raises', 'not-equal')."""
    from typedpy import Serializer, Deserializer, serialize
    o = {"compact": compact, "stage": None, "exn": None}
    try:
        j = Serializer(x).serialize(compact=compact)
    except Exception as ex:  # noqa
        o.update(stage="ser-raises", exn=E.exn_name(ex), ser=("raise", E.exn_name(ex)), detail=str(ex)[:200])
        return o
    o["ser"] = ("ok", SG.reify_o(j))
    o["doc"] = j
    try:
        j2 = serialize(x, compact=compact)
        if j2 != j:
            o.update(stage="impure", exn="serialize()!=Serializer", detail="serialize(x) differs from Serializer(x).serialize()")
            return o
    except Exception as ex:  # noqa
        o.update(stage="ser-raises", exn=E.exn_name(ex), detail="serialize(x): " + str(ex)[:200])
        return o
    pure = SG.only_json_types(j)
    if pure:
        try:
            json.dumps(j)
        except Exception as ex:  # noqa
            pure = False
            o["detail"] = "json.dumps: " + str(ex)[:200]
    if not pure:
        o.update(stage="impure", exn="non-JSON-value")
        return o
    try:
        with compact_deser(compact):
            y = Deserializer(cls).deserialize(j)
    except Exception as ex:  # noqa
        o.update(stage="deser-raises", exn=E.exn_name(ex), deser=("raise", E.exn_name(ex)), detail=str(ex)[:200])
        return o
    o["deser"] = ("ok", SG.reify_o(y))
    try:
        same = (y == x) and (x == y)
    except Exception as ex:  # noqa
        same = False
        o["detail"] = "==: " + str(ex)[:200]
    if not same:
        o.update(stage="not-equal", exn="neq", detail="deserialized %r  original %r" % (y, x))
    return o


# ------------------------------------------------------------------ localisation and classification

def single_field_class(f, ctx, required=True):
    ns = dict(ctx.ns)
    src = "class T(Structure):\n    f = %s\n    _required = %s\n" % (SG.field_src(f), "['f']" if required else "[]")
    exec(src, ns)
    return ns["T"]


def field_roundtrip(f, v, ctx):
    """Round trip of T(f=v) for a single-field class; None if T or the instance cannot be built."""
    try:
        T = single_field_class(f, ctx)
        x = T(f=G.unreify(v, ctx.classes))
    except Exception:  # noqa
        return None
    return observe(x, T, False)


def needs_field_to_serialize(g):
    """Values of g that are not JSON already: serialize_val needs the declaration to render them."""
    t = g["t"]
    if t in ("enumcls", "mapkv", "mapany"):
        return True
    if t in ("seqeach", "seqpos", "seqany") and g["k"] == "deque":
        return True
    if t == "set" and g.get("imm"):
        return True
    subs = [g[k] for k in ("item", "kf", "vf") if isinstance(g.get(k), dict)]
    subs += list(g.get("items") or []) + list(g.get("fs") or [])
    return any(needs_field_to_serialize(s) for s in subs)


def needs_deserializer(g):
    """Documents of g that the constructor does not accept as they are."""
    t = g["t"]
    if t in ("ref", "set", "tuple", "enumcls"):
        return True
    if t in ("seqeach", "seqpos", "seqany") and g["k"] == "deque":
        return True
    subs = [g[k] for k in ("item", "kf", "vf") if isinstance(g.get(k), dict)]
    subs += list(g.get("items") or []) + list(g.get("fs") or [])
    return any(needs_deserializer(s) for s in subs)


def classify(f, v, stage, exn):
    """Input-shape part of a finding key: the known defect shapes by name, anything else by its full shape."""
    t = f["t"]
    n = len(v[1]) if v[0] in ("list", "deque", "tuple") else (len(v[2]) if v[0] == "set" else None)
    if t == "seqpos" and stage == "ser-raises" and exn == "IndexError" and n is not None and n > len(f["items"]):
        return "positional-items:value-longer-than-items"
    if t == "tuple" and v[0] == "tuple":
        if len(f["items"]) == 1 and stage == "deser-raises" and exn == "IndexError" and n == 0:
            return "tuple-homogeneous:empty"
        if stage in ("ser-raises", "deser-raises", "not-equal") and n and any(needs_field_to_serialize(g) for g in f["items"]):
            return "tuple:item-serialized-without-its-field"
        if len(f["items"]) == 1:
            if stage == "deser-raises" and exn == "IndexError" and n == 0:
                return "tuple-homogeneous:empty"
            if n >= 2 and stage in ("deser-raises", "not-equal") and needs_deserializer(f["items"][0]):
                return "tuple-homogeneous:tail-not-deserialized"
    if t == "num" and v[0] == "dec":
        return "number:holding-Decimal"
    return "shape=" + G.shape(f) + "/value=" + v[0]


def localise(f, v, o, ctx, depth=0):
    """Smallest aligned (sub-declaration, sub-value) that fails the round trip on its own at the same stage."""
    if depth > 4:
        return f, v, o
    subs = SG.subcases(f, v)[:30]
    if f["t"] == "ref" and v[0] == "struct":
        try:
            decl = {fd["name"]: fd["field"] for fd in ctx.ast(v[1])["fields"]}
            subs = [(decl[k], x) for k, x in v[2] if k in decl and x != ("none",)]
        except KeyError:
            subs = []
    for g, x in subs:
        r = field_roundtrip(g, x, ctx)
        if r is not None and r["stage"] is not None:
            return localise(g, x, r, ctx, depth + 1)
    return f, v, o


def diagnose(c, kw, x, o, ctx, depth=0):
    """(key shape, what, replay data) for a failing round trip of instance x = c(**kw)."""
    fields = {fd["name"]: fd["field"] for fd in c["fields"]}
    src = python_src(c, kw, ctx, o["compact"])
    # 1. a field that fails on its own
    for k, v in kw:
        if k in fields and v != ("none",):
            r = field_roundtrip(fields[k], v, ctx)
            if r is not None and r["stage"] is not None:
                lf, lv, lo = localise(fields[k], v, r, ctx)
                if lf["t"] == "ref" and lv[0] == "struct" and depth < 4:
                    # the nested instance fails as a whole: diagnose it as an instance of its own class
                    try:
                        nc = ctx.ast(lv[1])
                        nx = G.unreify(lv, ctx.classes)
                        no = observe(nx, ctx.classes[lv[1]], False)
                        if no["stage"] is not None:
                            return diagnose(nc, list(lv[2]), nx, no, ctx, depth + 1)
                    except Exception:  # noqa
                        pass
                shape = classify(lf, lv, lo["stage"], lo["exn"])
                return ("C05/%s:%s/%s" % (lo["stage"], lo["exn"], shape),
                        "round trip of T(f=%s) with f = %s fails: %s %s (%s)" % (
                            G.py_src(lv), SG.field_src(lf), lo["stage"], lo["exn"], lo.get("detail", "")),
                        {"kind": "field", "field": lf, "value": lv, "stage": lo["stage"], "exn": lo["exn"],
                         "python": field_python_src(lf, lv, ctx), "found_in": src})
    # 2. class-level
    req = c.get("required")
    none_required = [k for k, v in kw if v == ("none",) and k in fields and (req is None or k in req)]
    extras = [k for k, _ in kw if k not in fields]
    if none_required and o["stage"] == "deser-raises":
        shape = "required-field-holding-None"
    elif o["compact"] and o["stage"] in ("deser-raises", "not-equal") and isinstance(o.get("doc"), dict):
        shape = "compact-wrapper:value-serializes-to-a-JSON-object"
    elif extras and o["stage"] == "not-equal" and keep_undefined_fixes(ctx.classes[c["name"]], x, o):
        shape = "additional-properties:extras-dropped-unless-keep_undefined=True"
    else:
        feats = []
        if c.get("ignore_none"):
            feats.append("ignore_none")
        feats.append("additional=%s" % c.get("additional"))
        if o["compact"]:
            feats.append("compact")
        if extras:
            feats.append("extras")
        shape = "class:" + ",".join(feats) + "/" + ",".join(sorted(G.shape(fd["field"]) for fd in c["fields"]))
    return ("C05/%s:%s/%s" % (o["stage"], o["exn"], shape),
            "round trip fails at %s (%s): %s" % (o["stage"], o["exn"], o.get("detail", "")),
            {"kind": "class", "ast": c, "kw": kw, "compact": o["compact"], "stage": o["stage"], "exn": o["exn"],
             "python": src})


def report_failure(rep, case, o, ctx):
    key, what, data = diagnose(case["ast"], case["kw"], case["x"], o, ctx)
    rep.finding(key, what, data)


def keep_undefined_fixes(cls, x, o):
    from typedpy import Deserializer
    try:
        y = Deserializer(cls).deserialize(o["doc"], keep_undefined=True)
        return y == x
    except Exception:  # noqa
        return False


def field_python_src(f, v, ctx):
    return (SG.IMPORTS + "from typedpy import Serializer, Deserializer\n" + ctx.source() +
            "\nclass T(Structure):\n    f = %s\n    _required = ['f']\n\nx = T(f=%s)\nj = Serializer(x).serialize()\n"
            "print(j)\ny = Deserializer(T).deserialize(j)\nprint(y == x)\n" % (SG.field_src(f), G.py_src(v)))


def python_src(c, kw, ctx, compact):
    return (SG.IMPORTS + "from typedpy import Serializer, Deserializer\n" + ctx.source() +
            "\nx = %s(%s)\nj = Serializer(x).serialize(compact=%r)\nprint(j)\ny = Deserializer(%s).deserialize(j)\nprint(y == x)\n" % (
                c["name"], ", ".join("%s=%s" % (k, G.py_src(v)) for k, v in kw), compact, c["name"]))


# ------------------------------------------------------------------ Coq evaluation

HEADER = """From Coq Require Import ZArith NArith String List Bool. Import ListNotations.
From TP Require Import Check.C05chk.
Local Open Scope string_scope.
%s
%s
"""


def tables_for(ctx, values):
    fields = [fd["field"] for c in ctx.asts for fd in c["fields"]]
    return G.match_table(fields, values)


def emit_scase(inst, compact, obs, tbl):
    return "{| sc_tbl := %s; sc_env := env0; sc_ens := ens0; sc_compact := %s; sc_inst := %s; sc_obs := %s |}" % (
        G.emit_table(tbl), E.blit(compact), E.pval(inst), E.outcome(obs))


def emit_dcase(cls, doc, obs, tbl, compact=False, ignore_invalid=True, ku=None):
    return ("{| dc_tbl := %s; dc_env := env0; dc_ens := ens0; dc_flags := {| df_ignore_invalid := %s; df_compact := %s |}; "
            "dc_ku := %s; dc_cls := %s; dc_doc := %s; dc_obs := %s |}") % (
        G.emit_table(tbl), E.blit(ignore_invalid), E.blit(compact), E.opt(ku, E.blit), E.pstr(cls), E.pval(doc),
        E.outcome(obs))


def coq_eval(items, ty, fns, ctx, tag, per=250):
    """items: emitted records of type `ty`; fns: boolean functions.  Returns {fn: [indices]}."""
    shards = []
    for s in range(0, len(items), per):
        body = "Definition cases : list %s := %s.\n" % (ty, E.lst(["\n " + i for i in items[s:s + per]]))
        for fn in fns:
            body += "Eval vm_compute in (indices_where %s cases 0).\n" % fn
        shards.append(body)
    res = core.eval_cases(shards, tag, HEADER % (ctx.coq_env(), ctx.coq_enums()))
    out = {fn: [] for fn in fns}
    for si, (rc, so, se) in enumerate(res):
        vals = core.parse_eval(so)
        if rc != 0 or len(vals) != len(fns):
            raise RuntimeError("case shard %d failed to evaluate: %s" % (si, (so + se)[-2000:]))
        for fn, v in zip(fns, vals):
            out[fn] += [si * per + i for i in core.parse_nat_list(v)]
    return out


# ------------------------------------------------------------------ date/time fields (oracle RT measured)

DATE_SRC = """
from typedpy import Structure, DateField, DateTime
from typedpy.extfields import TimeField
class D0(Structure):
    d = DateField
    _required = ['d']
class D1(Structure):
    d = DateField(date_format="%d/%m/%Y")
    _required = ['d']
class DT0(Structure):
    d = DateTime
    _required = ['d']
class DT1(Structure):
    d = DateTime(datetime_format="%Y-%m-%dT%H:%M:%S.%f")
    _required = ['d']
class TM0(Structure):
    d = TimeField
    _required = ['d']
class TM1(Structure):
    d = TimeField(format_str="%H:%M:%S.%f")
    _required = ['d']
"""
DATE_FORMATS = {"D0": ("date", "%Y-%m-%d"), "D1": ("date", "%d/%m/%Y"), "DT0": ("datetime", "%m/%d/%y %H:%M:%S"),
                "DT1": ("datetime", "%Y-%m-%dT%H:%M:%S.%f"), "TM0": ("time", "%H:%M:%S"), "TM1": ("time", "%H:%M:%S.%f")}


def rt_oracle(kind, fmt, d):
    """RT of DESIGN 3.6: strptime(strftime(d)) == d for the field's format."""
    try:
        p = datetime.datetime.strptime(d.strftime(fmt), fmt)
    except Exception:  # noqa
        return False
    p = {"date": p.date, "time": p.time, "datetime": lambda: p}[kind]()
    return p == d


def gen_date(rnd, kind):
    us = rnd.choice([0, 0, rnd.randrange(1000000)])
    if kind == "date":
        return datetime.date(rnd.randint(1900, 2100), rnd.randint(1, 12), rnd.randint(1, 28))
    if kind == "time":
        return datetime.time(rnd.randint(0, 23), rnd.randint(0, 59), rnd.randint(0, 59), us)
    return datetime.datetime(rnd.randint(1900, 2100), rnd.randint(1, 12), rnd.randint(1, 28), rnd.randint(0, 23),
                             rnd.randint(0, 59), rnd.randint(0, 59), us)


def date_case(cname, d):
    ns = {}
    exec(DATE_SRC, ns)
    cls = ns[cname]
    kind, fmt = DATE_FORMATS[cname]
    return cls, observe(cls(d=d), cls, False), rt_oracle(kind, fmt, d)


def date_stream(rep, rnd, n):
    ns = {}
    exec(DATE_SRC, ns)
    for i in range(n):
        cname = rnd.choice(sorted(DATE_FORMATS))
        kind, fmt = DATE_FORMATS[cname]
        d = gen_date(rnd, kind)
        rt = rt_oracle(kind, fmt, d)
        o = observe(ns[cname](d=d), ns[cname], False)
        rep.count("dates", 1, (cname, rt, o["stage"]))
        rep.stat("dates", "RT:%s" % rt)
        rep.stat("dates", "outcome:%s" % (o["stage"] or "ok"))
        if o["stage"] is None:
            if not rt:
                # the oracle hypothesis failed but the round trip did not: the measurement itself is off
                rep.broken("oracle:RT", "RT false but round trip succeeded for %s %r" % (cname, d))
            continue
        lossy = "format-loses-information" if not rt else "format-round-trips"
        default = "default-format" if cname.endswith("0") else "custom-format"
        rep.finding("C05/%s:%s/date:%s(%s):%s" % (o["stage"], o["exn"], kind, default, lossy),
                    "%s field with format %r does not round-trip %r (RT of the format on this value: %s): %s" % (
                        kind, fmt, d, rt, o.get("detail", "")),
                    {"kind": "date", "cls": cname, "value": d.isoformat(), "vkind": kind, "stage": o["stage"]})


# ------------------------------------------------------------------ the check

def build_cases(rnd, tier):
    n_classes = 90 if tier == "quick" else 400
    ctx, pools = SG.build_world(rnd, n_classes, max_depth=2 if tier == "quick" else 3)
    cases = []
    for c in ctx.asts:
        for kw, x in pools.get(c["name"], []):
            cases.append({"ast": c, "kw": kw, "x": x, "compact": False})
            resolved = ctx.resolved(c["name"])
            if len(c["fields"]) == 1 and resolved["required"] == [c["fields"][0]["name"]] and not resolved["additional"]:
                cases.append({"ast": c, "kw": kw, "x": x, "compact": True})
    return ctx, cases


def run(rep, tier):
    rnd = random.Random(core.seed() * 1000003 + 5)
    proofs_ok, model_ok = core.standard_proof_obligations(rep, "C05", ["theories/Check/C05chk.vo"])
    ctx, cases = build_cases(rnd, tier)
    obs = []
    for case in cases:
        o = observe(case["x"], ctx.classes[case["ast"]["name"]], case["compact"])
        obs.append(o)
        c = case["ast"]
        shape = (tuple(sorted(G.shape(fd["field"]) for fd in c["fields"])), bool(c.get("ignore_none")), c.get("additional"),
                 case["compact"], tuple((k, v[0]) for k, v in case["kw"]))
        rep.count("roundtrip", 1, shape)
        rep.stat("roundtrip", "outcome:" + (o["stage"] or "ok"))
        for fd in c["fields"]:
            rep.stat("roundtrip", "kind:" + fd["field"]["t"])
        if o["stage"] is not None:
            report_failure(rep, case, o, ctx)
    fails = sum(1 for o in obs if o["stage"] is not None)
    rep.obligation("spec-on-observed:roundtrip", True, "%d instances, %d spec failures (each reported as a finding)" % (len(cases), fails))
    if cases:
        for i in (0, len(cases) // 2, len(cases) - 1):
            rep.sample({"python": python_src(cases[i]["ast"], cases[i]["kw"], ctx, cases[i]["compact"])[-600:],
                        "serialized": repr(obs[i].get("doc"))[:300], "stage": obs[i]["stage"]})
    date_stream(rep, rnd, 300 if tier == "quick" else 3000)

    if model_ok:
        try:
            correspondence(rep, ctx, cases, obs)
        except RuntimeError as ex:
            rep.broken("correspondence:coq-eval", str(ex))
    if not proofs_ok:
        from harness.props.c17 import broken_build
        broken_build(rep)
    rep.assumptions += [
        "re.match is an oracle (Section variable), instantiated per run by a table filled from the real re module",
        "date/time fields are outside the Coq model: their round trip is evaluated on the implementation, with the "
        "format's own round trip RT measured on every generated value",
        "C05_roundtrip is proved for the fragment `frag`/`canon` of Ser/RoundTripProofs.v (see Props/C05.v); AnyOf, positional "
        "Array/Deque items, ImmutableSet and Anything are covered by the executable model and the correspondence only",
    ]
    return rep.finish(
        rule="classes of the serializable fragment generated in layers (scalars, enums by name/value, Array/Deque/Set/"
             "Tuple/Map, nested structures, Optional/AnyOf; _ignore_none, _additional_properties, compact wrappers), "
             "valid instances with falsy values injected at every position; distinct = (field shapes, flags, value kinds)")


def correspondence(rep, ctx, cases, obs):
    insts = [SG.reify_o(case["x"]) for case in cases]
    docs = [o["ser"][1] for o in obs if o.get("ser", ("",))[0] == "ok"]
    tbl = tables_for(ctx, insts + docs)
    s_items = [emit_scase(inst, case["compact"], o["ser"], tbl) for inst, case, o in zip(insts, cases, obs)]
    r = coq_eval(s_items, "scase", ["smismatch", "sunmodelled", "simpure"], ctx, "c05s")
    rep.count("correspondence:ser", len(s_items))
    rep.cov["streams"]["correspondence:ser"]["declined_by_model"] = len(r["sunmodelled"])
    rep.obligation("correspondence:serialize", not r["smismatch"], "%d cases, %d mismatches, %d outside the model" % (
        len(s_items), len(r["smismatch"]), len(r["sunmodelled"])))
    # the purity clause evaluated in Coq on the reified output must agree with the Python-side verdict
    py_impure = {i for i, o in enumerate(obs) if o["stage"] in ("ser-raises", "impure")}
    rep.obligation("spec-on-observed:json_pure(coq)", set(r["simpure"]) == py_impure,
                   "%d impure/raising outputs (Coq) vs %d (Python)" % (len(r["simpure"]), len(py_impure)))
    if set(r["simpure"]) != py_impure:
        i = sorted(set(r["simpure"]) ^ py_impure)[0]
        rep.broken("spec-on-observed:json_pure", "json_pure (Coq) and the Python type walk disagree",
                   {"python": python_src(cases[i]["ast"], cases[i]["kw"], ctx, cases[i]["compact"])})
    if r["smismatch"] and not any(not v["no_input"] for v in rep.violations):
        i = r["smismatch"][0]
        rep.broken("correspondence:serialize", "model (Ser/Serialize.v) and typedpy differ on %d generated instances; no "
                   "round-trip failure was observed" % len(r["smismatch"]),
                   {"python": python_src(cases[i]["ast"], cases[i]["kw"], ctx, cases[i]["compact"]), "observed": repr(obs[i]["ser"])})
    d_idx = [i for i, o in enumerate(obs) if "deser" in o]
    d_items = [emit_dcase(cases[i]["ast"]["name"], obs[i]["ser"][1], obs[i]["deser"], tbl, compact=cases[i]["compact"])
               for i in d_idx]
    r2 = coq_eval(d_items, "dcase", ["dmismatch", "dunmodelled"], ctx, "c05d")
    rep.count("correspondence:deser", len(d_items))
    rep.cov["streams"]["correspondence:deser"]["declined_by_model"] = len(r2["dunmodelled"])
    rep.obligation("correspondence:deserialize", not r2["dmismatch"], "%d cases, %d mismatches, %d outside the model" % (
        len(d_items), len(r2["dmismatch"]), len(r2["dunmodelled"])))
    if r2["dmismatch"] and not any(not v["no_input"] for v in rep.violations):
        i = d_idx[r2["dmismatch"][0]]
        rep.broken("correspondence:deserialize", "model (Ser/Deserialize.v) and typedpy differ on %d documents; no "
                   "round-trip failure was observed" % len(r2["dmismatch"]),
                   {"python": python_src(cases[i]["ast"], cases[i]["kw"], ctx, cases[i]["compact"]), "observed": repr(obs[i]["deser"])})


def replay(obj):
    rnd = random.Random(0)
    if obj.get("kind") == "date":
        kind = obj["vkind"]
        d = {"date": datetime.date, "time": datetime.time, "datetime": datetime.datetime}[kind].fromisoformat(obj["value"])
        cls, o, rt = date_case(obj["cls"], d)
        print("class %s, value %r, RT of the format: %s" % (obj["cls"], d, rt))
        print("observed:", o["stage"], o["exn"], o.get("detail"))
        print("required: Deserializer(cls).deserialize(Serializer(x).serialize()) == x")
        return 1 if o["stage"] is not None else 0
    src = obj.get("python")
    if not src:
        print("no replayable input recorded:", obj.get("detail", ""))
        return 2
    print(src[-1500:])
    ns = {}
    try:
        exec(src, ns)
    except Exception as ex:  # noqa
        print("observed: raises", type(ex).__name__, ex)
        print("required: output pure JSON and deserialization returns an instance equal to x")
        return 1
    ok = ns.get("y") == ns.get("x") and SG.only_json_types(ns.get("j"))
    print("required: output pure JSON and y == x;  observed:", "holds" if ok else "VIOLATED")
    return 0 if ok else 1
