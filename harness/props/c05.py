"""C05 — serialize then deserialize returns an equal instance; the output is pure JSON.

Proof obligations: Props/C05.v (model: Ser/Json.v, Ser/Serialize.v, Ser/Deserialize.v).
Tie: correspondence of `serialize` and `deserialize` of the model with the real
Serializer(x).serialize() / Deserializer(cls).deserialize(doc) — separately, inside Coq — and the
clauses of the property evaluated on the implementation (exact JSON types, json.dumps, real ==)."""
import collections
import datetime
import json
import random

from harness import core
from harness import coqemit as E
from harness import fieldgen as G
from harness import structgen as S
from harness import sergen as SG
from harness import c05ext as X


# ------------------------------------------------------------------ running the implementation

class compact_deser:
    """TypedPyDefaults.compact_deserialization_default, restored afterwards."""

    def __init__(self, on):
        self.on = on

    def __enter__(self):
        from typedpy.structures import TypedPyDefaults
        self.old = TypedPyDefaults.compact_deserialization_default
        TypedPyDefaults.compact_deserialization_default = bool(self.on)

    def __exit__(self, *a):
        from typedpy.structures import TypedPyDefaults
        TypedPyDefaults.compact_deserialization_default = self.old


def has_decimal(v, depth=0):
    """A Decimal somewhere in the stored state (DecimalNumber's JSON form is documented as lossy)."""
    import decimal
    from typedpy import Structure
    if isinstance(v, decimal.Decimal):
        return True
    if depth > 12:
        return False
    if isinstance(v, Structure):
        return any(has_decimal(a, depth + 1) for k, a in v.__dict__.items() if k not in S.INTERNAL)
    if isinstance(v, dict):
        return any(has_decimal(k, depth + 1) or has_decimal(a, depth + 1) for k, a in v.items())
    if isinstance(v, (list, tuple, set, frozenset, collections.deque)):
        return any(has_decimal(a, depth + 1) for a in v)
    return False


doc_eq = X.doc_eq


def observe(x, cls, compact, loose=False, fixpoint_only=False, ku=None):
    """One round trip on the implementation.  Returns dict with the reified observations and the
    spec verdicts: stage in (None, 'ser-raises', 'impure', 'deser-raises', 'not-equal', 'not-fixpoint').
    loose (or a Decimal in x): the instance holds a value whose JSON form is documented as lossy -- the clause
    judged is the weaker one: equality up to that loss and serialize(deserialize(serialize(x))) == serialize(x).
    fixpoint_only (an Anything field is involved: tuples/sets come back as lists): only the fixpoint is judged.
    ku: deserialize(..., keep_undefined=ku) instead of the default (for instances carrying additional properties)."""
    from typedpy import Serializer, Deserializer, serialize
    o = {"compact": compact, "stage": None, "exn": None, "ku": ku}
    loose = loose or fixpoint_only or has_decimal(x)
    o["loose"] = loose
    o["fixpoint_only"] = fixpoint_only
    try:
        j = Serializer(x).serialize(compact=compact)
    except Exception as ex:  # noqa
        o.update(stage="ser-raises", exn=E.exn_name(ex), ser=("raise", E.exn_name(ex)), detail=str(ex)[:200])
        return o
    o["ser"] = ("ok", SG.reify_o(j))
    o["doc"] = j
    try:
        j2 = serialize(x, compact=compact)
        if j2 != j:
            o.update(stage="impure", exn="serialize()!=Serializer", detail="serialize(x) differs from Serializer(x).serialize()")
            return o
    except Exception as ex:  # noqa
        o.update(stage="ser-raises", exn=E.exn_name(ex), detail="serialize(x): " + str(ex)[:200])
        return o
    pure = X.pure_json(j)
    if pure:
        try:
            json.dumps(j)
        except Exception as ex:  # noqa
            pure = False
            o["detail"] = "json.dumps: " + str(ex)[:200]
    if not pure:
        o.update(stage="impure", exn="non-JSON-value")
        return o
    try:
        with compact_deser(compact):
            y = Deserializer(cls).deserialize(j) if ku is None else Deserializer(cls).deserialize(j, keep_undefined=ku)
    except Exception as ex:  # noqa
        o.update(stage="deser-raises", exn=E.exn_name(ex), deser=("raise", E.exn_name(ex)), detail=str(ex)[:200])
        return o
    o["deser"] = ("ok", SG.reify_o(y))
    try:
        same = True if fixpoint_only else (X.loose_eq(y, x) if loose else ((y == x) and (x == y)))
    except Exception as ex:  # noqa
        same = False
        o["detail"] = "==: " + str(ex)[:200]
    if not same:
        o.update(stage="not-equal", exn="neq", detail="deserialized %r  original %r" % (y, x))
        return o
    if loose:
        try:
            j3 = Serializer(y).serialize(compact=compact)
        except Exception as ex:  # noqa
            o.update(stage="not-fixpoint", exn=E.exn_name(ex), detail="serialize(deserialize(serialize(x))) raises: " + str(ex)[:200])
            return o
        if not doc_eq(j3, j) or not X.pure_json(j3):
            o.update(stage="not-fixpoint", exn="neq", detail="serialize(deserialize(serialize(x))) = %r  serialize(x) = %r" % (j3, j))
    return o


# ------------------------------------------------------------------ localisation and classification

def single_field_class(f, ctx, required=True):
    ns = dict(ctx.ns)
    src = "class T(Structure):\n    f = %s\n    _required = %s\n" % (SG.field_src(f), "['f']" if required else "[]")
    exec(src, ns)
    return ns["T"]


def field_roundtrip(f, v, ctx):
    """Round trip of T(f=v) for a single-field class; None if T or the instance cannot be built."""
    try:
        T = single_field_class(f, ctx)
        x = T(f=G.unreify(v, ctx.classes))
    except Exception:  # noqa
        return None
    if not X.stored_state_valid(x):
        return None         # T(f=v) is accepted but its stored state is not a valid instance (normalised collision)
    kinds = deep_kinds(f, ctx)
    o = observe(x, T, False, fixpoint_only=bool(kinds & {"any", "anyj"}))
    if o["stage"] in EXCUSABLE and "anyof" in kinds:
        for g, w in X.walk(f, x.__dict__.get("f"), ctx):
            if g["t"] == "anyof" and w is not None and X.distinguishable(g, w, ctx) is False:
                o["excused"] = "ambiguous-anyof"
                o["stage"] = None
                break
    return o


EXCUSABLE = ("deser-raises", "not-equal", "not-fixpoint")


def needs_field_to_serialize(g):
    """Values of g that are not JSON already: serialize_val needs the declaration to render them."""
    t = g["t"]
    if t in ("enumcls", "mapkv", "mapany", "decimal", "date"):
        return True
    if t in ("seqeach", "seqpos", "seqany") and g["k"] == "deque":
        return True
    if t == "set" and g.get("imm"):
        return True
    subs = [g[k] for k in ("item", "kf", "vf") if isinstance(g.get(k), dict)]
    subs += list(g.get("items") or []) + list(g.get("fs") or [])
    return any(needs_field_to_serialize(s) for s in subs)


def needs_deserializer(g):
    """Documents of g that the constructor does not accept as they are."""
    t = g["t"]
    if t in ("ref", "set", "tuple", "enumcls", "decimal", "date"):
        return True
    if t in ("seqeach", "seqpos", "seqany") and g["k"] == "deque":
        return True
    subs = [g[k] for k in ("item", "kf", "vf") if isinstance(g.get(k), dict)]
    subs += list(g.get("items") or []) + list(g.get("fs") or [])
    return any(needs_deserializer(s) for s in subs)


def Serializer_doc(T, stored):
    from typedpy import Serializer
    return Serializer(T(f=stored)).serialize().get("f")


def classify(f, v, stage, exn, ctx=None):
    """Input-shape part of a finding key: the known defect shapes by name, anything else by its full shape."""
    t = f["t"]
    if t == "date" and v[0] == "other":
        fmt = X.DATE_FMT[(f["k"], bool(f.get("custom")))][1]
        rt = X.rt_format(f["k"], fmt, G.unreify(v))
        return "date:%s(%s):%s" % (f["k"], "custom-format" if f.get("custom") else "default-format",
                                   "format-round-trips" if rt else "format-loses-information")
    if t == "anyof" and ctx is not None:
        try:
            stored = single_field_class(f, ctx)(f=G.unreify(v, ctx.classes)).__dict__.get("f")
            g = X.serializing_option(f, stored, ctx)
            if g is not None and not X.accepts(g, stored, ctx):
                return "anyof:serialized-by-an-option-that-rejects-the-value"
            T = single_field_class(f, ctx)
            doc = Serializer_doc(T, stored)
            rd = X.deserializing_option(f, doc, ctx)
            if rd is not None and stage in ("deser-raises", "not-equal", "not-fixpoint"):
                h, w = rd
                if not X.accepts(h, w, ctx):
                    return "anyof:deserialized-by-an-option-that-rejects-the-result"
                empty = doc == [] or doc == {}        # an empty collection, or a structure none of whose fields is set
                if w is None and empty and "none" in X.kinds_in(h):
                    return "anyof:NoneField-option-first-reads-empty-collection-as-None"
        except Exception:  # noqa
            pass
    n = len(v[1]) if v[0] in ("list", "deque", "tuple") else (len(v[2]) if v[0] == "set" else None)
    if t == "seqpos" and stage == "ser-raises" and exn == "IndexError" and n is not None and n > len(f["items"]):
        return "positional-items:value-longer-than-items"
    if t == "tuple" and v[0] == "tuple":
        if len(f["items"]) == 1 and stage == "deser-raises" and exn == "IndexError" and n == 0:
            return "tuple-homogeneous:empty"
        if stage in ("ser-raises", "deser-raises", "not-equal") and n and (
                any(needs_field_to_serialize(g) for g in f["items"]) or any(x[0] == "dec" for x in v[1])):
            return "tuple:item-serialized-without-its-field"       # a Decimal, too, is rendered by its field only
        if len(f["items"]) == 1:
            if stage == "deser-raises" and exn == "IndexError" and n == 0:
                return "tuple-homogeneous:empty"
            if n >= 2 and stage in ("deser-raises", "not-equal") and needs_deserializer(f["items"][0]):
                return "tuple-homogeneous:tail-not-deserialized"
    if t == "num" and v[0] == "dec":
        return "number:holding-Decimal"
    if t == "enumcls" and stage == "deser-raises" and exn == "KeyError" and issubclass(G.ENUMS[f["cls"]], str):
        # root cause C08-str-mixin-enum-deser: Enum.__set__ looks every str up with _enum_class[value], and a member of a
        # str mix-in enum IS a str -- the member Enum.deserialize returned is looked up by itself
        return "enumcls:str-mixin-member-looked-up-by-itself"
    if t == "enumcls" and v[0] == "enum" and v[1] != f["cls"]:
        # a member of ANOTHER (mix-in) enum class that compares equal to a declared member (LevelIV.OFF == 0 == RatioFN.ZERO):
        # accepted by Enum._validate through ==, stored as given -- same family as F27
        return "enumcls:holding-equal-member-of-another-enum-class"
    if t == "enumcls" and v[0] in ("dec", "int", "flt", "bool"):
        # a number that is == to a member of a mix-in enum (Decimal('0') == LevelIV.OFF) is accepted by Enum._validate and
        # stored as given: not a member, so it has no .value/.name to serialize -- same family as F27 / F27b
        return "enumcls:holding-equal-value-that-is-not-a-member"
    if t == "enumlit" and v[0] == "dec":
        return "enumlit:holding-Decimal"
    return "shape=" + G.shape(f) + "/value=" + v[0]


def localise(f, v, o, ctx, depth=0):
    """Smallest aligned (sub-declaration, sub-value) that fails the round trip on its own at the same stage."""
    if depth > 14:
        return f, v, o
    subs = SG.subcases(f, v)[:30]
    if f["t"] == "ref" and v[0] == "struct":
        try:
            decl = {fd["name"]: fd["field"] for fd in ctx.ast(v[1])["fields"]}
            subs = [(decl[k], x) for k, x in v[2] if k in decl and x != ("none",)]
        except KeyError:
            subs = []
    hits = []
    for g, x in subs:
        if x == ("none",):
            continue        # a None at a sub-position is not a value of a (required) field of its own
        r = field_roundtrip(g, x, ctx)
        if r is not None and r["stage"] is not None:
            hits.append((g, x, r))
            if r["stage"] == o["stage"]:
                break
    if hits:
        g, x, r = ([h for h in hits if h[2]["stage"] == o["stage"]] or hits)[0]
        return localise(g, x, r, ctx, depth + 1)
    return f, v, o


def diagnose(c, kw, x, o, ctx, depth=0):
    """(key shape, what, replay data) for a failing round trip of instance x = c(**kw)."""
    fields = {fd["name"]: fd["field"] for fd in c["fields"]}
    src = python_src(c, kw, ctx, o["compact"], o.get("ku"))
    # 0. root cause F17, wherever it sits in the instance: a REQUIRED field whose (valid) value is None is dropped by
    #    the serializer, and the constructor then misses a required argument
    if o["stage"] == "deser-raises" and o["exn"] in ("TypeError", "ValueError") and "required" in (o.get("detail") or ""):
        for cn, fn in X.required_none_fields(x):
            if repr(fn) in o["detail"]:
                return ("C05/deser-raises:TypeError/required-field-holding-None",
                        "class %s: the required field %r holds None; the serializer drops it and deserialization fails: %s" % (
                            cn, fn, o.get("detail", "")),
                        {"kind": "class", "ast": c, "kw": kw, "compact": o["compact"], "stage": o["stage"], "exn": o["exn"],
                         "python": src})
    # 1. a field that fails on its own (preferably the way the instance fails)
    hits = []
    for k, v in kw:
        if k in fields and v != ("none",):
            r = field_roundtrip(fields[k], v, ctx)
            if r is not None and r["stage"] is not None:
                hits.append((k, v, r))
                if r["stage"] == o["stage"]:
                    break
    hits = [h for h in hits if h[2]["stage"] == o["stage"]] or hits
    for k, v, r in hits[:1]:
            if True:
                lf, lv, lo = localise(fields[k], v, r, ctx)
                if lf["t"] == "ref" and lv[0] == "struct" and depth < 4:
                    # the nested instance fails as a whole: diagnose it as an instance of its own class
                    try:
                        nc = ctx.ast(lv[1])
                        nx = G.unreify(lv, ctx.classes)
                        no = observe(nx, ctx.classes[lv[1]], False, fixpoint_only=bool(class_kinds(nc, ctx) & {"any", "anyj"}))
                        if no["stage"] is not None:
                            return diagnose(nc, list(lv[2]), nx, no, ctx, depth + 1)
                    except Exception:  # noqa
                        pass
                shape = classify(lf, lv, lo["stage"], lo["exn"], ctx)
                return ("C05/%s:%s/%s" % (lo["stage"], lo["exn"], shape),
                        "round trip of T(f=%s) with f = %s fails: %s %s (%s)" % (
                            G.py_src(lv), SG.field_src(lf), lo["stage"], lo["exn"], lo.get("detail", "")),
                        {"kind": "field", "field": lf, "value": lv, "stage": lo["stage"], "exn": lo["exn"],
                         "python": field_python_src(lf, lv, ctx), "found_in": src})
    # 2. class-level
    req = c.get("required")
    none_required = [k for k, v in kw if v == ("none",) and k in fields and (req is None or k in req)]
    extras = [k for k, _ in kw if k not in fields]
    if none_required and o["stage"] == "deser-raises":
        shape = "required-field-holding-None"
    elif o["compact"] and o["stage"] in ("deser-raises", "not-equal", "not-fixpoint") and isinstance(o.get("doc"), dict) \
            and X.compact_wrapper(ctx.classes[c["name"]]):
        shape = "compact-wrapper:value-serializes-to-a-JSON-object"
        if o["stage"] == "not-fixpoint":
            o = dict(o, stage="not-equal", exn="neq")       # one root cause, one key, whichever clause exposed it
    elif extras and o["stage"] in ("not-equal", "not-fixpoint") and keep_undefined_fixes(ctx.classes[c["name"]], x, o):
        shape = "additional-properties:extras-dropped-unless-keep_undefined=True"
        o = dict(o, stage="not-equal", exn="neq")       # one root cause, one key, whichever clause exposed it
    else:
        feats = []
        if c.get("ignore_none"):
            feats.append("ignore_none")
        feats.append("additional=%s" % c.get("additional"))
        if o["compact"]:
            feats.append("compact")
        if extras:
            feats.append("extras")
        shape = "class:" + ",".join(feats) + "/" + ",".join(sorted(G.shape(fd["field"]) for fd in c["fields"]))
    return ("C05/%s:%s/%s" % (o["stage"], o["exn"], shape),
            "round trip fails at %s (%s): %s" % (o["stage"], o["exn"], o.get("detail", "")),
            {"kind": "class", "ast": c, "kw": kw, "compact": o["compact"], "stage": o["stage"], "exn": o["exn"],
             "python": src})


def report_failure(rep, case, o, ctx):
    key, what, data = diagnose(case["ast"], case["kw"], case["x"], o, ctx)
    data["loose"] = bool(o.get("loose"))
    rep.finding(key, what, data)


def keep_undefined_fixes(cls, x, o):
    from typedpy import Deserializer
    try:
        y = Deserializer(cls).deserialize(o["doc"], keep_undefined=True)
        if o.get("fixpoint_only"):
            from typedpy import Serializer
            return Serializer(y).serialize(compact=o["compact"]) == o["doc"]
        return X.loose_eq(y, x) if o.get("loose") else y == x
    except Exception:  # noqa
        return False


def field_python_src(f, v, ctx):
    return (X.IMPORTS + "from typedpy import Serializer, Deserializer\n" + ctx.source() +
            "\nclass T(Structure):\n    f = %s\n    _required = ['f']\n\nx = T(f=%s)\nj = Serializer(x).serialize()\n"
            "print(j)\ny = Deserializer(T).deserialize(j)\nprint(y == x)\n" % (SG.field_src(f), G.py_src(v)))


def python_src(c, kw, ctx, compact, ku=None):
    return (X.IMPORTS + "from typedpy import Serializer, Deserializer\n" + ctx.source() +
            "\nx = %s(%s)\nj = Serializer(x).serialize(compact=%r)\nprint(j)\ny = Deserializer(%s).deserialize(j%s)\nprint(y == x)\n" % (
                c["name"], ", ".join("%s=%s" % (k, G.py_src(v)) for k, v in kw), compact, c["name"],
                "" if ku is None else ", keep_undefined=%r" % ku))


# ------------------------------------------------------------------ Coq evaluation

HEADER = """From Coq Require Import ZArith NArith String List Bool. Import ListNotations.
From TP Require Import Check.C05chk.
Local Open Scope string_scope.
%s
%s
"""


def tables_for(ctx, values):
    fields = [fd["field"] for c in ctx.asts for fd in c["fields"]]
    return G.match_table(fields, values)


def emit_scase(inst, compact, obs, tbl):
    return "{| sc_tbl := %s; sc_env := env0; sc_ens := ens0; sc_compact := %s; sc_inst := %s; sc_obs := %s |}" % (
        G.emit_table(tbl), E.blit(compact), E.pval(inst), E.outcome(obs))


def emit_dcase(cls, doc, obs, tbl, compact=False, ignore_invalid=True, ku=None):
    return ("{| dc_tbl := %s; dc_env := env0; dc_ens := ens0; dc_flags := {| df_ignore_invalid := %s; df_compact := %s |}; "
            "dc_ku := %s; dc_cls := %s; dc_doc := %s; dc_obs := %s |}") % (
        G.emit_table(tbl), E.blit(ignore_invalid), E.blit(compact), E.opt(ku, E.blit), E.pstr(cls), E.pval(doc),
        E.outcome(obs))


def coq_eval(items, ty, fns, ctx, tag, per=250):
    """items: emitted records of type `ty`; fns: boolean functions.  Returns {fn: [indices]}."""
    shards = []
    for s in range(0, len(items), per):
        body = "Definition cases : list %s := %s.\n" % (ty, E.lst(["\n " + i for i in items[s:s + per]]))
        for fn in fns:
            body += "Eval vm_compute in (indices_where %s cases 0).\n" % fn
        shards.append(body)
    res = core.eval_cases(shards, tag, HEADER % (ctx.coq_env(), ctx.coq_enums()))
    out = {fn: [] for fn in fns}
    for si, (rc, so, se) in enumerate(res):
        vals = core.parse_eval(so)
        if rc != 0 or len(vals) != len(fns):
            raise RuntimeError("case shard %d failed to evaluate: %s" % (si, (so + se)[-2000:]))
        for fn, v in zip(fns, vals):
            out[fn] += [si * per + i for i in core.parse_nat_list(v)]
    return out


# ------------------------------------------------------------------ date/time fields (oracle RT measured)

DATE_SRC = """
from typedpy import Structure, DateField, DateTime
from typedpy.extfields import TimeField
class D0(Structure):
    d = DateField
    _required = ['d']
class D1(Structure):
    d = DateField(date_format="%d/%m/%Y")
    _required = ['d']
class DT0(Structure):
    d = DateTime
    _required = ['d']
class DT1(Structure):
    d = DateTime(datetime_format="%Y-%m-%dT%H:%M:%S.%f")
    _required = ['d']
class TM0(Structure):
    d = TimeField
    _required = ['d']
class TM1(Structure):
    d = TimeField(format_str="%H:%M:%S.%f")
    _required = ['d']
"""
DATE_FORMATS = {"D0": ("date", "%Y-%m-%d"), "D1": ("date", "%d/%m/%Y"), "DT0": ("datetime", "%m/%d/%y %H:%M:%S"),
                "DT1": ("datetime", "%Y-%m-%dT%H:%M:%S.%f"), "TM0": ("time", "%H:%M:%S"), "TM1": ("time", "%H:%M:%S.%f")}


def rt_oracle(kind, fmt, d):
    """RT of DESIGN 3.6: strptime(strftime(d)) == d for the field's format."""
    try:
        p = datetime.datetime.strptime(d.strftime(fmt), fmt)
    except Exception:  # noqa
        return False
    p = {"date": p.date, "time": p.time, "datetime": lambda: p}[kind]()
    return p == d


def gen_date(rnd, kind):
    us = rnd.choice([0, 0, rnd.randrange(1000000)])
    if kind == "date":
        return datetime.date(rnd.randint(1900, 2100), rnd.randint(1, 12), rnd.randint(1, 28))
    if kind == "time":
        return datetime.time(rnd.randint(0, 23), rnd.randint(0, 59), rnd.randint(0, 59), us)
    return datetime.datetime(rnd.randint(1900, 2100), rnd.randint(1, 12), rnd.randint(1, 28), rnd.randint(0, 23),
                             rnd.randint(0, 59), rnd.randint(0, 59), us)


def date_case(cname, d):
    ns = {}
    exec(DATE_SRC, ns)
    cls = ns[cname]
    kind, fmt = DATE_FORMATS[cname]
    return cls, observe(cls(d=d), cls, False), rt_oracle(kind, fmt, d)


def date_stream(rep, rnd, n):
    ns = {}
    exec(DATE_SRC, ns)
    for i in range(n):
        cname = rnd.choice(sorted(DATE_FORMATS))
        kind, fmt = DATE_FORMATS[cname]
        d = gen_date(rnd, kind)
        rt = rt_oracle(kind, fmt, d)
        o = observe(ns[cname](d=d), ns[cname], False)
        rep.count("dates", 1, (cname, rt, o["stage"]))
        rep.stat("dates", "RT:%s" % rt)
        rep.stat("dates", "outcome:%s" % (o["stage"] or "ok"))
        if o["stage"] is None:
            if not rt:
                # the oracle hypothesis failed but the round trip did not: the measurement itself is off
                rep.broken("oracle:RT", "RT false but round trip succeeded for %s %r" % (cname, d))
            continue
        lossy = "format-loses-information" if not rt else "format-round-trips"
        default = "default-format" if cname.endswith("0") else "custom-format"
        rep.finding("C05/%s:%s/date:%s(%s):%s" % (o["stage"], o["exn"], kind, default, lossy),
                    "%s field with format %r does not round-trip %r (RT of the format on this value: %s): %s" % (
                        kind, fmt, d, rt, o.get("detail", "")),
                    {"kind": "date", "cls": cname, "value": d.isoformat(), "vkind": kind, "stage": o["stage"]})


# ------------------------------------------------------------------ the check

def coq_eval_groups(groups, ty, fns, tag, per=250):
    """groups: [(ctx, [emitted records of type ty])] -- every group has its own class environment, every shard
    carries the header of its group.  Returns {fn: [(group index, item index)]}."""
    shards, where = [], []
    for gi, (ctx, items) in enumerate(groups):
        hdr = HEADER % (ctx.coq_env(), ctx.coq_enums())
        for s in range(0, len(items), per):
            body = hdr + "Definition cases : list %s := %s.\n" % (ty, E.lst(["\n " + i for i in items[s:s + per]]))
            for fn in fns:
                body += "Eval vm_compute in (indices_where %s cases 0).\n" % fn
            shards.append(body)
            where.append((gi, s))
    res = core.eval_cases(shards, tag, "")
    out = {fn: [] for fn in fns}
    for si, (rc, so, se) in enumerate(res):
        vals = core.parse_eval(so)
        if rc != 0 or len(vals) != len(fns):
            raise RuntimeError("case shard %d failed to evaluate: %s" % (si, (so + se)[-2000:]))
        gi, base = where[si]
        for fn, v in zip(fns, vals):
            out[fn] += [(gi, base + i) for i in core.parse_nat_list(v)]
    return out


def build_cases(rnd, tier):
    n_classes = 110 if tier == "quick" else 450
    SG.EXTRA_INJECT = True
    SG.EXTRA_NAMES, SG.EXTRA_P = list(X.EXTRA_NAMES), 0.35
    G.EXTRA_ITEM_GEN = X.gen_json_extra
    ctx, pools = SG.build_world(rnd, n_classes, max_depth=2 if tier == "quick" else 3, field_gen=X.gen_field_main,
                                ctx_cls=X.XContext)
    X.add_dispatch_classes(rnd, ctx, pools, 40 if tier == "quick" else 200, False, "KD")
    return ctx, cases_of(ctx, pools)


def cases_of(ctx, pools):
    """Every instance with compact=False; with compact=True (and compact deserialization on) for EVERY single-field
    class -- whether or not it is a wrapper in typedpy's sense: for the others the compact flag must change nothing --
    and for every fourth instance of the other classes."""
    cases = []
    n = 0
    for c in ctx.asts:
        for kw, x in pools.get(c["name"], []):
            cases.append({"ast": c, "kw": kw, "x": x, "compact": False})
            n += 1
            if len(c["fields"]) == 1 or n % 4 == 0:
                cases.append({"ast": c, "kw": kw, "x": x, "compact": True})
    return cases


def build_ext_cases(rnd, tier):
    """Classes with the SerializableField leaves outside the Coq model (DecimalNumber, DateField, DateTime, TimeField)
    at every position; judged on the implementation only."""
    n_classes = 70 if tier == "quick" else 400
    SG.EXTRA_INJECT = True
    SG.EXTRA_NAMES, SG.EXTRA_P = list(X.EXTRA_NAMES), 0.35
    G.EXTRA_ITEM_GEN = X.gen_json_extra
    ctx, pools = SG.build_world(rnd, n_classes, max_depth=2 if tier == "quick" else 3, prefix="E",
                                field_gen=X.gen_field_ext, ctx_cls=X.XContext)
    X.add_dispatch_classes(rnd, ctx, pools, 40 if tier == "quick" else 200, True, "ED")
    return ctx, cases_of(ctx, pools)


def class_kinds(c, ctx, seen=None):
    """Declaration kinds occurring in class c, nested structures included."""
    seen = seen if seen is not None else set()
    kinds = set()
    if c["name"] in seen:
        return kinds
    seen.add(c["name"])
    for fd in c["fields"]:
        X.kinds_in(fd["field"], kinds)
        for ref in refs_in(fd["field"]):
            try:
                kinds |= class_kinds(ctx.ast(ref), ctx, seen)
            except KeyError:
                pass
    return kinds


def deep_kinds(f, ctx):
    """Declaration kinds occurring in f, the classes it refers to included."""
    kinds = set(X.kinds_in(f))
    for ref in refs_in(f):
        try:
            kinds |= class_kinds(ctx.ast(ref), ctx)
        except KeyError:
            pass
    return kinds


def refs_in(f, acc=None):
    acc = acc if acc is not None else []
    if f["t"] == "ref":
        acc.append(f["cls"])
    for key in ("item", "kf", "vf"):
        if isinstance(f.get(key), dict):
            refs_in(f[key], acc)
    for key in ("items", "fs"):
        for g in f.get(key) or []:
            refs_in(g, acc)
    return acc


def date_finding_key(o, leaves):
    """Key of a failure of an instance holding a date/time value that its format does not round-trip (RT false)."""
    kind, custom, d, _ = [l for l in leaves if not l[3]][0]
    return "C05/%s:%s/date:%s(%s):format-loses-information" % (
        o["stage"], o["exn"], kind, "custom-format" if custom else "default-format")


def judge(rep, stream, ctx, cases, modelled=True):
    """Runs every case on the implementation and evaluates the clauses of the property on what is observed."""
    obs = []
    for case in cases:
        x = case["x"]
        c = case["ast"]
        if not X.stored_state_valid(x):
            # not a valid instance (normalised collision: constraints were checked on the supplied elements, the stored
            # converted ones violate them): outside the property's domain -- counted, not judged
            rep.stat(stream, "excluded:stored-state-rejected-by-its-own-declaration(normalised-collision)")
            obs.append({"compact": case["compact"], "stage": None, "exn": None, "excluded": "normalised-collision"})
            continue
        kinds = class_kinds(c, ctx)
        o = observe(x, ctx.classes[c["name"]], case["compact"], fixpoint_only=bool(kinds & {"any", "anyj"}))
        obs.append(o)
        if X.has_extras(x):
            # additional properties (at any depth): the second entry point, deserialize(..., keep_undefined=True), must
            # bring every one of them back whatever its name
            rep.stat(stream, "instances-with:additional-properties")
            for nm in X.extra_names(x):
                rep.stat(stream, "extra-name:" + X.name_class(nm))
            o2 = observe(x, ctx.classes[c["name"]], case["compact"], fixpoint_only=bool(kinds & {"any", "anyj"}), ku=True)
            rep.stat(stream, "outcome(keep_undefined=True):" + (o2["stage"] or "ok"))
            if o2["stage"] is not None and not (o2["stage"] in EXCUSABLE and "anyof" in kinds and X.ambiguous_anyof(x, ctx)):
                if o["stage"] is None or o["stage"] in ("not-equal", "not-fixpoint"):
                    # the default entry point passes, or loses the extras (F23): what fails is the keep_undefined=True path
                    o.update({k: o2[k] for k in o2 if k not in ("ser", "deser", "doc")})
        shape = (tuple(sorted(G.shape(fd["field"]) for fd in c["fields"])), bool(c.get("ignore_none")), c.get("additional"),
                 case["compact"], tuple((k, v[0]) for k, v in case["kw"]), case.get("label"))
        rep.count(stream, 1, shape)
        rep.stat(stream, "outcome:" + (o["stage"] or "ok"))
        rep.stat(stream, "clause:" + ("lossy-fixpoint" if o.get("loose") else "equal-instance"))
        for k in kinds:
            rep.stat(stream, "kind:" + k)
        measure(rep, stream, x, ctx, kinds)
        if o["stage"] is None:
            continue
        if o["stage"] in ("deser-raises", "not-equal", "not-fixpoint"):
            leaves = X.date_leaves(x, ctx) if "date" in kinds and o["stage"] == "not-equal" else []
            if any(not l[3] for l in leaves) and X.differs_only_in_dates(x, ctx.classes[c["name"]], case["compact"]):
                rep.stat(stream, "hypothesis:RT-of-a-date-format-false")
                rep.finding(date_finding_key(o, leaves),
                            "an instance holding %r does not round-trip; the field's format does not round-trip that value (RT false): %s"
                            % ([l[2] for l in leaves if not l[3]][0], o.get("detail", "")),
                            {"kind": "class", "python": python_src(c, case["kw"], ctx, case["compact"]), "loose": o.get("loose"),
                             "stage": o["stage"], "exn": o["exn"]})
                continue
            amb = X.ambiguous_anyof(x, ctx) if "anyof" in kinds or not modelled else None
            if amb is not None:
                # the property quantifies over AnyOf with DISTINGUISHABLE options: here the first option that reads the
                # serialized value reads it as something else, so the hypothesis fails on this value -- measured, not judged
                rep.stat(stream, "hypothesis:anyof-not-distinguishable(excused)")
                o["excused"] = "ambiguous-anyof"
                continue
        report_failure(rep, case, o, ctx)
    fails = sum(1 for o in obs if o["stage"] is not None and not o.get("excused"))
    rep.obligation("spec-on-observed:" + stream, True,
                   "%d instances, %d spec failures (each reported as a finding), %d not judged (AnyOf value does not distinguish "
                   "the options)" % (len(cases), fails, sum(1 for o in obs if o.get("excused"))))
    if cases:
        for i in (0, len(cases) // 2, len(cases) - 1):
            rep.sample({"stream": stream, "python": python_src(cases[i]["ast"], cases[i]["kw"], ctx, cases[i]["compact"])[-600:],
                        "serialized": repr(obs[i].get("doc"))[:300], "stage": obs[i]["stage"]})
    return obs


def judged_world(rep, stream, ctx, cases):
    """(stream, ctx, cases, observations) for the correspondence: the instances excluded from the property's domain
    (stored state rejected by its own declaration) were not run and are left out."""
    obs = judge(rep, stream, ctx, cases)
    keep = [i for i, o in enumerate(obs) if o.get("excluded") != "normalised-collision"]
    return stream, ctx, [cases[i] for i in keep], [obs[i] for i in keep]


def measure(rep, stream, x, ctx, kinds):
    """Input distribution of the classes of inputs the property singles out (written to the evidence file)."""
    import enum as _enum
    n_anyof = n_falsy_enum = n_falsy = 0
    for f, v in X.walk_instance(x, ctx):
        if f["t"] == "anyof" and v is not None and len([g for g in f["fs"] if g["t"] != "none"]) > 1:
            n_anyof += 1
            rej = []
            d = X.distinguishable(f, v, ctx, rej)
            rep.stat(stream, "anyof-value:" + {True: "distinguishes-the-options", False: "does-not-distinguish", None: "not-measured"}[d])
            for name in rej:
                rep.stat(stream, "anyof-earlier-option-rejects-with:" + name)
            if d and rej:
                rep.stat(stream, "instances-with:anyof-earlier-option-rejects")
            if d and any(n not in ("TypeError", "ValueError") for n in rej):
                # none since the repair of F9 / DecimalNumber.deserialize (IndexError, InvalidOperation): measured only
                rep.stat(stream, "instances-with:anyof-earlier-option-rejects-with-other-than-TypeError/ValueError")
        if isinstance(v, _enum.Enum):
            if not v.value:
                n_falsy_enum += 1
        elif f["t"] not in ("anyof", "ref") and v is not None and not v and not isinstance(v, _enum.Enum):
            n_falsy += 1
    if n_anyof:
        rep.stat(stream, "instances-with:multi-option-anyof-value")
    if n_falsy_enum:
        rep.stat(stream, "instances-with:enum-member-of-falsy-value")
    if n_falsy:
        rep.stat(stream, "instances-with:falsy-value")


def run(rep, tier):
    rnd = random.Random(core.seed() * 1000003 + 5)
    proofs_ok, model_ok = core.standard_proof_obligations(rep, "C05", ["theories/Check/C05chk.vo"])
    worlds = []          # (stream, ctx, cases, obs) of the worlds inside the Coq model
    ctx, cases = build_cases(rnd, tier)
    worlds.append(judged_world(rep, "roundtrip", ctx, cases))
    for li, (lctx, lcases) in enumerate(lattice_worlds(False)):
        worlds.append(judged_world(rep, "lattice", lctx, lcases))
    for lctx, lcases in lattice_worlds(True):
        judge(rep, "lattice-serializable-leaves", lctx, lcases, modelled=False)
    ectx, ecases = build_ext_cases(rnd, tier)
    judge(rep, "serializable-leaves", ectx, ecases, modelled=False)
    date_stream(rep, rnd, 300 if tier == "quick" else 3000)
    thresholds(rep)

    if model_ok:
        try:
            correspondence(rep, worlds)
        except RuntimeError as ex:
            rep.broken("correspondence:coq-eval", str(ex))
    if not proofs_ok:
        from harness.props.c17 import broken_build
        broken_build(rep)
    rep.assumptions += [
        "re.match is an oracle (Section variable), instantiated per run by a table filled from the real re module",
        "DecimalNumber and the date/time fields are outside the Coq model: their round trip (in every position: field, item of "
        "Array/Deque/Set/Tuple, Map key/value, AnyOf option, nested structure, compact wrapper) is evaluated on the implementation, "
        "with the format's own round trip RT measured on every generated value and the weaker lossy-fixpoint clause for Decimal",
        "AnyOf: the options are arbitrary declarations of the fragment; the hypothesis 'distinguishable' is MEASURED per value "
        "(the first option whose own deserializer reads the serialized value reads it as the value) and failures on values that do "
        "not distinguish the options are counted, not judged",
        "C05_roundtrip is proved for the fragment `frag`/`canon` of Ser/RoundTripProofs.v (see Props/C05.v); positional "
        "Array/Deque items, ImmutableSet and Anything are covered by the executable model and the correspondence only",
    ]
    return rep.finish(
        rule="classes of the serializable fragment generated in layers (scalars, enums by name/value incl. members of falsy value, "
             "Array/Deque/Set/Tuple/Map, nested structures, Optional/AnyOf over arbitrary options; _ignore_none, "
             "_additional_properties, compact wrappers), valid instances with falsy values injected at every position; a "
             "deterministic lattice leaf x position x value; DecimalNumber/date/time leaves at every position; "
             "distinct = (field shapes, flags, value kinds)")


_LATTICE = {}


def lattice_worlds(ext):
    if ext not in _LATTICE:
        _LATTICE[ext] = X.build_lattice(ext, "X" if ext else "L")
    return _LATTICE[ext]


def thresholds(rep):
    """A stream whose coverage of the input classes the property singles out is too thin fails the run as inconclusive."""
    need = [("roundtrip", "instances-with:multi-option-anyof-value", 15), ("roundtrip", "instances-with:falsy-value", 100),
            ("roundtrip", "instances-with:enum-member-of-falsy-value", 5), ("lattice", "instances-with:enum-member-of-falsy-value", 100),
            ("serializable-leaves", "kind:decimal", 30), ("serializable-leaves", "kind:date", 30),
            # "every earlier option rejects the document, with whatever exception": the deserializers of the generated
            # options raise TypeError/ValueError only since F9 and DecimalNumber.deserialize were repaired (IndexError,
            # InvalidOperation before), so the floor is on rejections of any class
            ("roundtrip", "instances-with:anyof-earlier-option-rejects", 25),
            ("lattice", "instances-with:anyof-earlier-option-rejects", 100),
            ("serializable-leaves", "instances-with:anyof-earlier-option-rejects", 15)]
    bad = []
    for stream, key, n in need:
        got = rep.cov["streams"].get(stream, {}).get("dist", {}).get(key, 0)
        if got < n:
            bad.append("%s/%s: %d < %d" % (stream, key, got, n))
    rep.obligation("coverage:input-classes", not bad, "; ".join(bad) or "all thresholds met")
    if bad:
        rep.broken("coverage:input-classes", "the generated inputs do not cover the classes the property singles out: " + "; ".join(bad))


def correspondence(rep, worlds):
    sgroups, dgroups, dmaps = [], [], []
    for stream, ctx, cases, obs in worlds:
        insts = [SG.reify_o(case["x"]) for case in cases]
        docs = [o["ser"][1] for o in obs if o.get("ser", ("",))[0] == "ok"]
        tbl = tables_for(ctx, insts + docs)
        sgroups.append((ctx, [emit_scase(inst, case["compact"], o["ser"], tbl) for inst, case, o in zip(insts, cases, obs)]))
        d_idx = [i for i, o in enumerate(obs) if "deser" in o]
        dmaps.append(d_idx)
        dgroups.append((ctx, [emit_dcase(cases[i]["ast"]["name"], obs[i]["ser"][1], obs[i]["deser"], tbl, compact=cases[i]["compact"])
                              for i in d_idx]))
    r = coq_eval_groups(sgroups, "scase", ["smismatch", "sunmodelled", "simpure"], "c05s")
    n_s = sum(len(g[1]) for g in sgroups)
    rep.count("correspondence:ser", n_s)
    rep.cov["streams"]["correspondence:ser"]["declined_by_model"] = len(r["sunmodelled"])
    rep.obligation("correspondence:serialize", not r["smismatch"], "%d cases, %d mismatches, %d outside the model" % (
        n_s, len(r["smismatch"]), len(r["sunmodelled"])))
    # the purity clause evaluated in Coq on the reified output must agree with the Python-side verdict
    py_impure = {(gi, i) for gi, w in enumerate(worlds) for i, o in enumerate(w[3]) if o["stage"] in ("ser-raises", "impure")}
    rep.obligation("spec-on-observed:json_pure(coq)", set(r["simpure"]) == py_impure,
                   "%d impure/raising outputs (Coq) vs %d (Python)" % (len(r["simpure"]), len(py_impure)))

    def src(gi, i):
        _, ctx, cases, obs = worlds[gi]
        return python_src(cases[i]["ast"], cases[i]["kw"], ctx, cases[i]["compact"])

    if set(r["simpure"]) != py_impure:
        gi, i = sorted(set(r["simpure"]) ^ py_impure)[0]
        rep.broken("spec-on-observed:json_pure", "json_pure (Coq) and the Python type walk disagree", {"python": src(gi, i)})
    concrete = any(not v["no_input"] for v in rep.violations)
    if r["smismatch"] and not concrete:
        gi, i = r["smismatch"][0]
        rep.broken("correspondence:serialize", "model (Ser/Serialize.v) and typedpy differ on %d generated instances; no "
                   "round-trip failure was observed" % len(r["smismatch"]),
                   {"python": src(gi, i), "observed": repr(worlds[gi][3][i]["ser"])})
    r2 = coq_eval_groups(dgroups, "dcase", ["dmismatch", "dunmodelled"], "c05d")
    n_d = sum(len(g[1]) for g in dgroups)
    rep.count("correspondence:deser", n_d)
    rep.cov["streams"]["correspondence:deser"]["declined_by_model"] = len(r2["dunmodelled"])
    rep.obligation("correspondence:deserialize", not r2["dmismatch"], "%d cases, %d mismatches, %d outside the model" % (
        n_d, len(r2["dmismatch"]), len(r2["dunmodelled"])))
    if r2["dmismatch"] and not concrete:
        gi, di = r2["dmismatch"][0]
        i = dmaps[gi][di]
        rep.broken("correspondence:deserialize", "model (Ser/Deserialize.v) and typedpy differ on %d documents; no "
                   "round-trip failure was observed" % len(r2["dmismatch"]),
                   {"python": src(gi, i), "observed": repr(worlds[gi][3][i]["deser"])})


def replay(obj):
    rnd = random.Random(0)
    if obj.get("kind") == "date":
        kind = obj["vkind"]
        d = {"date": datetime.date, "time": datetime.time, "datetime": datetime.datetime}[kind].fromisoformat(obj["value"])
        cls, o, rt = date_case(obj["cls"], d)
        print("class %s, value %r, RT of the format: %s" % (obj["cls"], d, rt))
        print("observed:", o["stage"], o["exn"], o.get("detail"))
        print("required: Deserializer(cls).deserialize(Serializer(x).serialize()) == x")
        return 1 if o["stage"] is not None else 0
    src = obj.get("python")
    if not src:
        print("no replayable input recorded:", obj.get("detail", ""))
        return 2
    print(src[-1500:])
    ns = {}
    try:
        exec(src, ns)
    except Exception as ex:  # noqa
        print("observed: raises", type(ex).__name__, ex)
        print("required: output pure JSON and deserialization returns an instance equal to x")
        return 1
    x, y, j = ns.get("x"), ns.get("y"), ns.get("j")
    if obj.get("loose") or has_decimal(x):
        from typedpy import Serializer
        ok = X.loose_eq(y, x) and X.pure_json(j) and Serializer(y).serialize(compact=bool(obj.get("compact"))) == j
        print("required: output pure JSON, y == x up to the documented loss, serialize(y) == serialize(x);  observed:",
              "holds" if ok else "VIOLATED")
    else:
        ok = y == x and X.pure_json(j)
        print("required: output pure JSON and y == x;  observed:", "holds" if ok else "VIOLATED")
    return 0 if ok else 1
