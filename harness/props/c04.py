"""C04 — immutable structures and immutable fields never change after construction.

Proof obligations: Props/C04.v (handle model of Struct/Handles.v: C04_invariant over ALL finite
operation sequences, witnesses for every unguarded table entry, constructor arguments, no-subclass).
Tie to the code: (1) Gen/Tables.v is regenerated from /repo on every run (override shapes of every
introspected mutator and accessor of list/dict/deque, the immutable-type tuples, structural facts) and
the kernel re-checks the theorems and the `today` configuration against it; (2) correspondence: for
every generated immutable class shape the real instance is explored — every introspected accessor of
the runtime type ACTUALLY returned, every introspected mutator on every internal object reached,
setattr / delattr / delitem / unpickle / constructor-argument mutation — and the observed handle
kinds (detached / reference to internal path) and effects (raise / no change / change) are compared
with the model's prediction inside Coq.
Violation search: the statement's own clause — the observable snapshot (field read, ==, hash, str,
Serializer output vs a pristine twin) must not change — evaluated on the real instance after every
mutation attempt; a change is a concrete violation keyed by call site."""
import collections
import copy
import pickle
import random
import sys

from harness import core
from harness import coqemit as E
from harness import gen as GEN0
from harness.genmods import c04tables as GEN

deque = collections.deque

# ------------------------------------------------------------------ class shapes (decl AST, JSON-able lists)
# ["atom"] ["arr",d] ["deq",d] ["map",d] ["set"] ["iset"] ["tup",d] ["raw",o] ["mapraw",o] ["ref",imm]
# raw object o: ["a"] | ["b", kind, [o...]]  with kind in list/dict/tuple/set
RAWS = {
    "rlist": ["b", "list", [["a"], ["a"]]],
    "rdict": ["b", "dict", [["a"], ["a"]]],
    "rtuple": ["b", "tuple", [["b", "list", [["a"]]], ["a"]]],
    "rnested": ["b", "list", [["b", "list", [["a"]]], ["a"]]],
    "rset": ["b", "set", [["a"], ["a"]]],
}
LEAVES = [["atom"], ["set"], ["iset"], ["ref", False], ["ref", True]] + [["raw", RAWS[k]] for k in sorted(RAWS)] + \
         [["mapraw", RAWS["rlist"]], ["mapraw", ["a"]]] + \
         [["arrraw", RAWS["rlist"]], ["arrraw", RAWS["rdict"]], ["deqraw", RAWS["rlist"]], ["arrpre", RAWS["rlist"]]]
# arrraw / deqraw: an UNTYPED Array / Deque (no items) holding two raw objects; arrpre: a positional prefix
# items=[Integer()] followed by one free-form raw element
SEQRAW = {"arrraw": "Array()", "deqraw": "Deque()", "arrpre": "Array[Integer,..]"}
CONTAINERS = ["arr", "deq", "map", "tup"]


def all_shapes(max_containers):
    """every declaration with at most `max_containers` nested typed containers around a leaf"""
    out = []
    level = [list(l) for l in LEAVES]
    out += level
    for _ in range(max_containers):
        nxt = []
        for d in level:
            for c in CONTAINERS:
                nxt.append([c, d])
        out += nxt
        level = nxt
    return out


def depth_of(d):
    n = 0
    while d[0] in CONTAINERS:
        n += 1
        d = d[1]
    return n


def decl_name(d):
    t = d[0]
    if t in CONTAINERS:
        return {"arr": "Array", "deq": "Deque", "map": "Map", "tup": "Tuple"}[t] + ">" + decl_name(d[1])
    if t == "raw":
        return "Anything(%s)" % [k for k, v in RAWS.items() if v == d[1]][0]
    if t == "mapraw":
        return "Map()(%s)" % ("atom" if d[1] == ["a"] else "rlist")
    if t == "ref":
        return "IInner" if d[1] else "Inner"
    if t in SEQRAW:
        return "%s(%s)" % (SEQRAW[t], [k for k, v in RAWS.items() if v == d[1]][0])
    return {"atom": "Integer", "set": "Set", "iset": "ImmutableSet"}[t]


def field_src(d, top_kw=""):
    t = d[0]
    kw = (", " + top_kw) if top_kw else ""
    if t == "atom":
        return "Integer(%s)" % top_kw
    if t == "arr":
        return "Array(items=%s%s)" % (field_src(d[1]), kw)
    if t == "deq":
        return "Deque(items=%s%s)" % (field_src(d[1]), kw)
    if t == "map":
        return "Map(items=[String(), %s]%s)" % (field_src(d[1]), kw)
    if t == "set":
        return "Set(items=Integer()%s)" % kw
    if t == "iset":
        return "ImmutableSet(items=Integer())"
    if t == "tup":
        inner = field_src(d[1])
        if d[1][0] == "ref":
            inner = "ClassReference(%s)" % inner
        return "Tuple(items=[%s, Integer()]%s)" % (inner, kw)
    if t == "raw":
        return "Anything(%s)" % top_kw
    if t == "mapraw":
        return "Map(%s)" % top_kw
    if t == "arrraw":
        return "Array(%s)" % top_kw
    if t == "deqraw":
        return "Deque(%s)" % top_kw
    if t == "arrpre":
        return "Array(items=[Integer()]%s)" % kw
    if t == "ref":
        if top_kw:
            raise ValueError("class reference cannot be declared immutable")
        return "IInner" if d[1] else "Inner"
    raise ValueError(d)


IMPORTS = ("from typedpy import (Structure, ImmutableStructure, Integer, String, Array, Deque, Set, ImmutableSet, "
           "Tuple, Map, Anything)\nfrom typedpy.structures import ClassReference\n")
INNER_SRC = ("class Inner(Structure):\n    a = Integer()\n    l = Array(items=Integer())\n    _required = []\n"
             "class IInner(ImmutableStructure):\n    a = Integer()\n    l = Array(items=Integer())\n    _required = []\n")

_ns = {}


def namespace():
    if not _ns:
        exec(IMPORTS + INNER_SRC, _ns)
        me = sys.modules[__name__]
        for n in ("Inner", "IInner"):
            _ns[n].__module__ = __name__
            setattr(me, n, _ns[n])
    return _ns


_cls_cache = {}
_counter = [0]


def class_src(si, fi, d, name):
    base = "ImmutableStructure" if si else "Structure"
    # g: a second, optional field that is never populated (assignment to an ABSENT attribute of an immutable
    # instance is a different path through __setattr__/Field.__set__ than re-assignment of a populated one)
    return "class %s(%s):\n    f = %s\n    g = Integer()\n    _required = []\n" % (
        name, base, field_src(d, "immutable=True" if fi else ""))


def realize(si, fi, d):
    key = (si, fi, repr(d))
    if key not in _cls_cache:
        ns = namespace()
        _counter[0] += 1
        name = "C04K%d" % _counter[0]
        exec(class_src(si, fi, d, name), ns)
        cls = ns[name]
        cls.__module__ = __name__
        setattr(sys.modules[__name__], name, cls)
        _cls_cache[key] = cls
    return _cls_cache[key]


class Ctr:
    def __init__(self):
        self.n = 100

    def atom(self):
        # decreasing, so that sort()/reverse() of any container of atoms is effective
        self.n -= 1
        return self.n


def raw_value(o, ctr):
    if o[0] == "a":
        return ctr.atom()
    kids = [raw_value(c, ctr) for c in o[2]]
    k = o[1]
    if k == "list":
        return kids
    if k == "dict":
        return {"k%d" % i: v for i, v in enumerate(kids)}
    if k == "tuple":
        return tuple(kids)
    if k == "set":
        return set(kids)
    raise ValueError(o)


def value_of(d, ctr):
    ns = namespace()
    t = d[0]
    if t == "atom":
        return ctr.atom()
    if t == "arr":
        return [value_of(d[1], ctr), value_of(d[1], ctr)]
    if t == "deq":
        return deque([value_of(d[1], ctr), value_of(d[1], ctr)])
    if t == "map":
        return {"k0": value_of(d[1], ctr), "k1": value_of(d[1], ctr)}
    if t in ("set", "iset"):
        return {ctr.atom(), ctr.atom()}
    if t == "tup":
        return (value_of(d[1], ctr), ctr.atom())
    if t == "raw":
        return raw_value(d[1], ctr)
    if t == "mapraw":
        return {"k0": raw_value(d[1], ctr), "k1": raw_value(d[1], ctr)}
    if t == "arrraw":
        return [raw_value(d[1], ctr), raw_value(d[1], ctr)]
    if t == "deqraw":
        return deque([raw_value(d[1], ctr), raw_value(d[1], ctr)])
    if t == "arrpre":
        return [ctr.atom(), raw_value(d[1], ctr)]
    if t == "ref":
        a, b, c = ctr.atom(), ctr.atom(), ctr.atom()
        return ns["IInner" if d[1] else "Inner"](a=a, l=[b, c])
    raise ValueError(d)


def make(si, fi, d):
    cls = realize(si, fi, d)
    arg = value_of(d, Ctr())
    return cls(f=arg), arg


# ------------------------------------------------------------------ observation helpers
_Structure = []


def is_struct(v):
    if not _Structure:
        _Structure.append(namespace()["Structure"])
    return isinstance(v, _Structure[0])


def kind_of(v):
    """runtime base kind of a container object, or None for scalars"""
    if isinstance(v, bool) or isinstance(v, (int, float, str, type(None))):
        return None
    if is_struct(v):
        return "struct"
    for name, base in (("list", list), ("deque", deque), ("dict", dict), ("frozenset", frozenset), ("set", set),
                       ("tuple", tuple)):
        if isinstance(v, base):
            return name
    return "other"


_Mixin = []


def is_wrapper(v):
    if not _Mixin:
        from typedpy.structures import ImmutableMixin, ImmutableStructure
        _Mixin.extend([ImmutableMixin, ImmutableStructure])
    return isinstance(v, _Mixin[0])


def is_imm_struct(v):
    is_wrapper(v)
    return isinstance(v, _Mixin[1])


STRUCT_FIELDS = ["a", "l"]


def raw_children(v):
    """the objects contained in v, by base-class access (no wrapper method runs)"""
    k = kind_of(v)
    if k == "list":
        return list(list.__iter__(v))
    if k == "deque":
        return list(deque.__iter__(v))
    if k == "dict":
        return list(dict.values(v))
    if k == "tuple":
        return list(tuple.__iter__(v))
    if k in ("set", "frozenset"):
        return sorted(type(v).__iter__(v) if False else list(frozenset(v)), reverse=True)
    if k == "struct":
        return [v.__dict__.get(n) for n in STRUCT_FIELDS]
    return []


def norm(v):
    """plain structural image of a value (wrappers and plain containers alike)"""
    k = kind_of(v)
    if k is None:
        return v
    if k == "struct":
        return ("struct", type(v).__name__, tuple((n, norm(v.__dict__.get(n))) for n in sorted(v.__dict__)
                                                  if not n.startswith("_")))
    if k == "dict":
        return ("dict", tuple((kk, norm(vv)) for kk, vv in dict.items(v)))
    if k in ("set", "frozenset"):
        return (k, tuple(sorted(map(repr, frozenset(v)))))
    if k == "other":
        return ("other", repr(v))
    return (k, tuple(norm(c) for c in raw_children(v)))


def plain(v):
    """a fresh plain python copy of v (what a client would type)"""
    k = kind_of(v)
    if k is None or k == "other":
        return v
    if k == "struct":
        return type(v)(**{n: plain(v.__dict__[n]) for n in STRUCT_FIELDS if n in v.__dict__})
    if k == "dict":
        return {kk: plain(vv) for kk, vv in dict.items(v)}
    if k == "set":
        return set(frozenset(v))
    if k == "frozenset":
        return frozenset(v)
    kids = [plain(c) for c in raw_children(v)]
    return {"list": list, "deque": deque, "tuple": tuple}[k](kids)


def snapshot(x, twin):
    from typedpy import Serializer
    out = []
    try:
        out.append(norm(x.f))
    except Exception as e:  # noqa
        out.append(("read-raises", type(e).__name__))
    try:
        out.append(str(x))
    except Exception as e:  # noqa
        out.append(("str-raises", type(e).__name__))
    try:
        out.append(hash(x))
    except Exception as e:  # noqa
        out.append(("hash-raises", type(e).__name__))
    try:
        out.append(x == twin)
    except Exception as e:  # noqa
        out.append(("eq-raises", type(e).__name__))
    try:
        out.append(repr(Serializer(x).serialize()))
    except Exception as e:  # noqa
        out.append(("ser-raises", type(e).__name__))
    return out


def idmap_of(x):
    """id -> path of every container object of the internal state of field f"""
    out = {}
    keep = []

    def walk(v, path):
        if kind_of(v) is None:
            return
        out.setdefault(id(v), path)
        keep.append(v)
        for i, c in enumerate(raw_children(v)):
            walk(c, path + (i,))
    if "f" in x.__dict__:
        walk(x.__dict__["f"], ())
    return out, keep


def deeply_immutable(v, depth=0):
    k = kind_of(v)
    if k is None:
        return True
    if k in ("tuple", "frozenset") and depth < 8:
        return all(deeply_immutable(c, depth + 1) for c in raw_children(v))
    return False


def copy_self(v, depth=0):
    """deepcopy returns v itself: an ImmutableStructure instance, or a tuple of such / deeply immutable items"""
    if is_imm_struct(v):
        return True
    if kind_of(v) == "tuple" and depth < 8:
        return all(deeply_immutable(c) or copy_self(c, depth + 1) for c in raw_children(v))
    return False


def aliased_path(v, idmap, depth=0):
    """path of an internal object that v is or (shallowly / deeply) contains, else None.
    ImmutableStructure instances are shared by deepcopy by design: one found INSIDE a copy is not an alias
    (its own entry points are explored where it is handed out by reference)."""
    if depth > 6 or deeply_immutable(v):
        return None         # deepcopy hands deeply immutable objects on unchanged: not an alias
    if id(v) in idmap:
        if depth > 0 and copy_self(v):
            return None
        return idmap[id(v)]
    for c in raw_children(v):
        p = aliased_path(c, idmap, depth + 1)
        if p is not None:
            return p
    return None


# ------------------------------------------------------------------ accessors
def tables():
    if "c04" not in GEN._cache:
        GEN.regenerate()
    return GEN._cache["c04"]


_acc_cache = {}


def accessor_names(v):
    """introspected accessors of the runtime type of v"""
    k = kind_of(v)
    if k == "struct":
        return ["getattr"]
    if k not in _acc_cache:
        base = dict(GEN.BASES)[k]
        _acc_cache[k] = [n for n, _, _ in GEN.base_accessors(base)]
    return _acc_cache[k]


CONSUMERS = dict(GEN.CONSUMERS)


def drain(r):
    if hasattr(r, "__iter__"):
        return list(r)
    out = []            # typedpy's ListIteratorProxy has __next__ only
    while len(out) < 1000:
        try:
            out.append(next(r))
        except StopIteration:
            break
    return out


def elements_of(r, accname):
    """objects reachable from the result r of an accessor (pairs of items() opened)"""
    k = kind_of(r)
    if k == "dict":
        return list(dict.values(r))
    if k in ("list", "deque", "tuple", "set", "frozenset"):
        els = raw_children(r) if k not in ("set", "frozenset") else list(frozenset(r))
    else:
        els = drain(r)      # iterator / generator / view
    if accname == "items":
        els = [e[1] for e in els]
    return els


def apply_accessor(h, name, i):
    """apply accessor `name` to handle h and take the contained object number i.
    Returns ("none",) | ("obj", object)."""
    k = kind_of(h)
    kids = raw_children(h)
    if i >= len(kids):
        return ("none",)
    want = norm(kids[i])
    if k == "struct":
        try:
            return ("obj", getattr(h, STRUCT_FIELDS[i]))
        except Exception:  # noqa
            return ("none",)
    if name in CONSUMERS:
        try:
            r = CONSUMERS[name](h)
            els = elements_of(r, name)
        except Exception:  # noqa
            return ("none",)
        for e in els:
            if norm(e) == want:
                return ("obj", e)
        return ("none",)
    meth = name.split(":")[0]
    key_i = list(dict.keys(h))[i] if k == "dict" else None
    base = dict(GEN.BASES)[k]
    if name.endswith(":slice"):
        cands = [(slice(None),)]
    elif name in ("__getitem__", "get"):
        cands = [(key_i,)] if k == "dict" else [(i,)]
    else:
        empty = base() if k != "dict" else {}
        try:
            same = base(raw_children(h)) if k not in ("dict",) else dict(h)
        except Exception:  # noqa
            same = empty
        cands = [(), (empty,), (1,), (same,)]
    for args in cands:
        try:
            r = getattr(h, meth)(*args)
        except Exception:  # noqa
            continue
        if name in ("__getitem__", "get"):
            return ("obj", r)
        try:
            els = elements_of(r, name)
        except Exception:  # noqa
            continue
        for e in els:
            if norm(e) == want:
                return ("obj", e)
    return ("none",)


def reach(x, apath):
    """replay an accessor path on a fresh instance; returns the object or raises LookupError"""
    h = x.f
    for name, i in apath:
        r = apply_accessor(h, name, i)
        if r[0] != "obj":
            raise LookupError((name, i))
        h = r[1]
    return h


# ------------------------------------------------------------------ mutators
_mut_cache = {}


def mutator_names(v):
    k = kind_of(v)
    if k == "struct":
        return ["__setattr__", "__delitem__"]
    if k in ("tuple", "frozenset", None, "other"):
        return []
    if k not in _mut_cache:
        _mut_cache[k] = GEN0.mutators_of(dict(GEN.BASES)[k])
    return _mut_cache[k]


def mut_candidates(h, name):
    """argument tuples to try for mutator `name` on (a plain copy of) h"""
    k = kind_of(h)
    kids = raw_children(h)
    if k == "struct":
        return [("a", 424242)] if name == "__setattr__" else [("a",)]
    if k == "dict":
        v = plain(kids[0]) if kids else 0
        k0 = next(iter(dict.keys(h)), "k0")
        return [(k0,), ("knew", v), ({"knew": v},), ("knew",), ()]
    if k == "set":
        a = next(iter(h), 0)
        return [(424242,), (a,), ({a},), ({424242},), (set(),), ()]
    v0 = plain(kids[0]) if kids else 0
    v1 = plain(kids[1]) if len(kids) > 1 else v0
    return [(0,), (v0,), ([v0],), (0, v1), (2,), (1,), (kids[0] if kids else 0,), ()]


def call_mutator(h, name, args):
    if kind_of(h) == "struct":
        if name == "__setattr__":
            setattr(h, *args)
        else:
            del h[args[0]]
        return
    getattr(h, name)(*copy.deepcopy(args))


def effective_args(h, name):
    """first candidate that succeeds on, and changes, a plain copy of h (self-calibrating)"""
    for args in mut_candidates(h, name):
        try:
            p = plain(h)
            before = norm(p)
            call_mutator(p, name, args)
            if norm(p) != before:
                return args
        except Exception:  # noqa
            continue
    return None


def deep_mutate(v, depth=0, skip_immutable=False):
    """mutate, through the ordinary client API, every mutable object reachable in v (v is the client's own)"""
    if kind_of(v) is None or depth > 5:
        return
    if skip_immutable and is_imm_struct(v):
        return      # sharing an immutable object is not an alias (its own holes are reported at their call sites)
    kids = raw_children(v)
    for name in mutator_names(v):
        if name in ("clear", "pop", "popitem", "popleft", "__delitem__", "remove", "discard", "difference_update",
                    "intersection_update", "__iand__", "__isub__"):
            continue        # keep the children reachable; growth mutations suffice to be visible
        args = effective_args(v, name)
        if args is None:
            continue
        try:
            call_mutator(v, name, args)
        except Exception:  # noqa
            pass
    for c in kids:
        deep_mutate(c, depth + 1, skip_immutable)


# ------------------------------------------------------------------ exploring one class shape
def chain_of(d, path):
    """declared container kinds along an internal path, e.g. Array>Array"""
    names = []
    for _ in range(len(path) + 1):
        t = d[0]
        names.append({"arr": "Array", "deq": "Deque", "map": "Map", "tup": "Tuple", "set": "Set", "iset": "ImmutableSet",
                      "raw": "Anything", "mapraw": "Map()", "arrraw": "Array()", "deqraw": "Deque()",
                      "arrpre": "Array[Integer,..]", "ref": "IInner" if (t == "ref" and d[1]) else "Inner",
                      "atom": "Integer"}.get(t, t))
        if t in CONTAINERS:
            d = d[1]
        else:
            break
    return ">".join(names)


def tyname(v):
    if is_wrapper(v):
        return type(v).__name__
    if is_struct(v):
        return "ImmutableStructure" if is_imm_struct(v) else "Structure"
    return type(v).__name__


def explore(si, fi, d, rep):
    """Returns the case dict (probes + observations) and the list of findings [(key, what, replay)]."""
    findings = []
    x, _ = make(si, fi, d)
    twin, _ = make(si, fi, d)
    snap0 = snapshot(x, twin)
    base_replay = {"struct_immutable": si, "field_immutable": fi, "decl": d,
                   "class_source": INNER_SRC + class_src(si, fi, d, "C")}
    idmap, keep = idmap_of(x)
    acc_obs = []        # (apath, obs)
    internal = {}       # path -> (apath reaching it, handle object, hand-out info)
    detached = []       # (apath, object)
    queue = []

    def classify(obj, apath):
        if deeply_immutable(obj):
            return ("det",)     # a scalar, or a tuple / frozenset of such: as good as a copy
        p = aliased_path(obj, idmap)
        if p is None:
            detached.append((apath, obj))
            return ("det",)
        if id(obj) not in idmap:
            # a fresh container that still holds internal objects (a shallow copy)
            detached.append((apath, obj))
            return ("ref", p, "shallow")
        return ("ref", p, "self")

    # the initial read
    try:
        h0 = x.f
        c0 = classify(h0, ())
    except Exception:  # noqa
        h0, c0 = None, ("none",)
    acc_obs.append(((), c0))
    if c0[0] == "ref" and c0[2] == "self":
        internal[c0[1]] = ((), h0)
        queue.append(c0[1])
    while queue:
        q = queue.pop(0)
        apath, h = internal[q]
        for name in accessor_names(h):
            for i in range(min(2, len(raw_children(h)))):
                r = apply_accessor(h, name, i)
                ap = apath + ((name, i),)
                if r[0] != "obj":
                    acc_obs.append((ap, ("none",)))
                    continue
                c = classify(r[1], ap)
                acc_obs.append((ap, c))
                if c[0] == "ref" and c[2] == "self" and c[1] not in internal:
                    internal[c[1]] = (ap, r[1])
                    queue.append(c[1])
    # everything classified detached: mutate all of it, the instance must not notice
    for _, obj in detached:
        deep_mutate(obj, skip_immutable=True)
    snap1 = snapshot(x, twin)
    if snap1 != snap0:
        culprit = None
        for ap, _obj in detached:
            y, _ = make(si, fi, d)
            tw = twin
            try:
                o2 = reach(y, ap)
            except LookupError:
                continue
            deep_mutate(o2, skip_immutable=True)
            if snapshot(y, tw) != snap0:
                culprit = ap
                break
        findings.append(("C04/copy-not-detached/%s/%s" % (chain_of(d, ()), culprit[-1][0] if culprit else "?"),
                         "mutating an object that an accessor returned as a copy changed the instance",
                         dict(base_replay, kind="detached", apath=culprit)))
        x, _ = make(si, fi, d)
        twin, _ = make(si, fi, d)
    # every introspected mutator on every internal object handed out
    mut_obs = []
    by_apath = {ap: (p, obj) for p, (ap, obj) in internal.items()}
    live = {}
    seen_keys = set()
    for q, (apath, h) in sorted(internal.items()):
        objs = [by_apath[apath[:n]] for n in range(len(apath) + 1)]
        for m in mutator_names(h):
            args = effective_args(h, m)
            if args is None:
                rep.stat("mutators", "ineffective-on-this-content")
                continue
            code, exn = run_mutation(si, fi, d, apath, m, args, snap0, twin)
            if code is None:
                continue
            mut_obs.append((apath, m, code))
            rep.stat("mutators", "outcome:%s" % ["raise", "no-change", "CHANGED"][code])
            if code == 2:
                live.setdefault(q, (m, args))
                key, what = key_for(d, objs, apath, m, si)
                seen_keys.add(key)
                findings.append((key, what, dict(base_replay, kind="mutator", apath=apath, mutator=m, args=repr(args),
                                                 internal_path=list(q), runtime_type=tyname(h))))
    # every OTHER access path that hands out an object shown to be live (or an object containing one):
    # one more call site each
    for ap, obs in acc_obs:
        if obs[0] != "ref" or obs[2] != "self" or not ap or ap[:-1] not in by_apath:
            continue
        q = obs[1]
        dq = internal[q][0]
        if dq == ap:
            continue
        parent_ap = ap[:-1]
        head = [by_apath[parent_ap[:n]] for n in range(len(parent_ap) + 1)]
        for q2, (m, args) in sorted(live.items()):
            d2 = internal[q2][0]
            if d2[:len(dq)] != dq:
                continue
            alt = ap + d2[len(dq):]
            objs = head + [by_apath[d2[:n]] for n in range(len(dq), len(d2) + 1)]
            key, what = key_for(d, objs, alt, m, si)
            if key in seen_keys:
                continue
            seen_keys.add(key)
            code, exn = run_mutation(si, fi, d, alt, m, args, snap0, twin)
            rep.stat("mutators", "via-other-access-path:%s" % code)
            if code == 2:
                findings.append((key, what, dict(base_replay, kind="mutator", apath=alt, mutator=m, args=repr(args),
                                                 internal_path=list(q2), runtime_type=tyname(internal[q2][1]))))
    # instance-level operations
    ops_obs = []
    newval = deep_grow(value_of(d, Ctr()))

    def inst_op(label, fn, coq_ops, key):
        y, _ = make(si, fi, d)
        tw = twin
        raised = False
        target = y
        try:
            target = fn(y) or y
        except Exception:  # noqa
            raised = True
        s = snapshot(target, tw)
        code = 2 if s != snap0 else (0 if raised else 1)
        ops_obs.append((coq_ops, code))
        rep.stat("instance-ops", "%s:%s" % (label, ["raise", "no-change", "CHANGED"][code]))
        if code == 2:
            findings.append((key, "%s changed the observable state of an immutable %s" % (
                label, "structure" if si else "field"), dict(base_replay, kind="op", op=label)))

    inst_op("setattr", lambda y: setattr(y, "f", copy.deepcopy(newval)), "[OSetAttr (Atom 5)]", "C04/setattr")
    inst_op("delattr", lambda y: delattr(y, "f"), "[ODelAttr]", "C04/delattr")
    inst_op("delitem", lambda y: y.__delitem__("f"), "[ODelItem]", "C04/delitem")

    def unpickled_set(y):
        z = pickle.loads(pickle.dumps(y))
        z.f = copy.deepcopy(newval)
        return z
    inst_op("unpickle+setattr", unpickled_set, "[OUnpickle; OSetAttr (Atom 5)]", "C04/unpickled-setattr")

    def copied_set(y):
        z = copy.copy(y)
        z.f = copy.deepcopy(newval)
        return z
    # (oracle only) a shallow / deep copy of an immutable instance is immutable too
    for label, fn in (("copy.copy+setattr", copied_set),):
        y, _ = make(si, fi, d)
        tw = twin
        try:
            z = fn(y)
        except Exception:  # noqa
            z = y
        if snapshot(z, tw) != snap0 or snapshot(y, tw) != snap0:
            findings.append(("C04/" + label, label + " changed an immutable instance", dict(base_replay, kind="op", op=label)))
    # (oracle only) further assignment paths on an immutable STRUCTURE: an absent optional field, an
    # undeclared attribute (additional properties are allowed by default), None, deletion of the absent field
    if si:
        def set_absent(y):
            y.g = 7
        def set_extra(y):
            y.zz_extra = 7
        def set_none(y):
            y.f = None
        def set_absent_none_then_value(y):
            y.g = None
            y.g = 7
        for label, fn in (("setattr-absent-field", set_absent), ("setattr-undeclared", set_extra),
                          ("setattr-none", set_none), ("setattr-absent-none-then-value", set_absent_none_then_value)):
            y, _ = make(si, fi, d)
            tw = twin
            try:
                fn(y)
            except Exception:  # noqa
                pass
            changed = snapshot(y, tw) != snap0 or "g" in y.__dict__ or "zz_extra" in y.__dict__
            rep.stat("instance-ops", "%s:%s" % (label, "CHANGED" if changed else "unchanged"))
            if changed:
                findings.append(("C04/" + label, label + " changed an immutable structure",
                                 dict(base_replay, kind="op", op=label)))
    # later mutation of the constructor arguments
    y, arg = make(si, fi, d)
    tw = twin
    deep_mutate(arg, skip_immutable=True)
    ctor_changed = snapshot(y, tw) != snap0
    rep.stat("ctor-args", "changed" if ctor_changed else "detached")
    if ctor_changed:
        findings.append(("C04/ctor-arg-alias/%s" % decl_name(d).split(">")[-1] if depth_of(d) == 0 else
                         "C04/ctor-arg-alias/%s" % decl_name(d),
                         "mutating the object passed to the constructor changed the immutable instance",
                         dict(base_replay, kind="ctor")))
    return {"shape": (si, fi, d), "acc": acc_obs, "mut": mut_obs, "ops": ops_obs, "ctor": ctor_changed}, findings


def deep_grow(v):
    """make a value differ from the canonical one (for x.f = other)"""
    k = kind_of(v)
    if k is None:
        return 424242
    if k == "tuple":
        return (v[0], 424242)
    if k == "struct":
        return type(v)(a=424242, l=[2, 1])
    if k == "list":
        v.append(plain(v[0]))
    elif k == "deque":
        v.append(plain(v[0]))
    elif k == "dict":
        v["kz"] = plain(next(iter(v.values())))
    elif k == "set":
        v.add(424242)
    return v


def run_mutation(si, fi, d, apath, m, args, snap0, tw):
    y, _ = make(si, fi, d)
    try:
        h = reach(y, apath)
    except LookupError:
        return None, None
    raised = None
    try:
        call_mutator(h, m, args)
    except Exception as e:  # noqa
        raised = type(e).__name__
    s = snapshot(y, tw)
    if s != snap0:
        return 2, raised
    return (0 if raised else 1), raised


def is_bad_plain(obj):
    k = kind_of(obj)
    return not is_wrapper(obj) and (k in ("list", "dict", "set", "deque") or (k == "struct" and not is_imm_struct(obj)))


def key_for(d, objs, apath, m, si=True):
    """Call-site key of an observed change.  objs = [(internal path, object)] for every prefix of the access path
    (objs[0] is what the field read returned).  The key names the FIRST point at which the client got hold of
    something it should not have, else the unguarded entry point itself."""
    for n, (p, obj) in enumerate(objs):
        if is_wrapper(obj) and not obj._is_immutable():
            how = m if n == len(objs) - 1 else "via-" + apath[n][0]
            return ("C04/nested-wrapper-unbound/%s/%s" % (chain_of(d, p), how),
                    "the nested %s is bound to the temporary Structure used during validation, so its immutability "
                    "guard is off: %s through it changes the instance" % (type(obj).__name__, m))
        if is_bad_plain(obj):
            s = n
            while s > 0 and kind_of(objs[s - 1][1]) in ("tuple", "frozenset"):
                s -= 1
            first = objs[s][1]
            if s == 0:
                return ("C04/field-get-no-copy/%s/%s/%s" % ("ImmutableStructure" if si else "immutable-field",
                                                            chain_of(d, ()), tyname(first)),
                        "reading the field returns the stored %s itself (no defensive copy)" % tyname(first))
            parent = objs[s - 1][1]
            acc = apath[s - 1][0]
            pk = tyname(parent) if is_struct(parent) else kind_of(parent)
            if kind_of(first) in ("tuple", "frozenset") and _acc_shape(pk, acc) != "ANotOverridden":
                return ("C04/tuple-handed-out-raw/%s.%s" % (pk, acc),
                        "%s.%s hands out a stored tuple un-copied although it contains a mutable %s" % (
                            type(parent).__name__, acc, tyname(obj)))
            return ("C04/raw-accessor/%s.%s/%s" % (pk, acc, tyname(first)),
                    "%s.%s hands out the stored %s itself" % (type(parent).__name__, acc, tyname(first)))
    h = objs[-1][1]
    k = kind_of(h)
    if is_wrapper(h):
        shape = _shape_of(k, m)
        return ("C04/%s.%s/%s" % (k, m, shape),
                "%s.%s (%s) changes the stored value of an immutable in place" % (type(h).__name__, m, shape))
    if k == "struct":
        return ("C04/nested-ImmutableStructure/%s" % m, "%s on a nested ImmutableStructure changes it" % m)
    return ("C04/unclassified/%s.%s" % (k, m), "unexpected change")


_shapes = {}
_ashapes = {}


def _acc_shape(k, a):
    if not _ashapes:
        for kind, rows in tables()[0]["acc"].items():
            for name, sh, _ in rows:
                _ashapes[(kind, name)] = sh
    return _ashapes.get((k, a), "ANotOverridden")



def _shape_of(k, m):
    if not _shapes:
        for kind, rows in GEN0.tables().items():
            for name, s in rows:
                _shapes[(kind, name)] = s.strip("()").replace(" true", "").replace(" false", "-noguard")
    return _shapes.get((k, m), "?")


# ------------------------------------------------------------------ emission
def emit_obj(o):
    if o[0] == "a":
        return "(Atom 1)"
    kind = {"list": "KList", "dict": "KDict", "tuple": "KTuple", "set": "KSet"}[o[1]]
    return "(Box %s NoWrap %s)" % (kind, E.lst([emit_obj(c) for c in o[2]]))


def emit_decl(d):
    t = d[0]
    if t == "atom":
        return "DAtom"
    if t in CONTAINERS:
        return "(%s %s)" % ({"arr": "DArr", "deq": "DDeq", "map": "DMap", "tup": "DTup"}[t], emit_decl(d[1]))
    if t == "set":
        return "DSet"
    if t == "iset":
        return "DISet"
    if t == "raw":
        return "(DRaw %s)" % emit_obj(d[1])
    if t == "mapraw":
        return "(DMapRaw %s)" % emit_obj(d[1])
    if t in SEQRAW:
        return "(%s %s)" % ({"arrraw": "DArrRaw", "deqraw": "DDeqRaw", "arrpre": "DArrPre"}[t], emit_obj(d[1]))
    if t == "ref":
        return "(DRef %s)" % E.blit(d[1])
    raise ValueError(d)


def emit_path(p):
    return E.lst([str(i) for i in p])


class Names:
    def __init__(self):
        self.acc = []
        self.mut = []

    def a(self, n):
        if n not in self.acc:
            self.acc.append(n)
        return self.acc.index(n)

    def m(self, n):
        if n not in self.mut:
            self.mut.append(n)
        return self.mut.index(n)


def emit_case(c, names):
    si, fi, d = c["shape"]
    accs = []
    for ap, obs in c["acc"]:
        p = E.lst(["(%d,%d)" % (names.a(n), i) for n, i in ap])
        o = {"none": "ObsNone", "det": "ObsDetached"}.get(obs[0]) or "(ObsRef %s)" % emit_path(obs[1])
        accs.append("(%s,%s)" % (p, o))
    muts = []
    for ap, m, code in c["mut"]:
        p = E.lst(["(%d,%d)" % (names.a(n), i) for n, i in ap])
        muts.append("(%s,%d,%d)" % (p, names.m(m), code))
    ops = ["(%s,%d)" % (o, code) for o, code in c["ops"]]
    fi = fi or d[0] == "iset"       # ImmutableSet is an ImmutableField: the field itself is immutable
    return ("{| k_shape := (%s,%s,%s); k_acc := %s; k_mut := %s; k_ops := %s; k_ctor := %s |}" % (
        E.blit(si), E.blit(fi), emit_decl(d), E.lst(accs), E.lst(muts), E.lst(ops), E.blit(c["ctor"])))


HEADER = """From Coq Require Import ZArith NArith String List Bool. Import ListNotations.
From TP Require Import Check.C04chk.
Local Open Scope string_scope.
"""


# ------------------------------------------------------------------ the no-subclass stream
ROOTS = ["RStructure", "RFinal", "RImmutable", "RField", "RImmField", "RObject"]


def subclass_stream(rnd, n, rep):
    """Random class hierarchies built incrementally from typedpy's roots (and its own sealed classes);
    each attempted class statement is one case: (bases as trees, did the statement raise)."""
    import typedpy
    from typedpy import Structure, ImmutableStructure, Field
    from typedpy.structures import FinalStructure, ImmutableField
    pool = {"struct": [("Structure", Structure, "(Root RStructure)"), ("FinalStructure", FinalStructure, "(Root RFinal)"),
                       ("ImmutableStructure", ImmutableStructure, "(Root RImmutable)")],
            "field": [("Field", Field, "(Root RField)"), ("ImmutableField", ImmutableField, "(Root RImmField)"),
                      ("Integer", typedpy.Integer, "(User [Root RField])"),
                      ("ImmutableSet", typedpy.ImmutableSet, "(User [User [Root RField]; Root RImmField])"),
                      ("ImmutableArray", typedpy.ImmutableArray, "(User [Root RImmField; User [Root RField]])"),
                      ("ImmutableMap", typedpy.ImmutableMap, "(User [Root RImmField; User [Root RField]])")]}
    mixin = ("Mixin", type("Mixin", (), {}), "(Root RObject)")
    cases, findings = [], []
    sealed_roots = (FinalStructure, ImmutableStructure, ImmutableField)
    count = 0
    tries = 0
    while count < n and tries < n * 6:
        tries += 1
        side = rnd.choice(["struct", "struct", "field"])
        k = rnd.choice([1, 1, 1, 2, 2, 3])
        cand = pool[side] + ([mixin] if rnd.random() < 0.2 else [])
        # prefer recently created classes so that hierarchies get deep
        weights = [1 + 3 * (i >= len(cand) - 6) for i in range(len(cand))]
        bases = []
        for _ in range(k):
            b = rnd.choices(cand, weights)[0]
            if b not in bases:
                bases.append(b)
        # most-derived first keeps the MRO consistent more often
        bases.sort(key=lambda b: -len(b[1].__mro__))
        name = "U%d_%d" % (core.seed(), tries)
        try:
            cls = type(bases[0][1])(name, tuple(b[1] for b in bases), {}) if side == "field" else \
                _define_struct(name, [b[1] for b in bases])
            raised = False
        except TypeError as e:
            msg = str(e)
            if "MRO" in msg or "metaclass conflict" in msg or "consistent method resolution" in msg:
                continue
            if "Tried to extend" not in msg:
                rep.stat("subclass", "other-typeerror")
                continue
            raised = True
        except Exception:  # noqa
            rep.stat("subclass", "other-exception")
            continue
        count += 1
        tree = "(User %s)" % E.lst([b[2] for b in bases])
        cases.append((E.lst([b[2] for b in bases]), raised, [b[0] for b in bases]))
        must = any(issubclass(b[1], s) and b[1] is not s for b in bases for s in sealed_roots)
        rep.count("subclass", 1, (tuple(sorted(b[2] for b in bases)), raised))
        rep.stat("subclass", "raised" if raised else "defined")
        if must and not raised:
            findings.append(("C04/subclass-allowed/%s" % "+".join(sorted(
                s.__name__ for s in sealed_roots if any(issubclass(b[1], s) and b[1] is not s for b in bases))),
                "a class extending %s could be defined" % [b[0] for b in bases],
                {"kind": "subclass", "bases": [b[0] for b in bases], "base_trees": [b[2] for b in bases]}))
        if not raised:
            pool[side].append((name, cls, tree))
    return cases, findings


def _define_struct(name, bases):
    ns = {"bases": tuple(bases)}
    exec("class %s(*bases):\n    pass\n" % name, ns)
    return ns[name]


# ------------------------------------------------------------------ replay
def _parse_tree(t):
    """'(User [Root RImmutable; (User [...])])' -> nested ('root', name) / ('user', [..])"""
    t = t.strip()
    while t.startswith("(") and t.endswith(")") and _balanced(t[1:-1]):
        t = t[1:-1].strip()
    if t.startswith("Root "):
        return ("root", t[5:].strip())
    assert t.startswith("User "), t
    inner = t[5:].strip()[1:-1]
    parts, depth, cur = [], 0, ""
    for ch in inner:
        if ch in "([":
            depth += 1
        elif ch in ")]":
            depth -= 1
        if ch == ";" and depth == 0:
            parts.append(cur)
            cur = ""
        else:
            cur += ch
    if cur.strip():
        parts.append(cur)
    return ("user", [_parse_tree(p) for p in parts])


def _balanced(t):
    d = 0
    for ch in t:
        if ch in "([":
            d += 1
        elif ch in ")]":
            d -= 1
            if d < 0:
                return False
    return d == 0


def _build_tree(t, made):
    import typedpy
    from typedpy.structures import FinalStructure, ImmutableField
    roots = {"RStructure": typedpy.Structure, "RFinal": FinalStructure, "RImmutable": typedpy.ImmutableStructure,
             "RField": typedpy.Field, "RImmField": ImmutableField, "RObject": type("Mixin", (), {})}
    if t[0] == "root":
        return roots[t[1]]
    bases = tuple(_build_tree(b, made) for b in t[1])
    made[0] += 1
    ns = {"bases": bases}
    exec("class R%d(*bases):\n    pass\n" % made[0], ns)
    print("defined class R%d(%s)" % (made[0], ", ".join(b.__name__ for b in bases)))
    return ns["R%d" % made[0]]


def replay_subclass(obj):
    """rebuild the bases from their trees, then try the class statement"""
    made = [0]
    try:
        bases = tuple(_build_tree(_parse_tree(t), made) for t in obj["base_trees"])
    except TypeError as e:
        print("a base class can no longer be defined:", e)
        print("no clause of C04 fails on this input now")
        return 0
    try:
        ns = {"bases": bases}
        exec("class New(*bases):\n    pass\n", ns)
    except TypeError as e:
        print("class New(%s) raised TypeError: %s" % (", ".join(b.__name__ for b in bases), e))
        print("no clause of C04 fails on this input now")
        return 0
    print("FAILS    : class New(%s) was defined, although a base extends ImmutableStructure / FinalStructure / "
          "ImmutableField (required: TypeError)" % ", ".join(b.__name__ for b in bases))
    return 1


def replay(obj):
    kind = obj.get("kind")
    if kind == "subclass":
        return replay_subclass(obj)
    if kind == "opts" and not obj.get("broken"):
        from harness import c04opts
        return c04opts.replay(obj)
    if obj.get("broken"):
        print("no concrete failing input was found; what no longer checks:", obj.get("broken"))
        print(obj.get("detail", ""))
        return 1
    si, fi, d = obj["struct_immutable"], obj["field_immutable"], obj["decl"]
    print(obj["class_source"])
    x, arg = make(si, fi, d)
    twin, _ = make(si, fi, d)
    snap0 = snapshot(x, twin)
    print("instance :", x)
    if kind == "mutator":
        apath = tuple((a, i) for a, i in obj["apath"])
        h = reach(x, apath)
        m = obj["mutator"]
        args = effective_args(h, m)
        print("handle   : x.f" + "".join(" -> %s[child %d]" % (a, i) for a, i in apath), " runtime type", type(h).__name__)
        print("call     : %s%r" % (m, args))
        try:
            call_mutator(h, m, args)
            print("outcome  : returned")
        except Exception as e:  # noqa
            print("outcome  : raised", type(e).__name__, e)
    elif kind == "op":
        op = obj["op"]
        newval = deep_grow(value_of(d, Ctr()))
        try:
            if op == "setattr":
                x.f = newval
            elif op == "delattr":
                del x.f
            elif op == "delitem":
                del x["f"]
            elif op == "unpickle+setattr":
                x = pickle.loads(pickle.dumps(x))
                x.f = newval
            elif op == "copy.copy+setattr":
                x = copy.copy(x)
                x.f = newval
            elif op == "setattr-absent-field":
                x.g = 7
            elif op == "setattr-undeclared":
                x.zz_extra = 7
            elif op == "setattr-none":
                x.f = None
            elif op == "setattr-absent-none-then-value":
                x.g = None
                x.g = 7
            print("operation:", op, "returned")
        except Exception as e:  # noqa
            print("operation:", op, "raised", type(e).__name__, e)
    elif kind == "ctor":
        deep_mutate(arg, skip_immutable=True)
        print("mutated the constructor argument to", arg)
    elif kind == "detached":
        if obj.get("apath"):
            deep_mutate(reach(x, tuple((a, i) for a, i in obj["apath"])), skip_immutable=True)
    snap1 = snapshot(x, twin)
    print("instance :", x)
    if kind == "op" and ("g" in x.__dict__ or "zz_extra" in x.__dict__):
        print("FAILS    : the immutable instance gained an attribute:", sorted(k for k in x.__dict__ if k in ("g", "zz_extra")))
        return 1
    if snap1 != snap0:
        print("FAILS    : observable state changed (required: unchanged)")
        for a, b in zip(snap0, snap1):
            if a != b:
                print("   before:", a, "\n   after :", b)
        return 1
    print("observable state unchanged: no clause of C04 fails on this input now")
    return 0


# ------------------------------------------------------------------ run
def run(rep, tier):
    rnd = random.Random(core.seed() * 1000003 + 4)
    proofs_ok, model_ok = core.standard_proof_obligations(rep, "C04", ["theories/Check/C04chk.vo",
                                                                       "theories/Check/C04optchk.vo"])
    rep.assumptions += [
        "default configuration: defensive_copy_on_get on, no trusted instantiation, no direct __dict__/object.__setattr__ access",
        "model: one field per class; containers hold two items; an in-place mutator is abstracted as an arbitrary "
        "replacement of the container's contents (sound over-approximation of every list/dict/deque/set mutator)",
        "theorem hypotheses: world_safe (decidable, evaluated on every generated class shape in Coq) and op_ok / "
        "tables_guarded over the GENERATED tables",
        "two generated facts are read off the running library rather than its AST: nested_wrapper_bound, "
        "unpickle_keeps_instantiated",
    ]
    t = tables()
    deep = 3
    every = all_shapes(deep)
    shapes = []
    for d in every:
        for si, fi in ((True, False), (False, True)):
            if fi and d[0] == "ref":
                continue
            shapes.append((si, fi, d))
    if tier == "quick":
        small = [s for s in shapes if depth_of(s[2]) <= 1]
        two = [s for s in shapes if depth_of(s[2]) == 2]
        three = [s for s in shapes if depth_of(s[2]) == 3]
        rnd.shuffle(two)
        rnd.shuffle(three)
        shapes = small + two[:55] + three[:55]
    cases = []
    import time as _t
    _t0 = _t.time()
    for si, fi, d in shapes:
        try:
            c, findings = explore(si, fi, d, rep)
        except Exception as e:  # noqa
            import traceback
            rep.broken("explore/%s" % decl_name(d), traceback.format_exc(), {"decl": d, "struct_immutable": si})
            continue
        cases.append(c)
        n = len(c["acc"]) + len(c["mut"]) + len(c["ops"]) + 1
        rep.count("immutable-class-shapes", n, (si, fi, repr(d)) if depth_of(d) > 0 or d[0] != "atom" else None)
        rep.stat("immutable-class-shapes", "context:%s" % ("ImmutableStructure" if si else "immutable-field"))
        rep.stat("immutable-class-shapes", "nesting:%d" % depth_of(d))
        for _, obs in c["acc"]:
            rep.stat("accessors", "handle:" + ("detached" if obs[0] == "det" else "none" if obs[0] == "none" else "reference"))
        for key, what, replay_obj in findings:
            rep.finding(key, what, replay_obj)
    # the streams must not be vacuous: most accessor calls yield a handle, all three mutator outcomes occur
    adist = rep.cov["streams"].get("accessors", {}).get("dist", {})
    total_acc = sum(adist.values()) or 1
    if adist.get("handle:none", 0) * 5 > total_acc or not adist.get("handle:reference") or not adist.get("handle:detached"):
        rep.broken("coverage:accessors", "accessor stream inconclusive: %r" % adist)
    mdist = rep.cov["streams"].get("mutators", {}).get("dist", {})
    if not mdist.get("outcome:raise") or not mdist.get("outcome:no-change"):
        rep.broken("coverage:mutators", "mutator stream inconclusive: %r" % mdist)
    if cases:
        rep.sample({"class": class_src(*cases[len(cases) // 2]["shape"], "C"), "accessor_probes": len(cases[len(cases) // 2]["acc"]),
                    "mutator_probes": len(cases[len(cases) // 2]["mut"])})
    print("[C04] explored %d class shapes in %.1fs" % (len(cases), _t.time() - _t0), file=sys.stderr)
    _t0 = _t.time()
    sub_cases, sub_findings = subclass_stream(rnd, 120 if tier == "quick" else 600, rep)
    for key, what, replay_obj in sub_findings:
        rep.finding(key, what, dict(replay_obj, property="C04"))
    print("[C04] subclass stream %.1fs" % (_t.time() - _t0), file=sys.stderr)
    _t0 = _t.time()
    # instance-level operations over the class-option lattice (harness/c04opts.py)
    from harness import c04opts
    opt_findings, opt_probes = c04opts.run_stream(rep, rnd, tier)
    for key, what, replay_obj in opt_findings:
        rep.finding(key, what, replay_obj)
    odist = rep.cov["streams"].get("inst-ops", {}).get("dist", {})
    if not odist.get("outcome:raise") or not odist.get("options:eu1-ign0-apd") or not odist.get("options:eu1-ign1-apF"):
        rep.broken("coverage:inst-ops", "class-option stream inconclusive: %r" % odist)
    print("[C04] class-option stream %.1fs (%d setattr probes for Coq)" % (_t.time() - _t0, len(opt_probes)), file=sys.stderr)
    _t0 = _t.time()
    # ---------------------------------------------------------------- correspondence in Coq
    if model_ok:
        names = Names()
        per = 40
        bodies = [[emit_case(c, names) for c in cases[s:s + per]] for s in range(0, len(cases), per)]
        header = HEADER + "Definition anames : list pystr := %s.\nDefinition mnames : list pystr := %s.\n" % (
            E.lst([E.pstr(n) for n in names.acc]), E.lst([E.pstr(n) for n in names.mut]))
        shards = []
        for items in bodies:
            body = "Definition cases : list case := %s.\n" % E.lst(["\n " + i for i in items])
            body += "Eval vm_compute in (indices_where (mismatch anames mnames) cases 0).\n"
            body += "Eval vm_compute in (map (fun c => first_bad anames mnames c) (filter (mismatch anames mnames) cases)).\n"
            body += "Eval vm_compute in (length (filter shape_safe_today cases)).\n"
            shards.append(body)
        sub_body = "Definition subs : list sub_case := %s.\n" % E.lst(
            ["\n (%s, %s)" % (b, E.blit(r)) for b, r, _ in sub_cases])
        sub_body += "Eval vm_compute in (indices_where sub_mismatch subs 0).\n"
        shards.append(sub_body)
        res = core.eval_cases(shards, "c04", header)
        mism = []
        nsafe = 0
        bad_shard = None
        for si_, (rc, out, err) in enumerate(res[:-1]):
            vals = core.parse_eval(out)
            if rc != 0 or len(vals) != 3:
                bad_shard = (si_, (out + err)[-1500:])
                continue
            idx = core.parse_nat_list(vals[0])
            firsts = vals[1]
            mism += [(si_ * per + i, firsts) for i in idx]
            nsafe += core.parse_nat_list(vals[2])[0]
        rc, out, err = res[-1]
        vals = core.parse_eval(out)
        sub_mism = None
        if rc != 0 or len(vals) != 1:
            bad_shard = ("subclass", (out + err)[-1500:])
        else:
            sub_mism = core.parse_nat_list(vals[0])
        nprobes = sum(len(c["acc"]) + len(c["mut"]) + len(c["ops"]) + 1 for c in cases)
        rep.obligation("correspondence:handles", not mism and bad_shard is None,
                       f"{len(cases)} class shapes, {nprobes} probes, {len(mism)} shapes with a mismatch")
        rep.obligation("correspondence:no-subclass", sub_mism == [],
                       f"{len(sub_cases)} class statements, {len(sub_mism or [])} mismatches")
        rep.cov["streams"].setdefault("immutable-class-shapes", {})["theorem_hypotheses_hold(world_safe)"] = nsafe
        if bad_shard is not None:
            rep.broken("correspondence:coq-eval", f"case shard {bad_shard[0]} failed to evaluate: {bad_shard[1]}")
        if mism:
            i, firsts = mism[0]
            c = cases[i]
            rep.broken("correspondence:handles",
                       f"model (Struct/Handles.v with today's generated tables) and typedpy differ on {len(mism)} class "
                       f"shapes; first: {decl_name(c['shape'][2])} (ImmutableStructure={c['shape'][0]}); first bad probes "
                       f"(stream, index) per shape: {firsts[:300]}",
                       {"struct_immutable": c["shape"][0], "field_immutable": c["shape"][1], "decl": c["shape"][2],
                        "class_source": INNER_SRC + class_src(*c["shape"], "C"),
                        "acc": [[list(map(list, ap)), list(o)] for ap, o in c["acc"]][:400],
                        "mut": [[list(map(list, ap)), m, code] for ap, m, code in c["mut"]][:400], "ops": c["ops"],
                        "ctor": c["ctor"]})
        if sub_mism:
            b = sub_cases[sub_mism[0]]
            rep.broken("correspondence:no-subclass",
                       f"define_raises (model of _check_for_final_violations) and typedpy differ on {len(sub_mism)} class "
                       f"statements; first: bases {b[2]} raised={b[1]}", {"bases": b[2], "raised": b[1]})
        # the class-option probes against the generated effect list of Structure.__setattr__
        per = 400
        ores = core.eval_cases(c04opts.coq_shards(opt_probes, per), "c04opt", c04opts.OPT_HEADER)
        omism, declined, obad = [], 0, None
        for si_, (rc, out, err) in enumerate(ores):
            vals = core.parse_eval(out)
            if rc != 0 or len(vals) != 2:
                obad = (si_, (out + err)[-1500:])
                continue
            omism += [si_ * per + i for i in core.parse_nat_list(vals[0])]
            declined += core.parse_nat_list(vals[1])[0]
        rep.obligation("correspondence:setattr-options", not omism and obad is None and declined * 4 <= len(opt_probes),
                       f"{len(opt_probes)} setattr probes over the class-option lattice, {len(omism)} mismatches, "
                       f"{declined} outside the generated translation")
        rep.count("setattr-options-correspondence", len(opt_probes), None)
        if obad is not None:
            rep.broken("correspondence:coq-eval-options", f"probe shard {obad[0]} failed to evaluate: {obad[1]}")
        if omism:
            spec, op, role, exn, changed, has = opt_probes[omism[0]]
            rep.broken("correspondence:setattr-options",
                       f"the generated effect list of Structure.__setattr__ (Gen/StructNoneFields.v) executed on the model "
                       f"state and typedpy differ on {len(omism)} probes; first: {c04opts.describe(op)} "
                       f"({role}, holds a value: {has}) on options {c04opts.opt_tag(spec)} context {spec['ctx']}: "
                       f"observed {'raised ' + exn if exn else ('CHANGED' if changed else 'no change')}",
                       c04opts.replay_obj(spec, "ctor", [op]))
    print("[C04] coq evaluation %.1fs" % (_t.time() - _t0), file=sys.stderr)
    if not proofs_ok:
        from harness.props.c17 import broken_build
        broken_build(rep)
    return rep.finish(
        rule="class shapes = {ImmutableStructure, immutable field in a mutable Structure} x every declaration with <= 3 "
             "nested Array/Deque/Map/Tuple around a leaf (Integer, Set, ImmutableSet, Inner/IInner structure, Anything "
             "holding list/dict/tuple/set, untyped Map); quick tier: all with nesting <= 1 and a seeded sample of the "
             "deeper ones, thorough: all; per shape every introspected accessor of every internal object reached and "
             "every introspected mutator on it, plus setattr/delattr/delitem/unpickle/ctor-argument mutation; "
             "evaluations = probes; distinct = distinct class shapes (non-trivial = not a bare scalar field)",
        extra={"exhaustive": tier != "quick"})
