"""C02 — accept/reject decision, stored normal form and error class match the docs.

Proof obligations: Props/C02.v.  Tie: correspondence of the code-shaped model `vset`
(Fields/SetChain.v) with real construction `T(f=value)`, and evaluation of the documented rules
`docb` (Fields/Doc.v) on the implementation's observed behaviour — both inside Coq."""
import random

from harness import core
from harness import coqemit as E
from harness import fieldgen as G
from harness import structgen as S


def run_cases(cases, ctx):
    """cases: list of (field ast, reified value).  Returns observed outcomes."""
    out = []
    cache = {}
    for f, v in cases:
        key = repr(f)
        T = cache.get(key)
        if T is None:
            try:
                T = S.single_field_class(f, ctx)
            except Exception as ex:  # noqa  (declaration itself rejected)
                T = ("declaration-raises", E.exn_name(ex))
            cache[key] = T
        if isinstance(T, tuple):
            out.append(T)
            continue
        try:
            val = G.unreify(v, ctx.classes)
        except Exception as ex:  # noqa
            out.append(("unrealisable", repr(ex)))
            continue
        try:
            inst = T(f=val)
            got = getattr(inst, "f")
            out.append(("ok", E.reify(got, S.struct_attrs)))
        except Exception as ex:  # noqa
            out.append(("raise", E.exn_name(ex)))
    return out


HEADER = """From Coq Require Import ZArith NArith String List Bool. Import ListNotations.
From TP Require Import Check.Fieldchk.
Local Open Scope string_scope.
%s
"""


def emit_case(f, v, obs, tbl):
    return "{| fc_tbl := %s; fc_env := env0; fc_field := %s; fc_value := %s; fc_obs := %s |}" % (
        G.emit_table(tbl), G.emit_field(f), E.pval(v), E.outcome(obs))


def evaluate(cases, observed, ctx, tag="c02"):
    """Evaluates mismatch / spec failure / domain / acceptance of every case in Coq.
    Returns dict of index lists, or raises RuntimeError with the Coq output."""
    per = 300
    shards = []
    for s in range(0, len(cases), per):
        items = []
        for (f, v), o in zip(cases[s:s + per], observed[s:s + per]):
            items.append(emit_case(f, v, o, G.match_table([f], [v])))
        body = "Definition cases : list fcase := %s.\n" % E.lst(["\n " + i for i in items])
        for fn in ("fmismatch", "fspec_fail", "fin_domain", "funmodelled"):
            body += "Eval vm_compute in (indices_where %s cases 0).\n" % fn
        shards.append(body)
    res = core.eval_cases(shards, tag, HEADER % ctx.coq_env())
    out = {"mismatch": [], "spec_fail": [], "in_domain": [], "unmodelled": []}
    for si, (rc, so, se) in enumerate(res):
        vals = core.parse_eval(so)
        if rc != 0 or len(vals) != 4:
            raise RuntimeError("case shard %d failed to evaluate: %s" % (si, (so + se)[-1500:]))
        for name, v in zip(("mismatch", "spec_fail", "in_domain", "unmodelled"), vals):
            out[name] += [si * per + i for i in core.parse_nat_list(v)]
    return out


def subcases(f, v):
    """Structurally aligned (sub-declaration, sub-value) pairs, for localising a failure."""
    t = f["t"]
    out = []
    if t == "seqeach" and v[0] in ("list", "deque"):
        out += [(f["item"], x) for x in v[1]]
    elif t == "seqpos" and v[0] in ("list", "deque"):
        out += [(g, x) for g, x in zip(f["items"], v[1])]
    elif t == "tuple" and v[0] == "tuple":
        if len(f["items"]) == 1:
            out += [(f["items"][0], x) for x in v[1]]
        else:
            out += [(g, x) for g, x in zip(f["items"], v[1])]
    elif t == "set" and f.get("item") and v[0] == "set":
        out += [(f["item"], x) for x in v[2]]
    elif t == "mapkv" and v[0] == "dict":
        for k, x in v[1]:
            out += [(f["kf"], k), (f["vf"], x)]
    elif t in ("allof", "anyof", "oneof", "not"):
        out += [(g, v) for g in f["fs"]]
    return out


def localise(f, v, ctx, budget=40):
    """Smallest aligned sub-case that is itself a spec failure (one Coq round per level)."""
    cur = (f, v)
    for _ in range(4):
        subs = subcases(*cur)[:budget]
        if not subs:
            break
        obs = run_cases(subs, ctx)
        keep = [(c, o) for c, o in zip(subs, obs) if o[0] in ("ok", "raise")]
        if not keep:
            break
        try:
            r = evaluate([c for c, _ in keep], [o for _, o in keep], ctx, tag="c02loc")
        except RuntimeError:
            break
        if not r["spec_fail"]:
            break
        cur = keep[r["spec_fail"][0]][0]
    return cur


def _normalised_collision(f, v, ctx):
    """Is this a case where the collection-level constraint (uniqueItems; size bounds of Set/Map) holds for the
    supplied elements but not for the CONVERTED elements that get stored (or vice versa)?  Decided on the real
    library: convert every element with the item field alone and compare the number of distinct results."""
    t = f["t"]
    try:
        if t in ("seqeach", "seqpos", "tuple") and f.get("uniq") and v[0] in ("list", "deque", "tuple"):
            elems = list(v[1])
            if t == "seqeach":
                fs = [f["item"]] * len(elems)
            elif t == "tuple" and len(f["items"]) == 1:
                fs = [f["items"][0]] * len(elems)
            else:
                fs = list(f["items"]) + [None] * len(elems)
        elif t == "set" and f.get("item") and v[0] == "set":
            elems = list(v[2]); fs = [f["item"]] * len(elems)
        elif t == "mapkv" and v[0] == "dict":
            elems = [k for k, _ in v[1]]; fs = [f["kf"]] * len(elems)
        else:
            return False
        conv = []
        for g, x in zip(fs, elems):
            if g is None:
                conv.append(x); continue
            o = run_cases([(g, x)], ctx)[0]
            if o[0] != "ok":
                return False
            conv.append(o[1])
        def distinct(rs):
            out = []
            for r in rs:
                pv = G.unreify(r, ctx.classes)
                if not any(pv == q for q in out):
                    out.append(pv)
            return len(out)
        return distinct(conv) < distinct(elems)
    except Exception:  # noqa
        return False


def finding_key(f, v, obs, ctx=None):
    """Identifies the input shape of a spec failure: field kind + value kind + outcome kind."""
    if ctx is not None and _normalised_collision(f, v, ctx):
        return "C02/normalised-collision/%s/%s" % (f["t"] + (":imm" if f.get("imm") else ""), "accepted" if obs[0] == "ok" else obs[1])
    t = f["t"]
    if t == "num":
        t = "num:" + f["k"]
    return "C02/%s/%s/%s" % (t, v[0] if v[0] != "other" else "other:" + v[1], "accepted" if obs[0] == "ok" else obs[1])


def python_src(f, v, ctx):
    return (G.IMPORTS + ctx.source() + "\nclass T(Structure):\n    f = %s\n    _required = ['f']\n\n"
            "x = T(f=%s)\nprint(repr(x.f))\n" % (G.field_src(f), G.py_src(v)))


def replay(obj):
    if obj.get("stream") == "enum-mixin":
        from harness import c02ext
        return c02ext.replay_enum(obj)
    if obj.get("stream") == "classfield":
        from harness import c02ext
        return c02ext.replay_class(obj)
    ctx = S.Context(extra=[MEAS]) if obj.get("stream") == "unique-eq" else S.Context()
    f, v = obj["field"], obj["value"]
    obs = run_cases([(f, v)], ctx)[0]
    print("declaration:", G.field_src(f))
    print("value      :", G.py_src(v))
    print("observed   :", obs)
    try:
        r = evaluate([(f, v)], [obs], ctx, tag="c02replay")
        print("documented rules violated:" if r["spec_fail"] else "documented rules satisfied", r)
        return 1 if r["spec_fail"] else 0
    except RuntimeError as ex:
        print(ex)
        return 2


def gen_cases(rnd, n, ctx, max_depth):
    cases = []
    while len(cases) < n:
        f = G.gen_field(rnd, 0, classes=ctx.class_names(), max_depth=max_depth)
        k = rnd.randint(3, 8)
        for _ in range(k):
            r = rnd.random()
            try:
                v = G.gen_valid(rnd, f, ctx.instances)
                if r > 0.55:
                    v = G.corrupt(rnd, f, v, ctx.instances)
                if r > 0.88:
                    v = G.gen_any(rnd)
            except Exception:  # noqa  generator limitation
                v = G.gen_any(rnd)
            cases.append((f, v))
    return cases[:n]


def lattice_cases():
    """Deterministic boundary lattice of every scalar / size / uniqueness / positional guard that the
    generated layer (Gen/Guards.v) translates: each bound with the values bound-1, bound, bound+1 (and
    the sign boundaries around 0), so that an edited comparison is met by a concrete input whatever the seed."""
    out = []
    I = lambda z: ("int", z)
    F = lambda x: ("flt",) + E.float_me(x)
    num = lambda k, s="Any", mult=None, mn=None, mx=None, xmax=False: {
        "t": "num", "k": k, "s": s, "mult": mult, "min": mn, "max": mx, "xmax": xmax}
    for k in ("Number", "Integer", "Float"):
        vals = [I(z) for z in (-6, -5, -4, -1, 0, 1, 4, 5, 6, 10, 12)]
        if k != "Integer":
            vals += [F(x) for x in (-5.5, -5.0, -0.5, 0.0, 0.5, 4.5, 5.0, 5.5)]
        for f in (num(k, mn=I(5)), num(k, mx=I(5)), num(k, mx=I(5), xmax=True), num(k, mn=I(-5), mx=I(5)),
                  num(k, mult=5), num(k, mult=-5), num(k, mn=F(4.5)), num(k, mx=F(4.5), xmax=True)):
            out += [(f, v) for v in vals]
        if k != "Float":
            # beyond 2**53: exact integer arithmetic and float arithmetic part ways (multiplesOf by division)
            big = [I(z) for z in (2 ** 53 + 1, 2 ** 54 + 1, 2 ** 54 + 2, 10 ** 17 + 1, 10 ** 19 + 1, 10 ** 19 + 10,
                                  -(2 ** 54 + 1), 3 * 10 ** 25 + 1)]
            for m in (2, 5, 10):
                out += [(num(k, mult=m), v) for v in big]
        for sgn in ("Positive", "Negative", "NonPositive", "NonNegative"):
            out += [(num(k, sgn), v) for v in vals]
            out += [(num(k, sgn, mn=I(-5), mx=I(5)), v) for v in vals]
    strs = [("str", x) for x in ("", "a", "ab", "abc", "abcd", "abcde")]
    for f in ({"t": "str", "min": 3, "max": None, "pat": None}, {"t": "str", "min": None, "max": 3, "pat": None},
              {"t": "str", "min": 2, "max": 4, "pat": None}, {"t": "str", "min": None, "max": None, "pat": 0}):
        out += [(f, v) for v in strs + [I(3), ("none",)]]
    out += [({"t": "bool"}, v) for v in (("bool", True), ("str", "True"), ("str", "False"), ("str", "true"), I(1), I(0),
                                         F(1.0), ("none",), ("list", []))]
    item = num("Integer")
    lists = [("list", [I(i) for i in range(n)]) for n in range(0, 6)] + [("list", [I(1), I(1)]), ("list", [I(1), F(1.0)])]
    deqs = [("deque", x[1]) for x in lists]
    for kind, vals in (("list", lists), ("deque", deqs)):
        for sz in ([2, None], [None, 3], [2, 4]):
            for uniq in (False, True):
                out += [({"t": "seqany", "k": kind, "sz": sz, "uniq": uniq}, v) for v in vals]
                out += [({"t": "seqeach", "k": kind, "item": item, "sz": sz, "uniq": uniq}, v) for v in vals]
        for additional in (None, True, False):
            out += [({"t": "seqpos", "k": kind, "items": [item, item, item], "sz": [None, None], "uniq": False,
                      "additional": additional}, v) for v in vals]
    for cname, cls in sorted(G.ENUMS.items()):
        names = [m.name for m in cls]
        for members in (names, names[:1], names[1:], names[:-1]):
            f = {"t": "enumcls", "cls": cname, "members": members}
            out += [(f, v) for v in G.enum_neighbours(f)]
    tups = [("tuple", x[1]) for x in lists]
    out += [({"t": "tuple", "items": [item, item, item], "uniq": False}, v) for v in tups]
    out += [({"t": "tuple", "items": [item], "uniq": True}, v) for v in tups]
    sets = [("set", False, [I(i) for i in range(n)]) for n in range(0, 6)]
    for sz in ([2, None], [None, 3]):
        out += [({"t": "set", "imm": False, "item": item, "sz": sz}, v) for v in sets]
        out += [({"t": "mapany", "sz": sz}, ("dict", [(("str", "k%d" % i), I(i)) for i in range(n)])) for n in range(0, 6)]
    return out


# ------------------------------------------------------------------ uniqueItems: equality, never hash

MEAS = {"name": "Meas", "fields": [{"name": "x", "field": {"t": "num", "k": "Number", "s": "Any"}},
                                   {"name": "m", "field": {"t": "mapany", "sz": [None, None]}}],
        "required": [], "additional": False}


def unique_eq_cases():
    """Deterministic stream for uniqueItems (Array / Deque / Tuple): element pairs that are EQUAL under == but hash or
    print differently (Structure instances with equal content: a Number field holding 1 / 1.0, a Map field in another
    insertion order; 1 / 1.0 / True / Decimal(1); (1, 2) / (1.0, 2.0); frozenset / set), the same value twice, and the
    converse -- UNEQUAL elements with equal hash (-1 / -2, 0 / 2**61-1) -- at every position pattern, alone and next
    to a hashable / an unhashable third element (so that a hash-based and a scan-based path are both met).
    The documented rule (no two equal elements) is the model's py_unique: by ==, never by hash."""
    I = lambda z: ("int", z)
    F = lambda x: ("flt",) + E.float_me(x)
    st = lambda **kw: ("struct", "Meas", sorted(kw.items()))
    d12 = ("dict", [(("str", "a"), I(1)), (("str", "b"), I(2))])
    d21 = ("dict", [(("str", "b"), I(2)), (("str", "a"), I(1))])
    import decimal
    struct_pairs = [(st(x=I(1)), st(x=F(1.0))), (st(m=d12), st(m=d21)), (st(x=I(1)), st(x=I(1))),
                    (st(x=I(1), m=d12), st(x=F(1.0), m=d21)),
                    (st(x=I(1)), st(x=I(2))), (st(m=d12), st(m=("dict", [(("str", "a"), I(1))])))]
    plain_pairs = [(I(1), F(1.0)), (I(1), ("bool", True)), (F(1.0), E.reify(decimal.Decimal(1))), (I(0), ("bool", False)),
                   (("tuple", [I(1), I(2)]), ("tuple", [F(1.0), F(2.0)])), (("str", "a"), ("str", "a")),
                   (("set", True, [I(1)]), ("set", False, [I(1)])), (("list", [I(1)]), ("list", [F(1.0)])),
                   (I(-1), I(-2)), (I(0), I(2 ** 61 - 1)), (F(-1.0), I(-2)), (("str", "a"), ("str", "b"))]
    thirds = [None, ("str", "zz"), ("list", [I(9)])]
    ref = {"t": "ref", "cls": "Meas"}
    out = []

    def patterns(a, b, third_pool):
        for c in third_pool:
            if c is None:
                yield [a, b]
                yield [b, a]
            else:
                yield [c, a, b]
                yield [a, c, b]
                yield [b, a, c]
    for kind in ("list", "deque"):
        for a, b in struct_pairs + plain_pairs:
            for items in patterns(a, b, thirds):
                out.append(({"t": "seqany", "k": kind, "sz": [None, None], "uniq": True}, (kind, items)))
                out.append(({"t": "seqeach", "k": kind, "item": {"t": "any"}, "sz": [None, None], "uniq": True}, (kind, items)))
        for a, b in struct_pairs:
            for items in patterns(a, b, [None, st(x=I(7))]):
                out.append(({"t": "seqeach", "k": kind, "item": ref, "sz": [None, None], "uniq": True}, (kind, items)))
                out.append(({"t": "seqpos", "k": kind, "items": [ref], "sz": [None, None], "uniq": True, "additional": None},
                            (kind, items)))
    for a, b in struct_pairs + plain_pairs:
        for items in patterns(a, b, thirds):
            out.append(({"t": "tuple", "items": [{"t": "any"}], "uniq": True}, ("tuple", items)))
            if len(items) == 2:
                out.append(({"t": "tuple", "items": [{"t": "any"}, {"t": "any"}], "uniq": True}, ("tuple", items)))
    for a, b in struct_pairs:
        out.append(({"t": "tuple", "items": [ref], "uniq": True}, ("tuple", [a, b])))
        out.append(({"t": "tuple", "items": [ref, ref], "uniq": True}, ("tuple", [b, a])))
    num = {"t": "num", "k": "Number", "s": "Any"}
    for a, b in [(I(1), F(1.0)), (F(2.0), I(2)), (I(-1), I(-2)), (I(0), I(2 ** 61 - 1)), (I(3), I(3))]:
        for kind in ("list", "deque"):
            out.append(({"t": "seqeach", "k": kind, "item": num, "sz": [None, None], "uniq": True}, (kind, [a, b])))
            out.append(({"t": "seqeach", "k": kind, "item": num, "sz": [None, None], "uniq": True}, (kind, [I(5), b, a])))
        out.append(({"t": "tuple", "items": [num], "uniq": True}, ("tuple", [a, b])))
    return out


def run_unique_stream(rep, model_ok):
    ctx = S.Context(extra=[MEAS])
    ctx.instances["Meas"] = [("struct", "Meas", [("x", ("int", 1))])]
    cases = unique_eq_cases()
    observed = run_cases(cases, ctx)
    keep = [i for i, o in enumerate(observed) if o[0] in ("ok", "raise")]
    rep.cov["streams"]["unique-eq"] = {"evaluations": 0, "declarations_rejected_or_unrealisable": len(cases) - len(keep)}
    cases = [cases[i] for i in keep]
    observed = [observed[i] for i in keep]
    for (f, v), o in zip(cases, observed):
        kinds = sorted({x[0] for x in v[1]})
        rep.count("unique-eq", 1, (G.shape(f), v[0], tuple(kinds), len(v[1]), o[0] if o[0] == "ok" else o[1]))
        rep.stat("unique-eq", "kind:" + f["t"])
        rep.stat("unique-eq", "elements:" + "+".join(kinds))
        rep.stat("unique-eq", "outcome:" + (o[0] if o[0] == "ok" else o[1]))
    if not model_ok or not cases:
        return
    try:
        r = evaluate(cases, observed, ctx, tag="c02uniq")
    except RuntimeError as ex:
        rep.broken("correspondence:unique-eq/coq-eval", str(ex))
        return
    s = rep.cov["streams"]["unique-eq"]
    s["in_statement_domain"] = len(r["in_domain"])
    s["accepted"] = sum(1 for o in observed if o[0] == "ok")
    for i in r["spec_fail"]:
        f, v = cases[i]
        o = observed[i]
        kinds = "+".join(sorted({x[0] for x in v[1]}))
        rep.finding("C02/unique-eq/%s/%s/%s/%s" % (f["t"], v[0], kinds, "accepted" if o[0] == "ok" else o[1]),
                    "uniqueItems (no two equal elements) and implementation disagree: %s given %s -> %s" % (
                        G.field_src(f), G.py_src(v), o),
                    {"stream": "unique-eq", "field": f, "value": v, "observed": o, "python": python_src(f, v, ctx)})
    rep.obligation("spec-on-observed:unique-eq", not r["spec_fail"],
                   "%d in-domain cases, %d spec failures" % (len(r["in_domain"]), len(r["spec_fail"])))
    sf = set(r["spec_fail"])
    mism = [i for i in r["mismatch"] if i not in sf]
    rep.obligation("correspondence:unique-eq", not mism, "%d cases, %d mismatches (outside reported spec failures)" % (
        len(cases), len(mism)))
    if mism and not any(not v["no_input"] for v in rep.violations) and not rep.known_hits:
        f, v = cases[mism[0]]
        rep.broken("correspondence:unique-eq", "model and typedpy differ on %d cases of the uniqueItems stream" % len(mism),
                   {"stream": "unique-eq", "field": f, "value": v, "observed": observed[mism[0]], "python": python_src(f, v, ctx)})


def run(rep, tier, pid="C02", prop_file="C02"):
    rnd = random.Random(core.seed() * 1000003 + 2)
    n = 2400 if tier == "quick" else 30000
    max_depth = 2 if tier == "quick" else 3
    proofs_ok, model_ok = core.standard_proof_obligations(
        rep, prop_file, ["theories/Check/Fieldchk.vo"] + (["theories/Check/C02xchk.vo"] if pid == "C02" else []))
    ctx = S.Context()
    lat = lattice_cases()
    rep.cov["streams"]["lattice"] = {"evaluations": len(lat)}
    cases = [(c["field"], c["value"]) for c in core_corpus(pid)] + lat + gen_cases(rnd, n, ctx, max_depth)
    observed = run_cases(cases, ctx)
    keep = [i for i, o in enumerate(observed) if o[0] in ("ok", "raise")]
    dropped = len(cases) - len(keep)
    cases = [cases[i] for i in keep]
    observed = [observed[i] for i in keep]
    rep.cov["streams"]["field"] = {"evaluations": 0, "declarations_rejected_or_unrealisable": dropped}
    for (f, v), o in zip(cases, observed):
        rep.count("field", 1, (G.shape(f), v[0], o[0] if o[0] == "ok" else o[1]))
        rep.stat("field", "kind:" + f["t"])
        rep.stat("field", "outcome:" + (o[0] if o[0] == "ok" else o[1]))
    rep.sample({"declaration": G.field_src(cases[0][0]), "value": G.py_src(cases[0][1]), "observed": repr(observed[0])})
    rep.sample({"declaration": G.field_src(cases[-1][0]), "value": G.py_src(cases[-1][1]), "observed": repr(observed[-1])})
    if model_ok:
        try:
            r = evaluate(cases, observed, ctx)
        except RuntimeError as ex:
            rep.broken("correspondence:vset/coq-eval", str(ex))
            r = None
        if r is not None:
            s = rep.cov["streams"]["field"]
            s["in_statement_domain"] = len(r["in_domain"])
            s["outside_model_domain_skipped"] = len(r["unmodelled"])
            acc = sum(1 for o in observed if o[0] == "ok")
            s["accepted"] = acc
            if not (0.25 <= acc / max(1, len(cases)) <= 0.85):
                rep.broken("generator:accept-rate", "accept rate %.2f outside [0.25, 0.85]: inconclusive" % (acc / len(cases)))
            # spec failures on observed behaviour = concrete violations
            seen = set()
            for i in r["spec_fail"]:
                f, v = cases[i]
                if len(seen) < 12:
                    lf, lv = localise(f, v, ctx)
                else:
                    lf, lv = f, v
                lo = run_cases([(lf, lv)], ctx)[0]
                key = finding_key(lf, lv, lo, ctx)
                seen.add(key)
                rep.finding(key, "documented rules and implementation disagree: %s given %s -> %s" % (
                    G.field_src(lf), G.py_src(lv), lo),
                    {"field": lf, "value": lv, "observed": lo, "python": python_src(lf, lv, ctx),
                     "found_in": {"field": f, "value": v}})
            rep.obligation("spec-on-observed:docb", not r["spec_fail"],
                           "%d in-domain cases, %d spec failures" % (len(r["in_domain"]), len(r["spec_fail"])))
            # a case on which the documented rules already fail is reported above (violation or listed finding);
            # the model follows the documented rules there, so its disagreement on the same case is not a second fact
            sf = set(r["spec_fail"])
            r["mismatch"] = [i for i in r["mismatch"] if i not in sf]
            rep.obligation("correspondence:vset", not r["mismatch"],
                           "%d cases, %d mismatches (outside reported spec failures)" % (len(cases), len(r["mismatch"])))
            if r["mismatch"] and not any(not v["no_input"] for v in rep.violations) and not rep.known_hits:
                i = r["mismatch"][0]
                f, v = cases[i]
                rep.broken("correspondence:vset",
                           "model (Fields/SetChain.v) and typedpy differ on %d generated cases; the documented rules "
                           "hold on every explored input" % len(r["mismatch"]),
                           {"field": f, "value": v, "observed": observed[i], "python": python_src(f, v, ctx)})
    if pid == "C02":
        run_unique_stream(rep, model_ok)
        # Enum fields over mix-in enum classes; fields over arbitrary classes (history of declarations)
        from harness import c02ext
        c02ext.run_enum_stream(rep, tier, model_ok)
        c02ext.run_class_stream(rep, tier, model_ok)
    if not proofs_ok:
        from harness.props.c17 import broken_build
        broken_build(rep)
    rep.assumptions += [
        "re.match is an oracle (Section variable re_match), instantiated per case by a table filled from the real re module",
        "float(int) modelled exactly for |z| <= 2^53 (larger ints are outside the model: Unmodelled)",
        "statement domain: finite non-bool numbers; multiplesOf is a non-zero int as documented",
    ]
    return rep.finish(
        rule="cases = (declaration, value): declarations from a weighted grammar over the field vocabulary "
             "(nesting <= %d), values = valid-by-construction / one-point corruption / arbitrary; distinct = "
             "distinct (declaration shape, value kind, outcome); all are non-trivial (constrained or nested)" % max_depth)


def core_corpus(pid):
    from harness.props.c17 import core_corpus as cc
    return cc(pid)
