"""C10, fast clause over HISTORIES of a family of FastSerializable classes.

The installed serializer of a class is mutable per-class state (`cls.serialize`, `_created_fast_serializer`):
it is created explicitly (create_serializer(cls, compact, serialize_none)), implicitly by the first
instantiation (FastSerializable.__init__), implicitly for the classes a new serializer refers to
(_verify_is_fast_serializable) and it is *inherited* by subclasses until they get their own.  The property
quantifies over all class definitions and all valid instances, so the order in which these things happen
must not matter.  A case of this stream is

    family   : class ASTs of harness/c10gen.py plus "base" (single inheritance between fast classes),
               holders referring to earlier classes directly / through Array, Set, Optional
    schedule : define(X) | create(X, sn, compact) | inst(X, value tree[, trusted]) | ser(instance index)
               executed in order on the real typedpy; every instance is serialized at the end as well

and the clause judged on every serialization is the property's: x.serialize() (and Serializer(x).serialize())
returns the document Serializer(twin instance).serialize(compact) returns for the identically declared family
without the mix-in.  The same case goes to Coq (Check/C10hchk.v): the state machine of Ser/FastState.v is run
on the schedule and what it returns op by op is compared with what typedpy returned.
"""
import copy
import datetime
import itertools
import json
import random

from harness import coqemit as E
from harness import fieldgen as G
from harness import structgen as S
from harness import c10gen as T

POOL = T.FNAMES + ["user_name", "tag_list", "n2", "zz_top", "x_9", "is_ok"]


# ------------------------------------------------------------------ families

def simple_mapper(rnd, names, p, allow_special=True):
    if not names or rnd.random() > p:
        return None
    r = rnd.random()
    if allow_special and r < 0.35:
        return "camel"
    if allow_special and r < 0.55:
        return "upper"
    ks = rnd.sample(names, rnd.randint(1, min(2, len(names))))
    return {"dict": [[k, ["str", rnd.choice(["k%d", "renamed_%d", "Z%d"]) % i]] for i, k in enumerate(ks)]}


def clean_leaf(rnd, clean):
    while True:
        l = T.gen_leaf(rnd, 0.7)
        if clean and ((l["t"] == "ser" and l["kind"] == "decimal") or (l["t"] == "prim" and l["f"]["t"] == "none")
                      or (l["t"] == "enum" and l["byv"] and l["cls"] == "Color")):
            continue
        if l["t"] == "prim" and l["f"]["t"] == "none":
            continue
        return l


def gen_own_field(rnd, name, earlier, clean, want_ref=False):
    r = rnd.random()
    if earlier and (want_ref or r < 0.25):
        ref = {"t": "ref", "cls": rnd.choice(earlier)}
        k = rnd.random()
        ty = (ref if k < 0.5 else {"t": "array", "item": ref} if k < 0.72 else
              {"t": "opt", "nf": False, "f": ref} if k < 0.90 else {"t": "set", "item": ref})
    elif r < 0.70:
        ty = clean_leaf(rnd, clean)
    elif r < 0.82:
        ty = {"t": "array", "item": clean_leaf(rnd, True)}
    elif r < 0.88:
        it = clean_leaf(rnd, True)
        ty = {"t": "set", "item": it if it["t"] != "prim" or it["f"]["t"] != "num" or it["f"]["k"] != "Number" else
              {"t": "prim", "f": dict(T.INTF)}}
    elif r < 0.96 or clean:
        ty = {"t": "opt", "nf": False, "f": clean_leaf(rnd, True)}
    else:
        ty = {"t": "union", "ls": [{"t": "prim", "f": dict(T.INTF)}, {"t": "prim", "f": {"t": "str"}}]}   # create_serializer raises
    return {"name": name, "ty": ty, "default": None}


def all_names(c, famd):
    out = []
    while c is not None:
        out = [fd["name"] for fd in c["fields"]] + out
        c = famd.get(c.get("base"))
    return out


def chain_has_mapper(c, famd):
    while c is not None:
        if c.get("mapper") is not None:
            return True
        c = famd.get(c.get("base"))
    return False


def gen_family(rnd, fresh, clean=None):
    """definition order: every class refers to / extends earlier classes only"""
    if clean is None:
        clean = rnd.random() < 0.6
    fam, famd = [], {}

    def add(base, n_fields, want_ref, p_mapper):
        taken = all_names(famd[base], famd) if base else []
        free = [x for x in POOL if x not in taken]
        names = rnd.sample(free, min(n_fields, len(free)))
        earlier = [c["name"] for c in fam]
        fields = [gen_own_field(rnd, nm, earlier, clean, want_ref and i == 0) for i, nm in enumerate(names)]
        has_ref = any(uses_ref(fd["ty"]) for fd in fields) or (base and any_ref(famd[base], famd))
        c = {"name": fresh("Hf"), "base": base, "fields": fields, "fast": True, "default_ok": True}
        own = [fd["name"] for fd in fields]
        c["required"] = sorted(rnd.sample(own, rnd.randint(0, len(own)))) if rnd.random() < 0.55 else None
        c["additional"] = rnd.choice([None, None, True, False])
        c["ignore_none"] = rnd.random() < 0.15
        c["mapper"] = None
        if not (base and chain_has_mapper(famd[base], famd)):
            c["mapper"] = simple_mapper(rnd, own if not base else all_names(famd[base], famd) + own, p_mapper,
                                        allow_special=not (clean and has_ref))
        fam.append(c)
        famd[c["name"]] = c
        return c
    for _ in range(rnd.choice([1, 1, 2])):
        add(None, rnd.randint(1, 3), False, 0.3)
    for _ in range(rnd.choice([0, 1, 1, 2])):
        add(rnd.choice([c["name"] for c in fam]), rnd.choice([0, 1, 1, 2, 2]), rnd.random() < 0.15, 0.4)
    for _ in range(rnd.choice([1, 1, 2])):
        base = rnd.choice([c["name"] for c in fam]) if rnd.random() < 0.2 else None
        add(base, rnd.randint(1, 3), True, 0.25)
    return fam


def uses_ref(ty):
    t = ty["t"]
    if t == "ref":
        return True
    if t in ("array", "set"):
        return uses_ref(ty["item"])
    if t == "opt":
        return uses_ref(ty["f"])
    return False


def any_ref(c, famd):
    while c is not None:
        if any(uses_ref(fd["ty"]) for fd in c["fields"]):
            return True
        c = famd.get(c.get("base"))
    return False


def flatten(c, famd):
    """The class as typedpy sees it: all fields (base first), effective _required, the single mapper of the chain."""
    base = famd.get(c.get("base"))
    own = [fd["name"] for fd in c["fields"]]
    own_req = own if c.get("required") is None else list(c["required"])
    if base is None:
        out = dict(c)
        out["required"] = own_req
        out["all_required_default"] = c.get("required") is None
        return out
    fb = flatten(base, famd)
    out = dict(c)
    out["fields"] = fb["fields"] + c["fields"]
    out["required"] = own_req + [r for r in fb["required"] if r not in own_req]
    out["mapper"] = c.get("mapper") if c.get("mapper") is not None else fb.get("mapper")
    # _additional_properties / _ignore_none are read with getattr (inherited) by validation, but
    # serialize_internal reads the class's own __dict__ for the compact form
    out["additional"] = c.get("additional") if c.get("additional") is not None else fb.get("additional")
    out["additional_own"] = c.get("additional")
    out["ignore_none"] = c.get("ignore_none") or fb.get("ignore_none")
    return out


def flat_env(fam):
    famd = {c["name"]: c for c in fam}
    return [flatten(c, famd) for c in fam]


def descendants(fam, name):
    out, todo = [], [name]
    while todo:
        n = todo.pop()
        for c in fam:
            if c.get("base") == n:
                out.append(c["name"])
                todo.append(c["name"])
    return out


def is_subclass(famd, sub, sup):
    c = famd.get(sub)
    while c is not None:
        if c["name"] == sup:
            return True
        c = famd.get(c.get("base"))
    return False


def class_src(c, suffix, fast):
    """own declaration of one class of the family"""
    if c.get("base"):
        bases = c["base"] + suffix
    else:
        bases = "Structure" + (", FastSerializable" if fast else "")
    lines = ["class %s%s(%s):" % (c["name"], suffix, bases)]
    for fd in c["fields"]:
        lines.append("    %s = %s" % (fd["name"], T.tf_src(fd["ty"], suffix)))
    if c.get("required") is not None:
        lines.append("    _required = %r" % list(c["required"]))
    if c.get("additional") is not None:
        lines.append("    _additional_properties = %r" % c["additional"])
    if c.get("ignore_none"):
        lines.append("    _ignore_none = True")
    if c.get("mapper") is not None:
        lines.append("    _serialization_mapper = %s" % T.mapper_src(c["mapper"]))
    if len(lines) == 1:
        lines.append("    pass")
    return "\n".join(lines) + "\n"


# ------------------------------------------------------------------ value trees (JSON-able, reified)

def leaf_desc(rnd, tf):
    from harness.props.c10 import leaf_value
    return E.reify(leaf_value(rnd, tf))


def gen_value(rnd, ty, fam, envd, p_poly, depth=0):
    t = ty["t"]
    if t in T.LEAVES:
        return leaf_desc(rnd, ty)
    if t == "array":
        return ("list", [gen_value(rnd, ty["item"], fam, envd, p_poly, depth + 1) for _ in range(rnd.choice([0, 1, 2]))])
    if t == "set":
        return ("set", False, [gen_value(rnd, ty["item"], fam, envd, p_poly, depth + 1) for _ in range(rnd.choice([0, 1, 1]))])
    if t == "ref":
        cn = ty["cls"]
        subs = descendants(fam, cn)
        if subs and depth < 3 and rnd.random() < p_poly:     # (a subclass may refer back to its base class: bounded)
            cn = rnd.choice(subs)
        return gen_inst(rnd, cn, fam, envd, p_poly, depth + 1)
    if t == "opt":
        return gen_value(rnd, ty["f"], fam, envd, p_poly, depth)
    if t == "union":
        return leaf_desc(rnd, rnd.choice(ty["ls"]))
    raise ValueError(ty)


def gen_inst(rnd, cname, fam, envd, p_poly=0.25, depth=0):
    c = envd[cname]
    kw = []
    for fd in c["fields"]:
        if fd["name"] in c["required"] or rnd.random() < 0.6:
            v = gen_value(rnd, fd["ty"], fam, envd, p_poly, depth)
            if v != ("none",):
                kw.append((fd["name"], v))
    return ("struct", cname, kw)


def materialize(d, ns, suffix, trusted_top=False):
    t = d[0]
    if t == "struct":
        kw = {k: materialize(v, ns, suffix) for k, v in d[2]}
        cls = ns[d[1] + suffix]
        return cls.from_trusted_data(None, **kw) if trusted_top else cls(**kw)
    if t == "list":
        return [materialize(x, ns, suffix) for x in d[1]]
    if t == "set":
        return set(materialize(x, ns, suffix) for x in d[2])
    if t == "other":
        if d[1] == "date":
            return datetime.date.fromisoformat(d[2])
        if d[1] == "datetime":
            return datetime.datetime.fromisoformat(d[2])
    return G.unreify(d)


def tuplify(d):
    """value tree read back from a replay JSON"""
    if isinstance(d, list):
        d = tuple(d)
    if isinstance(d, tuple):
        t = d[0]
        if t == "struct":
            return ("struct", d[1], [(k, tuplify(v)) for k, v in d[2]])
        if t == "list":
            return ("list", [tuplify(x) for x in d[1]])
        if t == "set":
            return ("set", d[1], [tuplify(x) for x in d[2]])
        if t == "enum":
            return ("enum", d[1], d[2], tuplify(d[3]))
        return tuple(d)
    return d


def structs_postorder(d, acc):
    """classes instantiated while the value tree is built, in construction order"""
    t = d[0]
    if t == "struct":
        for _, v in d[2]:
            structs_postorder(v, acc)
        acc.append(d[1])
    elif t == "list":
        for x in d[1]:
            structs_postorder(x, acc)
    elif t == "set":
        for x in d[2]:
            structs_postorder(x, acc)
    return acc


def desc_src(d, suffix):
    t = d[0]
    if t == "struct":
        return "%s%s(%s)" % (d[1], suffix, ", ".join("%s=%s" % (k, desc_src(v, suffix)) for k, v in d[2]))
    if t == "list":
        return "[" + ", ".join(desc_src(x, suffix) for x in d[1]) + "]"
    if t == "set":
        return "{" + ", ".join(desc_src(x, suffix) for x in d[2]) + "}" if d[2] else "set()"
    if t == "other" and d[1] == "date":
        return "datetime.date.fromisoformat(%r)" % d[2]
    if t == "other" and d[1] == "datetime":
        return "datetime.datetime.fromisoformat(%r)" % d[2]
    return G.py_src(d)


# ------------------------------------------------------------------ schedules

def deps_of(c):
    out = [c["base"]] if c.get("base") else []

    def go(ty):
        t = ty["t"]
        if t == "ref":
            out.append(ty["cls"])
        elif t in ("array", "set"):
            go(ty["item"])
        elif t == "opt":
            go(ty["f"])
    for fd in c["fields"]:
        go(fd["ty"])
    return out


def gen_schedule(rnd, fam, envd):
    names = [c["name"] for c in fam]
    holders = [c["name"] for c in fam if any(uses_ref(fd["ty"]) for fd in envd[c["name"]]["fields"])] or names
    ops = []
    n_inst = 0
    for _ in range(rnd.choice([0, 1, 2, 2, 3, 4])):
        r = rnd.random()
        x = rnd.choice(names)
        if r < 0.45:
            ops.append(["create", x, rnd.random() < 0.15, rnd.random() < 0.12])
        elif r < 0.75:
            ops.append(["inst", x, gen_inst(rnd, x, fam, envd), rnd.random() < 0.08])
            n_inst += 1
            if rnd.random() < 0.4:
                ops.append(["ser", n_inst - 1])
        else:
            ops.append(["define", x])
    targets = [rnd.choice(holders)] + [x for x in names if rnd.random() < 0.3]
    rnd.shuffle(targets)
    for x in targets:
        ops.append(["inst", x, gen_inst(rnd, x, fam, envd), rnd.random() < 0.06])
        n_inst += 1
    return ops


# ------------------------------------------------------------------ running a history on the real typedpy

def outcome_of(fn, strip=None):
    from harness.props.c10 import outcome_of as oo
    return oo(fn, strip=strip)


class Hist:
    """Executes a schedule.  self.events: per op the observed outcome; self.obs: per serialization the
    observed documents."""

    def __init__(self, fam):
        self.fam = fam
        self.famd = {c["name"]: c for c in fam}
        self.env = flat_env(fam)
        self.envd = {c["name"]: c for c in self.env}
        self.nsf, self.nsr = {}, {}
        exec(T.IMPORTS, self.nsf)
        exec(T.IMPORTS, self.nsr)
        for c in fam:                                   # the twins have no state: all defined up front
            exec(class_src(c, "_R", False), self.nsr)
        self.defined = []
        self.conf = {}                                  # class -> (sn, compact) of the last explicit create that succeeded
        self.instances = []                             # (desc, fast instance | None, twin | None)
        self.events = []
        self.obs = []
        self.inst_event = {}
        self.n_ops = 0
        self.trace = []        # what goes to Coq: ("create", n, sn, compact, outcome) | ("inst", trusted, desc, outcome)
        #                        | ("ser", instance, outcome) | ("via", compact, instance, outcome)
        self.regs = []         # (compact, class, twin instance, outcome of Serializer(twin).serialize(compact))
        self.values = []       # python sub-values for the oracle tables

    def define(self, name):
        if name in self.defined:
            return
        for d in deps_of(self.famd[name]):
            self.define(d)
        exec(class_src(self.famd[name], "_F", True), self.nsf)
        self.defined.append(name)

    def define_for(self, d):
        for n in structs_postorder(d, []):
            self.define(n)

    def run_op(self, op):
        from typedpy import create_serializer
        kind = op[0]
        if kind == "define":
            self.define(op[1])
            self.events.append(("ok", ("none",)))
        elif kind == "create":
            self.define(op[1])
            cls = self.nsf[op[1] + "_F"]
            o, _ = outcome_of(lambda: create_serializer(cls, compact=op[3], serialize_none=op[2]))
            if o[0] == "ok":
                self.conf[op[1]] = (op[2], op[3])
                o = ("ok", ("none",))
            self.events.append(o)
            self.trace.append(("create", op[1], bool(op[2]), bool(op[3]), o))
        elif kind == "inst":
            desc = tuplify(op[2])
            trusted = bool(op[3]) if len(op) > 3 else False
            self.define_for(desc)
            try:
                twin = materialize(desc, self.nsr, "_R")
            except Exception as ex:  # noqa  the generated value tree is not valid for the plain family: not a case
                self.instances.append((desc, None, None))
                self.events.append(("skip",))
                self.n_ops += 1
                return
            try:
                x = materialize(desc, self.nsf, "_F", trusted_top=trusted)
                self.events.append(("ok", ("none",)))
            except Exception as ex:  # noqa
                x = None
                self.events.append(("raise", E.exn_name(ex)))
                # (the property speaks about classes for which create_serializer succeeds: an instantiation that
                # raises because the implicit create_serializer raises is outside it; whether it raises exactly
                # when the model's create fails is part of the correspondence)
            self.inst_event[len(self.instances)] = self.events[-1]
            self.instances.append((desc, x, twin))
            self.trace.append(("inst", trusted, desc, self.events[-1][:2]))
            T.subvalues(twin, self.values)
        elif kind == "ser":
            self.serialize(op[1])
            self.events.append(("ok", ("none",)))
        self.n_ops += 1

    def serialize(self, idx):
        from typedpy import Serializer
        if idx >= len(self.instances):
            return
        desc, x, twin = self.instances[idx]
        if twin is None:
            return
        cname = desc[1]
        sn, compact = self.conf.get(cname, (False, False))
        reg_o, reg_v = outcome_of(lambda: Serializer(twin).serialize(compact=compact), strip="_R")
        if x is None:
            return
        inst_f = rename(E.reify(x, S.struct_attrs), "_F")
        fast_o, fast_v = outcome_of(lambda: x.serialize(), strip="_F")
        via_o, via_v = outcome_of(lambda: Serializer(x).serialize(compact=compact), strip="_F")
        self.trace.append(("ser", inst_f, fast_o))
        self.trace.append(("via", compact, inst_f, via_o))
        self.regs.append((compact, cname, rename(E.reify(twin, S.struct_attrs), "_R"), reg_o))
        o = {"idx": idx, "cls": cname, "at": self.n_ops, "compact": compact, "sn": sn, "reg": reg_o, "fast": fast_o,
             "via": via_o, "clause": None, "conf": dict(self.conf),      # the flags in force at this moment
             "inst": rename(E.reify(twin, S.struct_attrs), "_R")}
        if reg_o[0] == "ok":
            o["clause"] = self.judge(desc, fast_o, fast_v, reg_v, "") or self.judge(desc, via_o, via_v, reg_v, "Serializer:")
        o["docs"] = (repr(fast_v) if fast_o[0] == "ok" else repr(fast_o), repr(via_v) if via_o[0] == "ok" else repr(via_o),
                     repr(reg_v) if reg_o[0] == "ok" else repr(reg_o))
        self.obs.append(o)

    def judge(self, desc, o, v, reg_v, prefix):
        from harness.props.c10 import jsonable
        if o[0] != "ok":
            return prefix + "raises:" + o[1]
        bad = []
        nv = self.norm(v, desc, bad, True)
        if bad:
            return prefix + "serialize-none-keys"
        if not (nv == reg_v):
            return prefix + "document-differs"
        if jsonable(reg_v) and not jsonable(nv):
            return prefix + "not-json"
        return None

    def norm(self, doc, desc, bad, top=False):
        """serialize_none=True of a class means: its documents carry every field key, None where the regular
        document has no entry.  Remove those entries (checking the key set) so that documents compare.  A structure
        is serialized by the serializer of ITS OWN class (desc: the value tree the instance was built from), whatever
        class the field that holds it was declared with."""
        cname = desc[1]
        c = self.envd[cname]
        sn, compact = self.conf.get(cname, (False, False))
        if not isinstance(doc, dict):
            return doc
        out = dict(doc)
        keys = {T.own_key(c.get("mapper"), fd["name"]): fd for fd in c["fields"]}
        vals = dict(desc[2])
        if sn:
            if not (compact and len(c["fields"]) == 1) and not set(keys) <= set(out):
                bad.append(cname)
            out = {k: v for k, v in out.items() if not (v is None and k in keys)}

        def nv(ty, v, d):
            t = ty["t"]
            if d is None:
                return v
            if t == "opt":
                return nv(ty["f"], v, d)
            if t == "ref" and d[0] == "struct":
                return self.norm(v, d, bad)
            if t in ("array", "set") and isinstance(v, list):
                ds = d[1] if d[0] == "list" else d[2] if d[0] == "set" else None
                if ds is not None and len(ds) == len(v):      # (a generated set holds one element at most)
                    return [nv(ty["item"], x, dx) for x, dx in zip(v, ds)]
            return v
        for k, fd in keys.items():
            if k in out:
                out[k] = nv(fd["ty"], out[k], vals.get(fd["name"]))
        return out

    def run(self, ops):
        for op in ops:
            self.run_op(op)
        for i in range(len(self.instances)):
            self.serialize(i)
        return self


def rename(r, suffix):
    from harness.props.c10 import rename_structs
    return rename_structs(r, suffix)


# ------------------------------------------------------------------ naming what a failing case contains

def hist_tags(h, ops, ob):
    """features of (family, schedule, instance) outside the fragment the theorems cover"""
    tags = set()
    fam, famd, envd = h.fam, h.famd, h.envd
    desc = h.instances[ob["idx"]][0]
    trusted = False
    k = -1
    for op in ops:
        if op[0] == "inst":
            k += 1
            if k == ob["idx"]:
                trusted = bool(op[3]) if len(op) > 3 else False
    if trusted:
        tags.add("trusted-instance")
        if not desc[2]:
            tags.add("trusted-empty-instance")

    def walk(d, declared, nested):
        # a structure is serialized by the serializer of ITS OWN class (fields, mapper, flags), whatever class the field
        # that holds it was declared with
        dc = envd[d[1]]
        if d[1] != declared:
            tags.add("subclass-instance-in-base-field")
        sn, compact = ob.get("conf", h.conf).get(d[1], (False, False))
        if compact and len(dc["fields"]) == 1:
            if nested:
                tags.add("nested-compact")
            else:
                own_add = dc.get("additional_own", dc.get("additional")) if dc.get("base") else dc.get("additional")
                if not (own_add is False and dc["required"] == [dc["fields"][0]["name"]]):
                    tags.add("compact-conditions")
        vals = dict(d[2])
        for fd in dc["fields"]:
            ty = fd["ty"]
            direct = True
            via_opt = False
            while ty["t"] in ("array", "set", "opt"):
                if ty["t"] == "opt":
                    via_opt = True
                    ty = ty["f"]
                else:
                    ty = ty["item"]
                direct = False
            if ty["t"] == "ser" and ty["kind"] == "decimal" and fd["name"] in vals:
                tags.add("decimal-raw")
            if ty["t"] == "union":
                tags.add("multi-union")
            if ty["t"] == "ref":
                if dc.get("mapper") in ("camel", "upper") and not via_opt:
                    tags.add("mapper-inherited-by-nested")
                v = vals.get(fd["name"])
                if v is not None:
                    for sd in sub_structs(v):
                        walk(sd, ty["cls"], True)
    walk(desc, desc[1], False)
    if stale_collection_fields(h, structs_postorder(desc, []) + [desc[1]]):
        tags.add("stale-collection-serializer")
    return tags


def stale_collection_fields(h, classes):
    """Array.serialize / Set.serialize keep the function `items._ty.serialize` they saw at their FIRST call in
    a per-field cache (field._serialize).  Returns the Array/Set-of-class fields of the given classes (and of
    the classes they refer to) whose cached function is no longer the class's current serializer."""
    from typedpy.structures import Field
    out, seen, todo = [], set(), list(classes)
    while todo:
        n = todo.pop()
        if n in seen or n not in h.defined:
            continue
        seen.add(n)
        cls = h.nsf[n + "_F"]
        for fd in h.envd[n]["fields"]:
            ty = fd["ty"]
            fobj = cls.get_all_fields_by_name().get(fd["name"])
            if ty["t"] == "opt":
                ty = ty["f"]
                fobj = getattr(fobj, "_not_nonefield", None)
            if ty["t"] == "ref":
                todo.append(ty["cls"])
                todo += descendants(h.fam, ty["cls"])
            if ty["t"] in ("array", "set") and ty["item"]["t"] == "ref":
                d = ty["item"]["cls"]
                todo.append(d)
                todo += descendants(h.fam, d)
                cached = getattr(fobj, "_serialize", None)
                if cached is not None and d in h.defined:
                    cells = [c.cell_contents for c in (cached.__closure__ or ())]
                    frozen = [c for c in cells if callable(c) and not isinstance(c, type) and not hasattr(c, "items")
                              and not isinstance(getattr(c, "__self__", None), Field)]
                    # (no frozen function in the closure - the bound serialize method of the item FIELD looks the class's
                    # serializer up at every call -: the implementation does not cache one, nothing is stale)
                    if frozen and h.nsf[d + "_F"].serialize not in frozen:
                        out.append((n, fd["name"]))
    return out


def sub_structs(v):
    t = v[0]
    if t == "struct":
        return [v]
    if t == "list":
        return [s for x in v[1] for s in sub_structs(x)]
    if t == "set":
        return [s for x in v[2] for s in sub_structs(x)]
    return []


EXPLAINS = {   # clause kind -> tags that are known to produce it
    "not-json": ["decimal-raw"],
    # (the features that are open design limits of the fast serializer come first: a history that shows one of them AND
    # a subclass instance / an early serialization is explained by the former on a tree where the latter are repaired)
    "document-differs": ["compact-conditions", "nested-compact", "mapper-inherited-by-nested",
                         "stale-collection-serializer", "subclass-instance-in-base-field", "trusted-empty-instance"],
    "serialize-none-keys": ["compact-conditions", "nested-compact", "stale-collection-serializer",
                            "subclass-instance-in-base-field"],
    "raises": ["stale-collection-serializer", "trusted-empty-instance", "subclass-instance-in-base-field"],
}

SAME_KEY_AS_STATIC_STREAM = ("compact-conditions", "decimal-raw", "mapper-inherited-by-nested")


def finding_key(tags, clause):
    base = clause[len("Serializer:"):] if clause.startswith("Serializer:") else clause
    kind = base.split(":")[0]
    for t in EXPLAINS.get(kind, []):
        if t in tags:
            if t in SAME_KEY_AS_STATIC_STREAM:
                return "C10/fast/%s/%s" % (t, base)
            return "C10/fast-history/%s/%s" % (t, clause)
    return "C10/fast-history/%s/%s" % ("+".join(sorted(tags)) or "safe-fragment", clause)


# ------------------------------------------------------------------ a runnable script for the replay file

def hist_python(fam, ops):
    lines = [T.IMPORTS.rstrip(), "import datetime", "from typedpy import create_serializer, Serializer", ""]
    famd = {c["name"]: c for c in fam}
    for c in fam:
        lines.append(class_src(c, "_R", False))
    defined = []

    def define(n):
        if n in defined:
            return
        for d in deps_of(famd[n]):
            define(d)
        lines.append(class_src(famd[n], "_F", True))
        defined.append(n)
    k = 0
    for op in ops:
        if op[0] == "define":
            define(op[1])
        elif op[0] == "create":
            define(op[1])
            lines.append("create_serializer(%s_F, compact=%r, serialize_none=%r)" % (op[1], op[3], op[2]))
        elif op[0] == "inst":
            d = tuplify(op[2])
            for n in structs_postorder(d, []):
                define(n)
            src = desc_src(d, "_F")
            if len(op) > 3 and op[3]:
                src = "%s_F.from_trusted_data(None, %s" % (d[1], src[len(d[1]) + 3:])
            lines.append("x%d = %s" % (k, src))
            lines.append("t%d = %s" % (k, desc_src(d, "_R")))
            k += 1
        elif op[0] == "ser":
            lines.append("print(x%d.serialize(), Serializer(t%d).serialize())" % (op[1], op[1]))
    for i in range(k):
        lines.append("print(x%d.serialize(), Serializer(x%d).serialize(), Serializer(t%d).serialize())  # compact as created" % (i, i, i))
    return "\n".join(lines) + "\n"


# ------------------------------------------------------------------ the deterministic lattice

def lattice_shapes(fresh):
    """Parent / Child(Parent) / Holder(field e: Child or Parent, directly or through Array/Optional/Set) x every
    ordering of every subset (up to max_len) of
        {create(P), create(C), create(H), inst(P), inst(C), inst+serialize(H without a value for e),
         inst+serialize(H with the value), create(C, serialize_none=True)}
    before the holder is instantiated with a Child/Parent value and everything is serialized.
    Returns per shape (family, pool of op groups, final op)."""
    intf = {"t": "prim", "f": dict(T.INTF)}
    strf = {"t": "prim", "f": {"t": "str"}}
    out = []
    for kind, target, mapper_on in itertools.product(["ref", "array", "opt", "set"], ["child", "parent"],
                                                      ["none", "child"]):
        p = {"name": fresh("Lp"), "base": None, "fields": [{"name": "a", "ty": intf, "default": None}], "fast": True,
             "required": None, "additional": None, "ignore_none": False, "mapper": None}
        c = {"name": fresh("Lc"), "base": p["name"], "fast": True, "required": ["user_name"], "additional": None,
             "ignore_none": False, "mapper": "camel" if mapper_on == "child" else None,
             "fields": [{"name": "user_name", "ty": strf, "default": None}, {"name": "x_9", "ty": intf, "default": None}]}
        ref = {"t": "ref", "cls": c["name"] if target == "child" else p["name"]}
        ty = {"ref": ref, "array": {"t": "array", "item": ref}, "opt": {"t": "opt", "nf": False, "f": ref},
              "set": {"t": "set", "item": ref}}[kind]
        hcls = {"name": fresh("Lh"), "base": None, "fast": True, "required": ["n2"], "additional": None,
                "ignore_none": False, "mapper": None,
                "fields": [{"name": "n2", "ty": intf, "default": None}, {"name": "e", "ty": ty, "default": None}]}
        fam = [p, c, hcls]
        cd = ("struct", c["name"], [("a", ("int", 2)), ("user_name", ("str", "joe"))])
        pd = ("struct", p["name"], [("a", ("int", 1))])
        val_d = cd if target == "child" else pd
        val = {"ref": val_d, "array": ("list", [val_d]), "opt": val_d, "set": ("set", False, [val_d])}[kind]
        hd = ("struct", hcls["name"], [("n2", ("int", 7)), ("e", val)])
        empty = {"ref": [], "opt": [], "array": [("e", ("list", []))], "set": [("e", ("set", False, []))]}[kind]
        he = ("struct", hcls["name"], [("n2", ("int", 5))] + empty)
        pool = [[["create", p["name"], False, False]], [["create", c["name"], False, False]],
                [["create", hcls["name"], False, False]], [["inst", p["name"], pd, False]],
                [["inst", c["name"], cd, False]], [["inst", hcls["name"], he, False], ["ser", None]],
                [["inst", hcls["name"], hd, False], ["ser", None]],      # first use with a value ...
                [["create", c["name"], True, False]]]                     # ... and a serializer re-created with other flags
        out.append((fam, pool, ["inst", hcls["name"], hd, False]))
    return out


def lattice_case(shape, perm):
    fam, pool, final = shape
    ops, n_inst = [], 0
    for i in perm:
        for op in copy.deepcopy(pool[i]):
            if op[0] == "inst":
                n_inst += 1
            if op[0] == "ser":
                op[1] = n_inst - 1
            ops.append(op)
    return fam, ops + [copy.deepcopy(final)]


def trusted_empty_cases(fresh):
    """from_trusted_data(None) WITHOUT keywords is an instantiation like any other: the class gets its serializer.
    Parent (optional field) / Child(Parent) (optional field): the trusted empty instance of either, before / after the
    parent's serializer exists (x.serialize() of an implementation that skips the mix-in's __init__ for such an
    instance is the inherited closure - the same empty document here - or the NotImplementedError stub)."""
    intf = {"t": "prim", "f": dict(T.INTF)}
    strf = {"t": "prim", "f": {"t": "str"}}
    out = []
    for target, pre in itertools.product(["parent", "child"], [[], ["create-parent"], ["inst-parent"]]):
        p = {"name": fresh("Lp"), "base": None, "fields": [{"name": "a", "ty": intf, "default": None}], "fast": True,
             "required": [], "additional": None, "ignore_none": False, "mapper": None}
        c = {"name": fresh("Lc"), "base": p["name"], "fast": True, "required": [], "additional": None,
             "ignore_none": False, "mapper": None, "fields": [{"name": "user_name", "ty": strf, "default": None}]}
        ops = []
        if pre == ["create-parent"]:
            ops.append(["create", p["name"], False, False])
        if pre == ["inst-parent"]:
            ops.append(["inst", p["name"], ("struct", p["name"], [("a", ("int", 1))]), False])
        t = p if target == "parent" else c
        ops.append(["inst", t["name"], ("struct", t["name"], []), True])
        ops.append(["ser", len([o for o in ops if o[0] == "inst"]) - 1])
        out.append(([p, c], ops))
    return out


def lattice_cases(rnd, fresh, spec):
    """spec = (max schedule length, complete up to this length, number of longer schedules sampled with rnd)"""
    max_len, full, n_sample = spec
    shapes = lattice_shapes(fresh)
    out = trusted_empty_cases(fresh)
    for shape in shapes:
        for r in range(0, full + 1):
            for perm in itertools.permutations(range(len(shape[1])), r):
                out.append(lattice_case(shape, perm))
    for _ in range(n_sample):
        shape = rnd.choice(shapes)
        r = rnd.randint(full + 1, max(full + 1, min(max_len, len(shape[1]))))
        out.append(lattice_case(shape, rnd.sample(range(len(shape[1])), r)))
    return out


# ------------------------------------------------------------------ Gallina

def emit_op(t):
    if t[0] == "create":
        return "(HCreate %s %s %s)" % (E.pstr(t[1]), E.blit(t[2]), E.blit(t[3]))
    if t[0] == "inst":
        return "(HInst %s %s)" % (E.blit(t[1]), E.pval(t[2]))
    if t[0] == "ser":
        return "(HSer %s)" % E.pval(t[1])
    if t[0] == "via":
        return "(HSerVia %s %s)" % (E.blit(t[1]), E.pval(t[2]))
    raise ValueError(t)


def emit_class(c):
    """flattened class; for a subclass the compact form of the regular serializer reads the class's OWN
    _additional_properties"""
    c2 = dict(c)
    if c.get("base"):
        c2["additional"] = c.get("additional_own")
    return T.emit_class(c2)


def oracle_tables(h):
    sers, _ = T.kinds_in(h.env)
    uniq, seen = [], set()
    for v in h.values:
        try:
            r = rename(E.reify(v, S.struct_attrs), "_R")
        except Exception:  # noqa
            continue
        if repr(r) not in seen:
            seen.add(repr(r))
            uniq.append((v, r))
    ns = {}
    exec(T.IMPORTS, ns)
    sser = {}
    for kind in sers:
        i, src = T.SER[kind]
        field = eval(src, ns)
        field._name = "f"
        sser[i] = [(r, outcome_of(lambda v=v: field.serialize(v))[0]) for v, r in uniq]
    return sser


def emit_hcase(h):
    sser = oracle_tables(h)
    parents = E.lst(["(%s, %s)" % (E.pstr(c["name"]), E.pstr(c["base"])) for c in h.fam if c.get("base")])
    env_lit = E.lst(["\n   " + emit_class(c) for c in h.env])
    return env_lit, ("{| hc_env := @ENV@; hc_parents := %s; hc_sser := %s; hc_oser := []; hc_ofast := []; hc_ops := %s; "
                     "hc_outs := %s; hc_regs := %s |}") % (
        parents, T.emit_otable(sser),
        E.lst(["\n   " + emit_op(t) for t in h.trace]),
        E.lst([E.outcome(t[-1]) for t in h.trace]),
        E.lst(["(%s, %s, %s, %s)" % (E.blit(c), E.pstr(n), E.pval(v), E.outcome(o)) for c, n, v, o in h.regs]))


# ------------------------------------------------------------------ the stream

HEADER = """From Coq Require Import ZArith NArith String List Bool. Import ListNotations.
From TP Require Import Check.C10hchk.
Local Open Scope string_scope.
"""


def report_obs(rep, h, ops, found_in):
    """spec clause of the property on every serialization of the history"""
    n_bad = 0
    for ob in h.obs:
        rep.stat("fast_hist", "serialization:" + (ob["clause"] or "same-document"))
        if ob["clause"]:
            n_bad += 1
            tags = hist_tags(h, ops, ob)
            key = finding_key(tags, ob["clause"])
            rep.finding(key, "history of a FastSerializable family: %s (%s)" % (ob["clause"], ", ".join(sorted(tags)) or "safe fragment"),
                        {"stream": "fast_hist", "family": h.fam, "ops": ops, "instance": ob["idx"], "clause": ob["clause"],
                         "documents(fast, via Serializer, regular twin)": ob.get("docs"), "found_in": found_in,
                         "python": hist_python(h.fam, ops)})
    return n_bad


def stream_fast_hist(rep, rnd, n, lattice_spec, model_ok, fresh, eval_bodies):
    cases = []
    for fam, ops in lattice_cases(rnd, fresh, lattice_spec):
        cases.append((fam, ops, "lattice"))
    for _ in range(n):
        fam = gen_family(rnd, fresh)
        envd = {c["name"]: c for c in flat_env(fam)}
        cases.append((fam, gen_schedule(rnd, fam, envd), "random"))
    items, runs = [], []
    n_ser = n_bad = 0
    for fam, ops, origin in cases:
        try:
            h = Hist(fam).run(ops)
        except Exception as ex:  # noqa  a declaration of the family is rejected by typedpy
            rep.stat("fast_hist", "declaration-rejected")
            continue
        runs.append((fam, ops, h))
        shape = repr([[fd["ty"] for fd in c["fields"]] + [c.get("base") is not None, c.get("mapper")] for c in fam])[:300]
        rep.count("fast_hist", 1, (origin, shape, repr([op[:2] if op[0] != "inst" else (op[0], op[1]) for op in ops])[:200]))
        rep.stat("fast_hist", "origin:" + origin)
        rep.stat("fast_hist", "family:" + ("inheritance" if any(c.get("base") for c in fam) else "flat"))
        for ev in h.events:
            if ev[0] == "raise":
                rep.stat("fast_hist", "op-raises:" + ev[1] + " (create_serializer / the implicit one of an instantiation)")
        n_ser += len(h.obs)
        n_bad += report_obs(rep, h, ops, origin)
        if model_ok:
            items.append(emit_hcase(h))
    if runs:
        fam, ops, h = runs[-1]
        rep.sample({"stream": "fast_hist", "python": hist_python(fam, ops)[len(T.IMPORTS):],
                    "observed": repr([(o["cls"], o["clause"]) for o in h.obs])})
    rep.cov["streams"].setdefault("fast_hist", {})["serializations_judged"] = n_ser
    rep.obligation("spec-on-observed:fast_hist", n_bad == 0,
                   "%d histories, %d serializations, %d differ from the regular twin" % (len(runs), n_ser, n_bad))
    if model_ok and items:
        fns = ["h_out_mismatch", "h_reg_mismatch", "h_undecided"]
        try:
            # the declarations of a family are shared by many histories: one Definition per distinct family and shard
            per, bodies = 100, []
            for s0 in range(0, len(items), per):
                names, defs, lits = {}, [], []
                for env_lit, lit in items[s0:s0 + per]:
                    if env_lit not in names:
                        names[env_lit] = "fam_%d" % len(names)
                        defs.append("Definition %s : tenv := %s.\n" % (names[env_lit], env_lit))
                    lits.append("\n " + lit.replace("@ENV@", names[env_lit]))
                bodies.append("".join(defs) + "Definition cases : list hcase := %s.\n" % E.lst(lits))
            r = eval_bodies(bodies, fns, "c10h", per, HEADER)
        except RuntimeError as ex:
            rep.broken("correspondence:fast_hist/coq-eval", str(ex))
            return
        rep.cov["streams"]["fast_hist"]["outside_model_domain_skipped"] = len(r["h_undecided"])
        for name, what in (("h_out_mismatch", "run_ops(Ser/FastState.v)"), ("h_reg_mismatch", "ser_regular(histories)")):
            rep.obligation("correspondence:" + what, not r[name], "%d histories, %d mismatches" % (len(items), len(r[name])))
            import os
            if os.environ.get("C10_DEBUG"):
                for i in r[name][:int(os.environ["C10_DEBUG"])]:
                    print("#### MISMATCH", name)
                    print(hist_python(runs[i][0], runs[i][1])[len(T.IMPORTS):])
                    print([t[-1] for t in runs[i][2].trace])
                    print(runs[i][2].regs)
            if r[name] and not any(not v["no_input"] for v in rep.violations):
                fam, ops, h = runs[r[name][0]]
                rep.broken("correspondence:" + what,
                           "model (Ser/FastState.v) and typedpy differ on %d histories" % len(r[name]),
                           {"stream": "fast_hist", "family": fam, "ops": ops,
                            "observed": repr([t[-1] for t in h.trace]), "python": hist_python(fam, ops)})


def replay(obj):
    fam, ops = obj["family"], obj["ops"]
    print(hist_python(fam, ops)[len(T.IMPORTS):])
    h = Hist(fam).run(ops)
    bad = 0
    for ob in h.obs:
        d = ob.get("docs") or ("-", "-", "-")
        print("instance x%d of %s (compact=%s, serialize_none=%s)" % (ob["idx"], ob["cls"], ob["compact"], ob["sn"]))
        print("   x.serialize()             :", d[0])
        print("   Serializer(x).serialize() :", d[1])
        print("   required (regular twin)   :", d[2])
        print("   clause failing            :", ob["clause"])
        if ob["clause"]:
            bad = 1
    return bad
