"""Subprocess side of the C16 check.  Runs the real typedpy stub generator on a batch of
generated modules (all paths under the harness' scratch directory) under the PYTHONHASHSEED it
was started with, and - when asked - dumps the run-time facts of every Structure class
(signature, _required, _constants, additional-properties flags, behaviour of the constructor
on probe arguments) as JSON.

usage: python -m harness.c16_runner <job.json> <out.json>
job: {"src_root":..., "stubs_root":..., "facts": bool,
      "modules": [{"name":..., "path":..., "apd": bool, "samples": {cls: {field: expr}}}]}"""
import enum
import importlib.util
import inspect
import io
import json
import logging
import os
import sys
import traceback


def _guard(path, root):
    path = os.path.realpath(path)
    root = os.path.realpath(root)
    if "/.work/" not in path + "/" or not path.startswith(root + os.sep):
        raise SystemExit("c16_runner: refusing to work outside the scratch directory: " + path)


def load_module(name, path):
    spec = importlib.util.spec_from_file_location(name, path)
    mod = importlib.util.module_from_spec(spec)
    had = sys.modules.get(name)
    sys.modules[name] = mod                      # the documented importlib recipe (dataclasses need it)
    try:
        spec.loader.exec_module(mod)
    finally:
        if had is None:
            sys.modules.pop(name, None)
        else:
            sys.modules[name] = had
    return mod


def level_info(level):
    """One class of an MRO as the model's `body`, reified from the class object."""
    from typedpy.commons import Constant
    d = level.__dict__
    fields = []
    for k in d.get("_fields", []):
        v = d.get(k)
        fields.append({"name": k, "const": isinstance(v, Constant),
                       "default": getattr(v, "_default", None) is not None})
    addl = d.get("_additional_properties", d.get("_additionalProperties"))
    return {"cls": level.__name__, "module": level.__module__, "fields": fields,
            "required": list(d.get("_required")) if "_required" in d else None,
            "optional": sorted(d.get("_optional", []) or []),
            "additional": addl if isinstance(addl, bool) else None}


def class_facts(mod, cname, cls, samples, apd):
    from typedpy import Structure
    from typedpy.structures.structures import StructMeta
    out = {}
    sig = inspect.signature(cls)
    out["sig"] = [[n, p.default is not inspect.Parameter.empty, p.kind.name] for n, p in sig.parameters.items()]
    out["required"] = sorted(getattr(cls, "_required", []) or [])
    out["constants"] = sorted(getattr(cls, "_constants", {}).keys())
    out["all_fields"] = list(cls.get_all_fields_by_name().keys())
    out["eff_additional"] = bool(getattr(cls, "_additional_properties", apd))
    own = cls.__dict__.get("_additional_properties")
    out["own_additional"] = own if isinstance(own, bool) else None
    out["custom_init"] = "__init__" in cls.__dict__
    if out["custom_init"]:
        isig = inspect.signature(cls.__dict__["__init__"])
        out["init_sig"] = [[n, p.default is not inspect.Parameter.empty, p.kind.name]
                           for n, p in list(isig.parameters.items())[1:]]
    import typedpy.structures.structures as _S
    builtin = {id(v) for v in vars(_S).values() if isinstance(v, StructMeta)}
    out["mro"] = [level_info(c) for c in cls.__mro__ if isinstance(c, StructMeta) and id(c) not in builtin]
    # behaviour of the constructor on probe arguments
    probes = {}
    smp = samples.get(cname)
    if smp is not None:
        ns = mod.__dict__
        try:
            vals = {k: eval(v, ns) for k, v in smp.items()}
        except Exception as e:  # noqa
            vals = None
            probes["samples_error"] = repr(e)
        if vals is not None:
            names = [n for n, d, k in out["sig"] if k != "VAR_KEYWORD"]
            if out["custom_init"]:
                names = [n for n in out["all_fields"] if n not in out["constants"]]
            req = [n for n in names if n in vals and n in out["required"]]

            def attempt(kw):
                try:
                    cls(**kw)
                    return "ok"
                except Exception as e:  # noqa
                    return type(e).__name__

            full = {n: vals[n] for n in names if n in vals}
            probes["all"] = attempt(full)
            base = {n: vals[n] for n in req}
            probes["required_only"] = attempt(base)
            probes["extra"] = attempt(dict(full, zz_unknown_kw=1))
            probes["without"] = {n: attempt({k: v for k, v in full.items() if k != n}) for n in full}
            probes["constant"] = {n: attempt(dict(full, **{n: 1})) for n in out["constants"]}
    out["probes"] = probes
    return out


def main():
    job = json.load(open(sys.argv[1]))
    src_root, stubs_root = job["src_root"], job["stubs_root"]
    _guard(src_root, os.path.dirname(src_root))
    _guard(stubs_root, os.path.dirname(stubs_root))
    logging.disable(logging.CRITICAL)          # the generator logs every type it cannot render
    from typedpy import Structure
    from typedpy.structures.defaults import TypedPyDefaults
    from typedpy.stubs.type_helpers import create_stub_for_file
    result = {}
    for m in job["modules"]:
        _guard(m["path"], src_root)
        r = {"stub_error": None, "facts_error": None}
        saved = TypedPyDefaults.additional_properties_default
        saved_path = list(sys.path)
        try:
            Structure.set_additional_properties_default(m["apd"])
            try:
                create_stub_for_file(m["path"], src_root, stubs_root, additional_properties_default=m["apd"])
            except BaseException as e:  # noqa
                r["stub_error"] = "%s: %s" % (type(e).__name__, e)
                r["stub_trace"] = traceback.format_exc()[-1500:]
            if job.get("facts"):
                try:
                    mod = load_module(m["name"], m["path"])
                    classes = {}
                    enums = {}
                    for k, v in mod.__dict__.items():
                        if inspect.isclass(v) and v.__module__ == mod.__name__:
                            if issubclass(v, Structure):
                                classes[k] = class_facts(mod, k, v, m.get("samples", {}), m["apd"])
                            elif issubclass(v, enum.Enum):
                                enums[k] = [x.name for x in v]
                    r["classes"] = classes
                    r["enums"] = enums
                except BaseException as e:  # noqa
                    r["facts_error"] = "%s: %s" % (type(e).__name__, e)
                    r["facts_trace"] = traceback.format_exc()[-1500:]
        finally:
            Structure.set_additional_properties_default(saved)
            sys.path[:] = saved_path
        result[m["name"]] = r
    with open(sys.argv[2], "w") as f:
        json.dump(result, f)


if __name__ == "__main__":
    main()
