"""C18, stream `guard`: the tie between the generated validation chains (coq/theories/Gen/GuardProgs.v,
evaluated by Errors/Guard.run inside Coq) and what the real field objects do.

For one real field object and one value the harness runs the real chain (`field.__set__(instance, value)`;
for Enum `field._validate(value)`; the two collection helpers are called directly) and records HOW it ended:
accepted, rejected by the raise statement that Gen/Templates.v numbers tid (found through the traceback), or
by an exception no raise statement of typedpy produced (its class).  Inside Coq the same value is run through
the generated chain with the attributes read off the real object; the two outcomes must agree, the object
must fit the schema its kind's theorem assumes, and an exception that names nothing must never occur where
the theorem's hypotheses hold."""
import collections

from harness import coqemit as E
from harness import fieldgen as G
from harness import c18lattice as L

KIND_OF_LEAF = {"str": "String", "bool": "Boolean", "enumlit": "Enum[values]", "enumcls": "Enum[cls]"}

HUGE = ("int", 10 ** 400)
EXTRA_VALUES = [("hugeint", HUGE), ("neg-hugeint", ("int", -(10 ** 400))), ("int-2^53+1", ("int", 2 ** 53 + 1)),
                ("none", ("none",)), ("str-True", ("str", "True")), ("str-RED", ("str", "RED")),
                ("float-int", ("flt", 3, 0)), ("bool-false", ("bool", False))]


def kind_label(f):
    if f["t"] == "num":
        return G.SIGN_CLASS[(f["k"], f["s"])]
    return KIND_OF_LEAF[f["t"]]


def attrs_of_entries():
    from harness.genmods import guard_progs
    return {name: attrs for name, _, _, attrs, _, _ in guard_progs.entries()}


ENTRY_OF_KIND = {"Enum[values]": "Enum._validate", "Enum[cls]": "Enum._validate",
                 "validate_size": "SizedCollection.validate_size"}


def entry_name(kind):
    if kind in ENTRY_OF_KIND:
        return ENTRY_OF_KIND[kind]
    if kind.startswith("verify["):
        return "verify_type_and_uniqueness[%s]" % kind[7:-1]
    return kind + ".__set__"


def classify(exc):
    """('pass',) | ('named', tid) | ('bare', class name)"""
    from harness.props import c18
    if exc is None:
        return ("pass",)
    o = c18.origin_of(exc)
    if o is not None:
        t = c18.raise_statement_at(o[0], o[2])
        if t is not None:
            return ("named", t["id"])
    return ("bare", type(exc).__name__)


def strings_of(r, acc):
    return G.strings_in(r, acc)


def emit_case(kind, self_env, re_list, vals, obs):
    o = {"pass": "GOPass", "named": "(GONamed %s)" % E.nlit(obs[1]) if obs[0] == "named" else "",
         "bare": "(GOBare %s)" % E.pstr(obs[1]) if obs[0] == "bare" else ""}[obs[0]]
    return "{| gc_label := %s; gc_self := %s; gc_re := %s; gc_vals := %s; gc_obs := %s |}" % (
        E.pstr(kind), E.lst(["(%s, %s)" % (E.pstr(a), E.pval(v)) for a, v in self_env]),
        E.lst([E.pstr(s) for s in re_list]), E.lst([E.pval(v) for v in vals]), o)


def self_env(fobj, read_by_chain):
    """The field object as its chain sees it: every attribute the generated chain reads, and every other
    instance attribute holding a plain value (so that the schema is compared with the object, whatever the
    chain reads today)."""
    names = list(read_by_chain)
    for a in sorted(vars(fobj)):
        if a not in names:
            names.append(a)
    out = []
    for a in names:
        r = E.reify(getattr(fobj, a, None))
        if a in read_by_chain or not _opaque(r):
            out.append((a, r))
    return out


def _opaque(r):
    t = r[0]
    if t == "other":
        return True
    if t in ("list", "tuple", "deque"):
        return any(_opaque(x) for x in r[1])
    if t == "set":
        return any(_opaque(x) for x in r[2])
    if t == "dict":
        return any(_opaque(k) or _opaque(v) for k, v in r[1])
    return False


class Probe:
    """One real field object of a scalar kind, ready to be run on values."""

    def __init__(self, f, attrs_by_entry, idx):
        from harness.props import c18
        self.f = f
        self.kind = kind_label(f)
        cast = {"name": "G%d" % idx, "fields": [{"name": "a", "field": f}], "required": [], "additional": False}
        self.cast = cast
        self.C, _ = c18.realise(cast)
        self.fobj = self.C.get_all_fields_by_name()["a"]
        self.self_env = self_env(self.fobj, attrs_by_entry.get(entry_name(self.kind), []))

    def run(self, r):
        """Observed outcome of the real chain on reified value r."""
        v = G.unreify(r, {})
        try:
            if self.kind.startswith("Enum["):
                self.fobj._validate(v)
            else:
                inst = self.C()
                self.fobj.__set__(inst, v)
            return classify(None)
        except Exception as e:  # noqa
            return classify(e)

    def re_list(self, r):
        pat = getattr(self.fobj, "_compiled_pattern", None)
        if pat is None or getattr(self.fobj, "pattern", None) is None:
            return []
        return sorted(s for s in strings_of(r, set()) if pat.match(s))

    def case(self, r):
        obs = self.run(r)
        return emit_case(self.kind, self.self_env, self.re_list(r), [r], obs), obs


def special(r):
    from harness.props import c18
    return c18._has_special(r)


def lattice_cases(rep, attrs_by_entry):
    """every leaf kind x (every wrong-value class + boundary values + valid value)"""
    out = []
    for li, (ll, leaf, ok) in enumerate(L.LEAVES):
        p = Probe(leaf, attrs_by_entry, li)
        vals = [(wl, w) for wl, w in L.WRONG] + EXTRA_VALUES + [("valid", ok)]
        for wl, r in vals:
            text, obs = p.case(r)
            out.append((text, {"kind": p.kind, "leaf": ll, "value": wl, "observed": obs, "cast": p.cast, "r": r}))
            rep.count("guard", 1, (ll, wl))
            rep.stat("guard", "lattice:%s:%s" % (p.kind, obs[0]))
    return out


def random_cases(rep, rnd, n, attrs_by_entry):
    from harness.props import c18
    out = []
    for i in range(n):
        f = c18.gen_scalar(rnd)
        try:
            p = Probe(f, attrs_by_entry, 1000 + i)
        except Exception:  # noqa  (a declaration typedpy rejects)
            continue
        ok = G.gen_valid(rnd, f)
        vals = [ok, c18._wrong_type(f, rnd), rnd.choice(c18.ODD_VALUES)]
        b = c18.bound_violation(f, ok, rnd)
        if b is not None:
            vals.append(b)
        if f["t"] == "num":
            vals += [G.gen_number_for(rnd, f, want_valid=False) for _ in range(3)]
        if f["t"] == "str":
            vals += [("str", rnd.choice(G.STRINGS)) for _ in range(2)]
        if f["t"] == "enumcls":
            vals += [rnd.choice(G.enum_neighbours(f)) for _ in range(2)]
        for r in vals:
            if special(r):
                continue
            text, obs = p.case(r)
            out.append((text, {"kind": p.kind, "field": G.field_src(f), "value": G.py_src(r), "observed": obs,
                               "cast": p.cast, "r": r}))
            rep.count("guard", 1, (G.shape(f), r[0], obs[0]))
            rep.stat("guard", "random:%s:%s" % (p.kind, obs[0]))
    return out


COLLECTION_VALUES = [("list", []), ("list", [("int", 1)]), ("list", [("int", 1), ("int", 1), ("str", "a")]),
                     ("list", [("int", 1), ("bool", True)]), ("list", [("list", []), ("list", [])]),
                     ("tuple", []), ("tuple", [("int", 1), ("int", 2), ("int", 3)]), ("tuple", [("str", "a"), ("str", "a")]),
                     ("deque", [("int", 1), ("int", 2)]), ("deque", []), ("deque", [("int", 2), ("int", 2)]),
                     ("set", False, [("int", 1), ("int", 2)]), ("set", True, []), ("dict", [(("str", "k"), ("int", 1))]),
                     ("dict", []), ("int", 5), ("str", "abc"), ("none",), ("flt", 5, -1), ("bool", True)]


def helper_cases(rep, attrs_by_entry):
    """SizedCollection.validate_size and verify_type_and_uniqueness called as the collection fields call them."""
    import importlib
    from typedpy import Array
    FF = importlib.import_module("typedpy.fields.fields")
    out = []
    for lo, hi in [(None, None), (1, None), (None, 2), (2, 3), (0, 0)]:
        fobj = Array(minItems=lo, maxItems=hi)
        env = self_env(fobj, attrs_by_entry.get("SizedCollection.validate_size", []))
        for r in COLLECTION_VALUES:
            try:
                fobj.validate_size(G.unreify(r, {}), "a")
                obs = classify(None)
            except Exception as e:  # noqa
                obs = classify(e)
            out.append((emit_case("validate_size", env, [], [r], obs),
                        {"kind": "validate_size", "bounds": [lo, hi], "value": G.py_src(r), "observed": obs}))
            rep.count("guard", 1, ("validate_size", lo, hi, r[0]))
            rep.stat("guard", "helper:validate_size:%s" % obs[0])
    for tyname, ty in (("list", list), ("deque", collections.deque), ("tuple", tuple)):
        for uniq in (("bool", True), ("bool", False), ("none",), ("int", 1)):
            for r in COLLECTION_VALUES:
                try:
                    FF.verify_type_and_uniqueness(ty, G.unreify(r, {}), "a", G.unreify(uniq, {}))
                    obs = classify(None)
                except Exception as e:  # noqa
                    obs = classify(e)
                out.append((emit_case("verify[%s]" % tyname, [], [], [r, uniq], obs),
                            {"kind": "verify[%s]" % tyname, "unique": G.py_src(uniq), "value": G.py_src(r), "observed": obs}))
                rep.count("guard", 1, ("verify", tyname, uniq[0], r[0]))
                rep.stat("guard", "helper:verify:%s" % obs[0])
    return out


def build(rep, rnd, tier):
    attrs_by_entry = attrs_of_entries()
    items = lattice_cases(rep, attrs_by_entry)
    items += helper_cases(rep, attrs_by_entry)
    items += random_cases(rep, rnd, 150 if tier == "quick" else 1500, attrs_by_entry)
    return items
