"""C18, stream `shared`: Field objects carry the name that their messages print (`_name`), and a Field
INSTANCE bound to a module-level name can be used in several declarations of one class:

    Code = String(pattern="^[a-z]+$")
    class Catalog(Structure):
        price_by_code = Map[Code, Float]
        codes = Array[Code]

(FieldMeta.__getitem__ takes an instance as it is.)  Every collection writes the name of its item fields
when it is assigned, so what a message says depends on WHAT WAS ASSIGNED BEFORE in the process.  The other
streams realise a new class for every operation - the state of a new process - and never share an instance.

This stream enumerates   leaf kind x (position of the instance in field a) x (position in field c)
over all ordered pairs of the positions of harness/c18lattice.py (the field itself, item of an Array / unique
Array / Deque, positional item, Tuple, Set item, Map key, Map value), realises ONE class and runs a history of
operations on it: all valid; a invalid; c invalid; a invalid again; both invalid - each under construction and
Deserializer, fail-fast on and off.  Which fields are invalid is decided, as everywhere, by one-field-at-a-time
oracles on a class realised afresh; the clauses of C18 are evaluated on every rejection of the history."""
import json

from harness import fieldgen as G
from harness import c18lattice as L

# leaves whose source text is not that of another field of the generated class
SHARED_LEAVES = ["String/pat", "String/len", "Integer/bounds", "Integer/Positive", "Float/xmax", "Enum/strs",
                 "Enum/Color", "Boolean", "Number/NonNegative"]

CONFIGS = [("ctor", True), ("deser", True), ("ctor", False), ("deser", False)]


def wrong_for(leaf):
    """A hashable value of a class the leaf does not accept (usable as a set item and a map key)."""
    t = leaf["t"]
    if t == "str":
        return ("int", 5)
    if t == "enumlit" or t == "enumcls":
        return ("str", "__nope__")
    return ("str", "zz")


def shared_source(name, leaf, f1, f2):
    """Class source in which the ONE instance SH is used by field a (declaration f1) and field c (f2)."""
    leaf_src = G.field_src(leaf)
    out = [L.IMPORTS.strip(), "SH = %s" % leaf_src, "", "class %s(Structure):" % name]
    for fname, f in (("a", f1), ("c", f2)):
        src = G.field_src(f)
        if src.count(leaf_src) != 1:
            return None
        out.append("    %s = %s" % (fname, src.replace(leaf_src, "SH")))
    out += ["    b = String()", "    _required = []", "    _additional_properties = False", ""]
    return "\n".join(out)


def histories(tier, seed):
    """[(label, cast, steps)]; steps = [(kwargs [(name, reified)], meta, baseline {name: reified})]"""
    leaves = {ll: (leaf, ok) for ll, leaf, ok in L.LEAVES}
    out = []
    n = 0
    pairs = [(p1, p2) for p1 in L.POSITIONS for p2 in L.POSITIONS]
    for pi, ((pl1, mk1), (pl2, mk2)) in enumerate(pairs):
        if tier == "thorough":
            chosen = SHARED_LEAVES
        else:
            chosen = [SHARED_LEAVES[(pi + seed) % len(SHARED_LEAVES)], SHARED_LEAVES[(pi * 2 + seed + 4) % len(SHARED_LEAVES)]]
        for ll in dict.fromkeys(chosen):
            leaf, ok = leaves[ll]
            bad = wrong_for(leaf)
            r1, r2 = mk1(leaf, ok, bad), mk2(leaf, ok, bad)
            if r1 is None or r2 is None:
                continue
            (f1, bad1, ok1, exp1), (f2, bad2, ok2, exp2) = r1, r2
            name = "S%d" % n
            src = shared_source(name, leaf, f1, f2)
            if src is None:
                continue
            cast = {"name": name, "fields": [{"name": "a", "field": f1}, {"name": "c", "field": f2}, {"name": "b", "field": {"t": "str"}}],
                    "required": [], "additional": False, "shared_src": src}
            base = {"a": ok1, "c": ok2, "b": ("str", "ok")}
            k1 = ("type" if pl1 == "top" else {"map-key": "key", "map-value": "val"}.get(pl1, "elem"), exp1)
            k2 = ("type" if pl2 == "top" else {"map-key": "key", "map-value": "val"}.get(pl2, "elem"), exp2)

            def step(a_bad, c_bad):
                kw = [("a", bad1 if a_bad else ok1), ("c", bad2 if c_bad else ok2), ("b", ("str", "ok"))]
                meta = {}
                if a_bad:
                    meta["a"] = k1
                if c_bad:
                    meta["c"] = k2
                return kw, meta, base
            steps = [step(False, False), step(True, False), step(False, True), step(True, False), step(True, True)]
            out.append(("%s|%s|%s" % (ll, pl1, pl2), cast, steps, {"a": pl1, "c": pl2}))
            n += 1
    return out


def _run_on(C, case, mode, ff):
    """The operation on the ONE class of the history (state is kept from step to step)."""
    from typedpy import Structure, Deserializer
    from harness.props import c18
    old = Structure.failing_fast()
    Structure.set_fail_fast(ff)
    try:
        try:
            if mode == "ctor":
                C(**case.py)
            else:
                Deserializer(C).deserialize(dict(case.doc))
            return None
        except Exception as e:  # noqa
            return e, c18.observe_exception(e)
    finally:
        Structure.set_fail_fast(old)


def _twin(cast):
    """The same declarations with an instance of their own each."""
    return {k: v for k, v in cast.items() if k != "shared_src"}


def run_history(cast, steps, where, upto=None, verbose=False):
    """-> [(key, text, step index, mode, ff)] of the clauses that fail on the history (all of it, or steps 0..upto)."""
    from harness.props import c18
    from typedpy import Structure
    cls = cast["name"]
    try:
        C, _ = c18.realise(cast)
    except Exception:  # noqa   (a declaration typedpy does not allow)
        return None
    fails = []
    for si, (kw, meta, base) in enumerate(steps):
        if upto is not None and si > upto:
            break
        pybase = {k: G.unreify(v, {}) for k, v in base.items()}
        case = c18.Case(cast, kw, dict(meta, __baseline__=pybase))
        case.orc = c18.field_oracles(case, pybase)
        twin_orc = None
        for mode, ff in CONFIGS:
            tag = "%s/%s" % (mode, "ff" if ff else "all")
            invalid = [n for n, o in case.orc.items() if (o["ctor"] if mode == "ctor" else (o["pre"] or o["post"]))]
            victims = "+".join(where[n] for n in sorted(invalid) if n in where) or "none"
            others = "+".join(where[n] for n in sorted(where) if n not in invalid) or "none"
            sig = "victim=%s" % victims
            ctx = " [the instance is also used as: %s]" % others
            # a message that is already wrong in a new process, and is NOT wrong for the same declarations without
            # sharing (that one the other streams report)
            tainted = c18.taints(case, mode, ff, invalid)
            if tainted:
                if twin_orc is None:
                    tcase = c18.Case(_twin(cast), kw, dict(meta, __baseline__=pybase))
                    tcase.orc = c18.field_oracles(tcase, pybase)
                    twin_orc = tcase
                tw = c18.taints(twin_orc, mode, ff, invalid)
                for n, (defect, x) in tainted.items():
                    if n not in tw:
                        fails.append(("C18/shared/%s/%s" % (mode, sig),
                                      "step %d: field %s given %r in a class realised afresh: its own message is %r (%s)%s" % (
                                          si, n, case.py[n] if mode == "ctor" else case.doc[n], x["inner"],
                                          c18.DEFECT_TEXT[defect.split("/")[0]], ctx), si, mode, ff))
            r = _run_on(C, case, mode, ff)
            if verbose:
                print("step %d %-5s fail_fast=%-5s invalid=%s ->" % (si, mode, ff, invalid),
                      "accepted" if r is None else "%s %r" % (r[1]["exn"], r[1]["raw"][:200]))
            if not invalid:
                if r is not None:
                    fails.append(("C18/shared/%s/rejects-valid" % mode,
                                  "step %d (%s): every field is valid on its own, the operation raised %s: %s%s" % (
                                      si, tag, r[1]["exn"], r[1]["raw"], ctx), si, mode, ff))
                continue
            if r is None:
                fails.append(("C18/shared/%s/accepts-invalid/%s" % (mode, sig),
                              "step %d (%s): fields %s are invalid on their own, the operation accepted%s" % (si, tag, invalid, ctx),
                              si, mode, ff))
                continue
            uncaught = any(not x.get("te_ve", True) for _, x in tainted.values())
            cf, _ = c18.check_rejection(cls, invalid, r[1], ff, set(tainted), uncaught)
            for clause, text in cf:
                if clause == "reported-set" and mode == "deser" and not ff:
                    continue       # F19 (constructor-only errors): accounted for by the other streams
                fails.append(("C18/shared/%s/%s" % (mode, sig), "step %d of the history, %s, clause %s: %s%s" % (si, tag, clause, text, ctx),
                              si, mode, ff))
    assert Structure.failing_fast()
    return fails


def replay_obj(cast, steps, where, si, mode, ff):
    return {"shared_history": True, "cls_ast": cast, "where": where, "upto": si, "mode": mode, "ff": ff,
            "steps": [[kw, {k: list(v) for k, v in meta.items()}, base] for kw, meta, base in steps],
            "python": cast["shared_src"] + "\n# history: " + json.dumps(
                [{k: G.py_src(v) for k, v in kw} for kw, _, _ in steps[:si + 1]])}


def run(rep, tier, seed):
    hs = histories(tier, seed)
    n_run = 0
    for label, cast, steps, where in hs:
        fails = run_history(cast, steps, where)
        if fails is None:
            rep.stat("shared", "undeclarable:%s" % "|".join(label.split("|")[1:]))
            continue
        n_run += 1
        rep.count("shared", 4 * len(steps), label)
        rep.stat("shared", "pair:%s" % "|".join(label.split("|")[1:]))
        for key, text, si, mode, ff in fails:
            rep.finding(key, text, replay_obj(cast, steps, where, si, mode, ff))
    return n_run


def replay(obj, rereify):
    steps = []
    for kw, meta, base in obj["steps"]:
        steps.append(([(k, rereify(v)) for k, v in kw],
                      {k: (v[0], tuple(v[1]) if isinstance(v[1], list) else v[1]) for k, v in meta.items()},
                      {k: rereify(v) for k, v in base.items()}))
    print(obj["cls_ast"]["shared_src"])
    fails = run_history(obj["cls_ast"], steps, obj["where"], upto=obj["upto"], verbose=True) or []
    want = obj.get("finding_key")
    hit = [f for f in fails if f[0] == want] or fails
    for f in hit:
        print("FAILS    :", f[0], "-", f[1])
    if not hit:
        print("no clause of C18 fails on this history now")
    return 1 if hit else 0
