"""Enum-class vocabulary of the C08 check, beyond fieldgen's plain Color/Size: classes that mix in a primitive type
(enum.IntEnum, str/float mix-ins: isinstance(member, (int, str, float)) holds), members with falsy values, and the
`serialization_by_value=True` spelling.  typedpy's by-value flag is per field; the generator declares it uniformly
per class (every Enum field over a class listed in BY_VALUE is declared by value), so that the model can carry it
in its per-class table (Schema/ToSchema.v `eopts`).

Registered into fieldgen.ENUMS / fieldgen.BY_VALUE by harness/props/c08.py at import (the C08 process only)."""
import enum


class Prio(enum.IntEnum):
    LOW = 1
    HIGH = 2
    TOP = 3


class Tag(str, enum.Enum):
    A = "alpha"
    B = "beta"


class Ratio(float, enum.Enum):
    HALF = 0.5
    TWO = 2.0


class Flag(enum.Enum):          # falsy values
    OFF = 0
    EMPTY = ""
    ON = 1
    HALF = 0.5


# the by-value twins (distinct classes: the class name identifies the declaration style in the model)
class ColorV(enum.Enum):
    RED = 1
    GREEN = 2
    BLUE = "b"


class PrioV(enum.IntEnum):
    LOW = 1
    HIGH = 2
    TOP = 3


class FlagV(enum.Enum):
    OFF = 0
    EMPTY = ""
    ON = 1


class TagV(str, enum.Enum):
    A = "alpha"
    B = "beta"


EXTRA = {"Prio": Prio, "Tag": Tag, "Ratio": Ratio, "Flag": Flag,
         "ColorV": ColorV, "PrioV": PrioV, "FlagV": FlagV, "TagV": TagV}
BY_VALUE = {"ColorV", "PrioV", "FlagV", "TagV"}
IMPORT = "from harness.c08enums import Prio, Tag, Ratio, Flag, ColorV, PrioV, FlagV, TagV\n"


def mixin_of(cls):
    """Constructor name of Schema/ToSchema.v `mixin`."""
    if issubclass(cls, int):
        return "MixInt"
    if issubclass(cls, str):
        return "MixStr"
    if issubclass(cls, float):
        return "MixFloat"
    return "MixNone"
