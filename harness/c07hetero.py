"""C07 stream `hetero-history` (private to C07): containers whose items are SEVERAL structure classes, and
histories over the process-wide mapper cache.

Scenario = 2..3 item classes K0..K2 with overlapping field names (`ref`, `amt`, `note_x`) that their own
rename-only mappers rename DIFFERENTLY (dict / TO_LOWERCASE / TO_CAMELCASE / [TO_CAMELCASE, dict] / none),
each with one field of its own, plus a container class C whose field `entry` is
    pos_arr   Array(items=[K0, K1(, K2)])          positional items
    pos_tuple Tuple(items=[K0, K1(, K2)])
    arr_anyof Array[AnyOf[K0, K1(, K2)]]
    set_anyof Set[AnyOf[K0, K1(, K2)]]
    arr_one   Array[K0] next to a second field Array[K1]   (control: one item type per field)
and a HISTORY: a sequence of steps over {C, K0, K1, K2}; a step serializes a fresh instance of that class
and deserializes the document again (both values of camel_case_convert), optionally after a schema export
of the class (another reader of the class's mappers).  Container first / item classes first / interleaved.

After EVERY step the statement's clauses are judged for the class of the step:
  * key set of the document = image of the populated fields under the class's OWN declared chain;
  * the document deserializes to an equal instance;
  * for the container additionally: every element's key set is the image under the element class's own chain.
The expectation is the declarative chain (py_chain, the Python rendering of Mappers.rename_chain that replay
uses).  Enum mappers on the container are generated only for the kinds whose items get an '<f>._mapper' entry
(Array of classes); Tuple / AnyOf items are outside _set_base_mapper_no_op and are exercised as cache readers."""
import copy

SUFFIX = "._mapper"
KINDS = ["pos_arr", "pos_tuple", "arr_anyof", "set_anyof", "arr_one"]

# per-class declarations over the shared names; {i} = index of the class (keys differ per class)
DECLS = [
    lambda i: ["one", ["dict", [["ref", ["key", "ref%dId" % i]], ["amt", ["key", "total"]]]]],
    lambda i: ["one", ["dict", [["ref", ["key", "r_%d" % i]]]]],
    lambda i: ["one", ["dict", [["note_x", ["key", "ref"]], ["ref", ["key", "note%d" % i]]]]],   # a swap-like rename
    lambda i: ["one", "lower"],
    lambda i: ["one", "camel"],
    lambda i: ["many", ["camel", ["dict", [["noteX", ["key", "n%d" % i]], ["ref", ["key", "ref_%d" % i]]]]]],
    lambda i: None,
    lambda i: ["one", ["dict", [["amt", ["key", "amount%d" % i]]]]],                        # leaves `ref` alone
]
CDECLS = [None, ["one", ["dict", [["name", ["key", "ledgerName"]]]]], ["one", "camel"], ["one", "lower"]]

SHARED = [["ref", "amt"], ["ref", "note_x"], ["ref", "amt", "note_x"], ["ref"]]


def gen_scenarios(rnd, tier):
    out = []
    n = 36 if tier == "quick" else 400
    k = 0
    while len(out) < n:
        kind = KINDS[k % len(KINDS)]
        ncls = 2 if k % 3 else 3
        decl_idx = []
        while len(decl_idx) < ncls:
            d = (k // len(KINDS) + 3 * len(decl_idx) + rnd.randrange(len(DECLS))) % len(DECLS)
            if d not in decl_idx:
                decl_idx.append(d)
        items = []
        for i in range(ncls):
            fields = list(SHARED[(k + i) % len(SHARED)]) + ["own%d_z" % i]
            items.append({"fields": fields, "decl": DECLS[decl_idx[i]](i)})
        hist_kind = ["container-first", "items-first", "interleaved"][(k // 2) % 3]
        names = ["K%d" % i for i in range(ncls)]
        if hist_kind == "container-first":
            hist = ["C"] + names + ["C"] + names[:1]
        elif hist_kind == "items-first":
            hist = names + ["C"] + names + ["C"]
        else:
            hist = [names[0], "C"] + names[1:] + ["C", names[0]] + names[1:][::-1]
        filler = [None, "schema", None, "schema-first"][k % 4]
        steps = []
        for j, who in enumerate(hist):
            steps.append({"who": who, "schema": filler == "schema" and j % 2 == 0 or (filler == "schema-first" and j == 0),
                          "entry": "function" if (j + k) % 3 == 0 else "wrapper"})
        cdecl = CDECLS[(k // 3) % len(CDECLS)] if kind in ("pos_arr", "arr_one") else CDECLS[(k // 3) % 2]
        out.append({"kind": kind, "items": items, "cdecl": cdecl, "history": steps,
                    "history_kind": hist_kind, "uid": k})
        k += 1
    return out


# ------------------------------------------------------------------ realisation

def class_source(sc, prefix, mapper_src):
    lines = ["from typedpy import Structure, Integer, String, Array, Set, Tuple, AnyOf, ClassReference, mappers, "
             "DoNotSerialize, Serializer, Deserializer, serialize, deserialize_structure"]
    names = []
    for i, it in enumerate(sc["items"]):
        nm = "%s_K%d" % (prefix, i)
        names.append(nm)
        body = ["class %s(Structure):" % nm] + ["    %s = Integer" % f for f in it["fields"]]
        d = it["decl"]
        if d is not None:
            body.append("    _serialization_mapper = " + (mapper_src(d[1]) if d[0] == "one"
                                                          else "[" + ", ".join(mapper_src(m) for m in d[1]) + "]"))
        lines.append("\n".join(body))
    kind = sc["kind"]
    cn = "%s_C" % prefix
    body = ["class %s(Structure):" % cn, "    name = Integer"]
    if kind == "pos_arr":
        body.append("    entry = Array(items=[%s])" % ", ".join(names))
    elif kind == "pos_tuple":
        body.append("    entry = Tuple(items=[%s])" % ", ".join("ClassReference(%s)" % n for n in names))
    elif kind == "arr_anyof":
        body.append("    entry = Array[AnyOf[%s]]" % ", ".join(names))
    elif kind == "set_anyof":
        body.append("    entry = Set[AnyOf[%s]]" % ", ".join(names))
    else:
        for i, n in enumerate(names):
            body.append("    entry%d = Array[%s]" % (i, n))
    d = sc["cdecl"]
    if d is not None:
        body.append("    _serialization_mapper = " + mapper_src(d[1]))
    lines.append("\n".join(body))
    return "\n\n".join(lines) + "\n", names, cn


def decl_list(d):
    if d is None:
        return []
    return [d[1]] if d[0] == "one" else list(d[1])


def proj_enum(L):
    """what a container's list contributes to a nested class: its enum members (no '<f>._mapper' dicts here)"""
    return [m for m in L if isinstance(m, str)]


class Runner:
    """realises a scenario once and performs its history step by step"""

    def __init__(self, sc, prefix, c07):
        self.sc, self.c07 = sc, c07
        self.src, self.item_names, self.cname = class_source(sc, prefix, c07.mapper_src)
        ns = {}
        exec(self.src, ns)
        self.ns = ns
        self.val = 1000 * (sc["uid"] % 1000 + 1)

    def cls_of(self, who):
        return self.ns[self.cname] if who == "C" else self.ns[self.item_names[int(who[1:])]]

    def item_x(self, i):
        x = []
        for f in self.sc["items"][i]["fields"]:
            self.val += 1
            x.append([f, ["s", self.val]])
        return x

    def build_item(self, i, x):
        return self.ns[self.item_names[i]](**{n: v[1] for n, v in x})

    def step(self, j):
        """-> list of judgements of step j: dicts with keys who, flag, clause, ok, detail, and the observation"""
        from typedpy import Serializer, Deserializer, serialize, deserialize_structure
        c07 = self.c07
        st = self.sc["history"][j]
        who = st["who"]
        cls = self.cls_of(who)
        if st.get("schema"):
            try:
                from typedpy import structure_to_schema
                structure_to_schema(cls, {})
            except Exception:  # noqa  -- a filler, not judged here
                pass
        n = len(self.sc["items"])
        if who == "C":
            xs = [self.item_x(i) for i in range(n)]
            elems = [self.build_item(i, xs[i]) for i in range(n)]
            self.val += 1
            kw = {"name": self.val}
            kind = self.sc["kind"]
            if kind == "arr_one":
                for i in range(n):
                    kw["entry%d" % i] = [elems[i]]
            else:
                kw["entry"] = tuple(elems) if kind == "pos_tuple" else (set(elems) if kind == "set_anyof" else elems)
            inst = cls(**kw)
        else:
            i = int(who[1:])
            x = self.item_x(i)
            inst = self.build_item(i, x)
        out = []
        fn = st["entry"] == "function"
        for flag in ((False, True) if j % 2 == 0 else (True, False)):
            try:
                doc = serialize(inst, camel_case_convert=flag) if fn else Serializer(inst).serialize(camel_case_convert=flag)
            except Exception as e:  # noqa
                out.append({"who": who, "flag": flag, "clause": "keys", "ok": False, "detail": "serialize raised %r" % (e,)})
                continue
            try:
                back = (deserialize_structure(cls, copy.deepcopy(doc), camel_case_convert=flag, keep_undefined=False) if fn
                        else Deserializer(cls, camel_case_convert=flag).deserialize(copy.deepcopy(doc)))
                rt = back == inst and inst == back
                rt_detail = "" if rt else "deserialized to %s" % (back,)
            except Exception as e:  # noqa
                rt, rt_detail = False, "deserialize raised %s: %s" % (type(e).__name__, str(e)[:160])
            if who == "C":
                L = decl_list(self.sc["cdecl"]) + (["camel"] if flag else [])
                want_top = {c07.py_chain(L, "name")} | ({c07.py_chain(L, "entry%d" % i) for i in range(n)}
                                                        if self.sc["kind"] == "arr_one" else {c07.py_chain(L, "entry")})
                out.append({"who": who, "flag": flag, "clause": "keys", "ok": set(doc) == want_top,
                            "detail": "container keys %s, required %s" % (sorted(doc), sorted(want_top))})
                rt_at = len(out)
                out.append({"who": who, "flag": flag, "clause": "roundtrip", "ok": rt, "detail": rt_detail})
                # every element against its OWN class's chain (followed by what the container's list projects)
                got_elems = []
                if self.sc["kind"] == "arr_one":
                    for i in range(n):
                        got_elems += list(doc.get(c07.py_chain(L, "entry%d" % i), []))
                else:
                    got_elems = list(doc.get(c07.py_chain(L, "entry"), []))
                want_sets, merged_sets = [], []
                merged = {}
                for i in range(n):
                    Li = decl_list(self.sc["items"][i]["decl"])
                    for f in self.sc["items"][i]["fields"]:
                        merged[f] = c07.py_chain(Li, f)          # dict.update order: later classes win
                for i in range(n):
                    Li = decl_list(self.sc["items"][i]["decl"]) + proj_enum(L)
                    want_sets.append(frozenset(c07.py_chain(Li, f) for f in self.sc["items"][i]["fields"]))
                    merged_sets.append(frozenset(c07.py_chain(proj_enum(L), merged[f]) for f in self.sc["items"][i]["fields"]))
                # the one merged mapper of positional items may send two fields of a class to one key although the
                # class's own mapper is injective: then the container cannot round-trip either (same root cause)
                if self.sc["kind"] == "pos_arr" and any(
                        len({c07.py_chain(proj_enum(L) + (["camel"] if flag else []), merged[f]) for f in it["fields"]})
                        < len(it["fields"]) for it in self.sc["items"]):
                    out[rt_at]["merged"] = not rt
                got_sets = [frozenset(e) if isinstance(e, dict) else frozenset(["<not a dict>"]) for e in got_elems]
                ok = sorted(map(sorted, got_sets)) == sorted(map(sorted, want_sets))
                is_merged = (not ok and self.sc["kind"] == "pos_arr"
                             and sorted(map(sorted, got_sets)) == sorted(map(sorted, merged_sets)))
                out.append({"who": who, "flag": flag, "clause": "element-keys", "ok": ok, "merged": is_merged,
                            "detail": "element key sets %s, required (own chains) %s" % (
                                sorted(map(sorted, got_sets)), sorted(map(sorted, want_sets)))})
            else:
                i = int(who[1:])
                L = decl_list(self.sc["items"][i]["decl"]) + (["camel"] if flag else [])
                want = {c07.py_chain(L, f) for f in self.sc["items"][i]["fields"]}
                out.append({"who": who, "flag": flag, "clause": "keys", "ok": set(doc) == want,
                            "detail": "keys %s, required %s" % (sorted(doc), sorted(want)), "x": x, "doc": doc})
                out.append({"who": who, "flag": flag, "clause": "roundtrip", "ok": rt, "detail": rt_detail})
        return out


def injective(sc, c07):
    """round trip is only required when no field is dropped and keys are distinct -- for every class and flag"""
    for it in sc["items"]:
        for extra in ([], ["camel"]):
            for cont in ([], proj_enum(decl_list(sc["cdecl"]))):
                ks = [c07.py_chain(decl_list(it["decl"]) + cont + extra, f) for f in it["fields"]]
                if None in ks or len(set(ks)) != len(ks):
                    return False
    return True
